"""C17 Hosts are tried in query-plan order and exhaustion is reported.

Every plan (permutation of up to 4 hosts, or one targeted host) x every per-host pool state is
built on a real Session; the hosts that received frames and the error map of the final outcome
are compared with a reference walk of the plan.
"""
import itertools

from vt import reqworld
from vt.core import Part

META = {
    'level': 'model_checking',
    'engine': 'E+S',
    'technique': 'exhaustive enumeration of plans x per-host pool states on the real Session/ResponseFuture vs a reference walk of the plan; '
                 'BFS over response/timer histories with speculative executions in flight; all reactor/executor schedules with <= 1 preemption',
    'text': 'All permutations of 3 (quick) / 4 (thorough) hosts as query plan, and explicit host targeting, crossed with every '
            'assignment of a pool state to each host from {no pool, pool shut down, connection busy (write buffer full), all stream '
            'ids in use, connection closed under the pool, healthy-then-retry-next-host, healthy}: frames must reach exactly the '
            'hosts the reference walk visits, in order, none twice; NoHostAvailable only when the plan is exhausted, with '
            'exactly the visited hosts as keys and the documented reason class per host.  Every case is run twice: on fresh '
            'connections and from the state in which the next stream id a connection hands out is 0.  Speculative layer (several '
            'attempts of one request in flight on different hosts): BFS over every order of {speculative timer fires, outstanding '
            'attempt i answered with rows / overloaded + decision RETRY, RETRY_NEXT_HOST, RETHROW} with 1-2 speculative executions '
            'over 3-host plans with one host unusable or all healthy: a RETRY adds a frame for the host whose attempt failed and no '
            'other, new hosts are taken in plan order, NoHostAvailable only after the shared plan is exhausted and listing every '
            'skipped or failed host.  Schedule layer: the error response is delivered by a reactor thread (_set_result -> '
            '_handle_retry_decision -> _retry) while an executor worker runs the queued _retry_task -> send_request -> _query; every '
            'schedule with at most one preemption at any source line of those methods, for every 2- and 3-host plan over {no pool, '
            'busy, retry-next-host, retry-same-host-then-next, healthy} with at least one retried attempt (thorough: + 4 hosts), '
            'same oracle: frames, outcome and exactly the attempted hosts as NoHostAvailable.errors keys.',
    'note': 'Pool states are established through the pool/connection API after a normal connect (remove_pool, shutdown, '
            '_socket_writable=False as reactors do under back-pressure, in_flight saturated, connection.close()).  NoHostAvailable.errors '
            'is read after all threads have finished.',
    'design_ref': 'C17',
}

STATES = ['missing', 'shutdown', 'busy', 'full', 'closed', 'retry_next', 'healthy']
REASON = {'missing': 'ConnectionException', 'shutdown': 'ConnectionException', 'busy': 'ConnectionBusy',
          'full': 'NoConnectionsAvailable', 'closed': 'ConnectionShutdown', 'retry_next': 'OverloadedErrorMessage'}


def reference(plan, states):
    frames, errors = [], {}
    for h in plan:
        s = states[h]
        if s == 'healthy':
            frames.append(h)
            return frames, errors, 'rows'
        if s == 'retry_next':
            frames.append(h)
        errors[h] = REASON[s]
    return frames, errors, 'NoHostAvailable'


def pools_may_change(plan, states):
    """The per-host states are static only as long as the driver does not re-create pools.  Using a connection that was
    closed under its pool makes the driver mark that host down, and once the executor has run that task (that is after
    a later attempt was answered) Session.update_created_pools() re-creates every missing or shut-down pool of the
    other hosts: a host the reference calls unusable then has a usable pool.  Such plans are not judged."""
    closed_seen = answered_after = False
    for h in plan:
        s = states[h]
        if s == 'healthy':
            return False
        if answered_after and s in ('missing', 'shutdown'):
            return True
        if s == 'closed':
            closed_seen = True
        elif s == 'retry_next' and closed_seen:
            answered_after = True
    return False


def setup_states(st, addrs, states):
    """Put the pool of every host into its state through the pool/connection API; -> {address: Host}"""
    by = dict((h.endpoint.address, h) for h in st.cluster.metadata.all_hosts())
    for a in addrs:
        s = states[a]
        pool = st.session._pools.get(by[a])
        if s == 'missing':
            st.session.remove_pool(by[a])
        elif s == 'shutdown':
            pool.shutdown()
        elif s == 'busy':
            pool._connection._socket_writable = False
        elif s == 'full':
            c = pool._connection
            with c.lock:
                c.in_flight = c.max_request_id
        elif s == 'closed':
            pool._connection.close()
    while st.w.tasks:
        st.w.run_task(0)
        st.w.deliver_outbox()
    return by


def final_state(f):
    """-> (outcome, {address: reason class} | None)"""
    if not f._event.is_set():
        return 'open', {}
    if f._final_exception is not None:
        e = f._final_exception
        return type(e).__name__, dict((k.endpoint.address if hasattr(k, 'endpoint') else str(k), type(v).__name__)
                                      for k, v in getattr(e, 'errors', {}).items())
    return 'rows', None


def play(n, plan, states, target, id0=False):
    addrs = ['10.0.0.%d' % (i + 1) for i in range(n)]
    st = reqworld.ReqWorld(dict(hosts=n, order=list(plan), timeout=100.0, id0=id0))
    try:
        by = setup_states(st, addrs, states)
        st.retry.next = ('RETRY_NEXT_HOST', None)
        kw = {'host': by[target]} if target else {}
        f = st.execute('x', **kw)
        guard = 0
        while not f._event.is_set() and guard < 20:
            guard += 1
            pend = [p for p in st.pending() if p.req.get('query') == 'SELECT x']
            if pend:
                a = pend[0].conn.endpoint.address
                st.respond(st.pending().index(pend[0]), 'overloaded' if states[a] == 'retry_next' else 'rows')
            while st.w.tasks:
                st.w.run_task(0)
                st.w.deliver_outbox()
            if not pend and not st.w.tasks:
                break
        frames = [a for a, r in st.sent_app_requests() if r.get('query') == 'SELECT x']
        out, errors = final_state(f)
        return frames, errors, out
    finally:
        st.close()


def run_chunk(cases):
    part = Part()
    for case_ in cases:
        n, plan, svec, target = case_[:4]
        id0 = bool(case_[4]) if len(case_) > 4 else False
        addrs = ['10.0.0.%d' % (i + 1) for i in range(n)]
        states = dict(zip(addrs, svec))
        eff_plan = [target] if target else list(plan)
        if pools_may_change(eff_plan, states):
            part.count('skipped_pool_renewal')
            continue
        ref = reference(eff_plan, states)
        part.count('evaluations')
        got = play(n, plan, states, target, id0)
        case = {'n': n, 'plan': list(plan), 'states': list(svec), 'target': target, 'id0': id0}
        part.outcome((got[2], len(got[0])))
        if len(set(svec)) > 1:
            part.mark_nontrivial(repr((plan, svec, target, id0)))
        part.sample(dict(case, frames=got[0], outcome=got[2], errors=got[1]), limit=2)
        judge(part, case, got, ref, 'C17')
    return part


def judge(part, case, got, ref, fp, text=None):
    """got / ref = (frames, errors, outcome); the clauses of the statement, shared by the layers"""
    text = text or repr(case)
    if got[0] != ref[0]:
        kind = 'twice' if len(set(got[0])) != len(got[0]) else 'order'
        part.violation('%s/hosts-tried/%s' % (fp, kind), 'frames reached %r, reference %r for %s' % (got[0], ref[0], text), case)
    if got[2] != ref[2]:
        part.violation('%s/outcome/%s' % (fp, ref[2]), 'outcome %r, reference %r for %s' % (got[2], ref[2], text), case)
    elif ref[2] == 'NoHostAvailable' and got[1] != ref[1]:
        missing = sorted(set(ref[1]) - set(got[1]))
        extra = sorted(set(got[1]) - set(ref[1]))
        kind = 'keys' if (missing or extra) else 'reason'
        part.violation('%s/errors/%s' % (fp, kind), 'NoHostAvailable.errors %r, reference %r for %s' % (got[1], ref[1], text), case)


# ====================================================================== several attempts in flight (speculative executions)
from vt import explore          # noqa: E402

ADDRS3 = ['10.0.0.1', '10.0.0.2', '10.0.0.3']
SKIP = ('missing', 'shutdown', 'busy', 'full', 'closed')


class HSpec(explore.Harness):
    """One request with a speculative-execution policy on a 3-host plan: every order of {speculative timer fires,
    outstanding attempt i answered with rows / an overloaded error + decision RETRY, RETRY_NEXT_HOST, RETHROW}.
    The reference walks the shared plan: a speculative execution and a RETRY_NEXT_HOST take the next usable host
    (recording why the unusable ones were skipped), a RETRY adds one frame for the host whose attempt failed and for
    no other host.  The client timeout is not part of this layer (timers are fired only while speculative executions
    remain)."""
    name = 'c17-spec'

    def init(self):
        p = self.params
        st = reqworld.ReqWorld(dict(hosts=3, spec=p['spec'], spec_delay=1.0, timeout=100.0))
        states = dict(zip(ADDRS3, p['states']))
        setup_states(st, ADDRS3, states)
        st.m = m = {'frames': [], 'k': 0, 'errors': {}, 'done': None, 'spec_fired': 0, 'states': states}
        if self.walk(m) is None:
            m['done'] = 'NoHostAvailable'
        st.execute('x', idempotent=True)
        return st

    @staticmethod
    def walk(m):
        while m['k'] < len(ADDRS3):
            h = ADDRS3[m['k']]
            m['k'] += 1
            if m['states'][h] in SKIP:
                m['errors'][h] = REASON[m['states'][h]]
                continue
            m['frames'].append(h)
            return h
        return None

    def events(self, st):
        evs = []
        if st.m['done'] is not None:
            return evs
        for i in range(len(st.pending())):
            evs.append((('respond', i, 'rows', ''), 0))
            for d in self.params['decisions']:
                evs.append((('respond', i, 'overloaded', d), 0))
        if st.m['spec_fired'] < self.params['spec'] and st.w.live_timers():
            evs.append((('timer',), 0))
        return evs

    def apply(self, st, ev):
        m = st.m
        if ev[0] == 'timer':
            m['spec_fired'] += 1
            self.walk(m)                 # an exhausted plan is not an error for a speculative execution
            st.w.fire_timer(st.w.live_timers()[0])
        else:
            _, i, kind, d = ev
            host = st.pending()[i].conn.endpoint.address
            if kind == 'rows':
                m['done'] = 'rows'
            elif d == 'RETHROW':
                m['done'] = 'OverloadedErrorMessage'
            elif d == 'RETRY':
                m['frames'].append(host)
            else:
                m['errors'][host] = 'OverloadedErrorMessage'
                if self.walk(m) is None:
                    m['done'] = 'NoHostAvailable'
            st.retry.next = (d or 'RETHROW', None)
            st.respond(i, kind)
        guard = 0
        while st.w.tasks and guard < 50:
            st.w.run_task(0)
            st.w.deliver_outbox()
            guard += 1

    def observed(self, st):
        frames = [a for a, r in st.sent_app_requests() if r.get('query') == 'SELECT x']
        out, errors = final_state(st.futures[0])
        return frames, errors, out

    def canon(self, st):
        m = st.m
        return (tuple(m['frames']), m['k'], m['done'], m['spec_fired'], tuple(sorted(m['errors'].items())),
                repr(self.observed(st)), st.pending_canon(), st.timers_canon())

    def check(self, st, part, hist):
        m = st.m
        frames, errors, out = self.observed(st)
        data = {'params': self.params, 'history': hist}
        text = 'pool states %r after %r' % (self.params['states'], hist)
        part.outcome((m['done'] or 'open', len(frames), len(st.pending())))
        if len(frames) >= 3:
            part.mark_nontrivial(repr((self.params['states'], tuple(frames), m['done'])))
        if frames != m['frames']:
            over = [h for h in set(frames) if frames.count(h) > m['frames'].count(h)]
            kind = 'twice' if any(frames.count(h) > 1 for h in over) else 'order'
            part.violation('C17/spec/hosts-tried/%s' % kind, 'frames reached %r, reference %r for %s' % (frames, m['frames'], text), data)
        want = m['done'] or 'open'
        if out != want:
            part.violation('C17/spec/outcome/%s' % want, 'outcome %r, reference %r for %s' % (out, want, text), data)
        elif want == 'NoHostAvailable':
            # every host that was skipped or whose attempt failed is listed with its reason; a host whose attempt is
            # still outstanding (or was retried in place) may be listed or not
            missing = sorted(h for h in m['errors'] if h not in errors)
            extra = sorted(h for h in errors if h not in m['errors'] and h not in m['frames'])
            if missing or extra:
                part.violation('C17/spec/errors/keys', 'NoHostAvailable.errors %r, reference %r (missing %r, unexpected %r) for %s'
                               % (errors, m['errors'], missing, extra, text), data)
            elif any(errors[h] != r for h, r in m['errors'].items()):
                part.violation('C17/spec/errors/reason', 'NoHostAvailable.errors %r, reference %r for %s' % (errors, m['errors'], text), data)


def spec_configs(quick):
    dec = ['RETRY', 'RETRY_NEXT_HOST', 'RETHROW']
    out = []
    for spec, vectors in ((1, [('healthy',) * 3, ('healthy', 'busy', 'healthy'), ('healthy', 'missing', 'healthy'),
                               ('healthy', 'healthy', 'full'), ('closed', 'healthy', 'healthy')]),
                          (2, [('healthy',) * 3, ('healthy', 'shutdown', 'healthy')])):
        for v in vectors:
            out.append(('spec%d-%s' % (spec, '.'.join(x[:4] for x in v)), dict(spec=spec, states=list(v), decisions=dec),
                        5 if quick else 7))
    return out


# ====================================================================== reactor thread x executor worker (engine S)
from vt import sched            # noqa: E402

SCHED_FOCUS_NAMES = ('_set_result', '_handle_retry_decision', '_retry', '_retry_task', 'send_request')
_FOCUS = []


def sched_reference(plan, states):
    """the reference walk with the per-host scripts of the schedule layer"""
    frames, errors = [], {}
    for h in plan:
        s = states[h]
        if s == 'healthy':
            frames.append(h)
            return frames, errors, 'rows'
        if s == 'retry_next':
            frames.append(h)
        elif s == 'retry_same_next':
            frames += [h, h]
        errors[h] = REASON.get(s, 'OverloadedErrorMessage')
    return frames, errors, 'NoHostAvailable'


@sched.gc_quiet
def sched_harness(params, prefix, part):
    """The retry path is split over two threads in the driver: the reactor thread that delivered the error response
    runs _set_result -> _handle_retry_decision -> _retry (which only queues _retry_task), an executor worker runs
    _retry_task -> send_request -> _query.  Here thread 'reactor' answers every attempt as soon as it is outstanding
    (rows for a healthy host, an overloaded error for the others, the scripted policy deciding RETRY_NEXT_HOST, or
    RETRY once and then RETRY_NEXT_HOST) and thread 'executor' runs queued tasks; every source line of the focus
    methods is a scheduling point, so the queued retry may run before, inside or after the rest of the handler.
    params: n, plan, states, target."""
    from cassandra.cluster import ResponseFuture
    if not _FOCUS:
        _FOCUS.extend(getattr(ResponseFuture, n).__code__ for n in SCHED_FOCUS_NAMES)
    n, plan, svec, target = params['n'], params['plan'], params['states'], params.get('target')
    addrs = ['10.0.0.%d' % (i + 1) for i in range(n)]
    states = dict(zip(addrs, svec))
    st = reqworld.ReqWorld(dict(hosts=n, order=list(plan), timeout=100.0))
    try:
        w = st.w
        by = setup_states(st, addrs, states)
        st.retry.next = ('RETRY_NEXT_HOST', None)
        f = st.execute('x', **({'host': by[target]} if target else {}))
        s = sched.Scheduler(prefix, focus=_FOCUS, horizon=20000, clock=w.clock)
        flags = {'reactor_done': False, 'executor_parked': False}
        seen = {}

        def mine():
            return [p for p in st.pending() if p.req.get('query') == 'SELECT x']

        def reactor():
            try:
                # whichever thread starts first, the race begins with the worker parked on its empty queue
                s.block(lambda: flags['executor_parked'], None, 'reactor waits for the worker to park')
                while True:
                    s.block(lambda: bool(mine()) or f._event.is_set(), None, 'reactor waits for a request or the end')
                    pend = mine()
                    if not pend:
                        break
                    a = pend[0].conn.endpoint.address
                    seen[a] = seen.get(a, 0) + 1
                    if states[a] == 'healthy':
                        kind = 'rows'
                    else:
                        kind = 'overloaded'
                        st.retry.next = ('RETRY' if states[a] == 'retry_same_next' and seen[a] == 1 else 'RETRY_NEXT_HOST', None)
                    st.respond(st.pending().index(pend[0]), kind)
            finally:
                flags['reactor_done'] = True

        def executor():
            flags['executor_parked'] = True
            while True:
                s.block(lambda: bool(w.tasks) or flags['reactor_done'], None, 'executor idle')
                if w.tasks:
                    w.run_task(0)
                    w.deliver_outbox()
                elif flags['reactor_done']:
                    break

        s.spawn(executor, 'executor')        # first: it parks itself until a task is queued
        s.spawn(reactor, 'reactor')
        s.run()
        data = {'sched': True, 'params': params, 'prefix': s.choices()}
        text = '%r with schedule %r' % (params, s.choices())
        if s.failure:
            part.violation('C17/sched/%s' % s.failure[0], '%s for %s' % (s.failure[1], text), data)
            return s
        for t in s.threads:
            if t.exc is not None:
                part.violation('C17/sched/thread-exception/%s/%s' % (type(t.exc).__name__, t.name),
                               '%r in %s for %s\n%s' % (t.exc, t.name, text, getattr(t, 'exc_tb', '')), data)
                return s
        frames = [a for a, r in st.sent_app_requests() if r.get('query') == 'SELECT x']
        out, errors = final_state(f)
        got = (frames, errors, out)
        ref = sched_reference([target] if target else list(plan), states)
        judge(part, data, got, ref, 'C17/sched', text)
        part.outcome(('sched', out, len(frames)))
        if any(p.chosen for p in s.trace):
            part.mark_nontrivial(repr((params, s.choices())))
        part.sample({'params': params, 'choices': s.choices(), 'frames': frames, 'outcome': out, 'errors': errors}, limit=1)
        return s
    finally:
        st.close()


def sched_cases(quick):
    """Plans in which at least one attempt is retried (otherwise no task is ever queued and the single-threaded layer
    already covers the case)."""
    out = []
    for n in ((2, 3) if quick else (2, 3, 4)):
        addrs = ['10.0.0.%d' % (i + 1) for i in range(n)]
        alphabet = ['missing', 'busy', 'retry_next', 'retry_same_next', 'healthy'] if (n == 2 or not quick) and n < 4 else \
            ['busy', 'retry_next', 'retry_same_next', 'healthy']
        plans = [tuple(addrs), tuple(reversed(addrs))] if n == 2 else [tuple(addrs)]
        for svec in itertools.product(alphabet, repeat=n):
            states = dict(zip(addrs, svec))
            for plan in plans:
                ref = sched_reference(list(plan), states)
                if not [h for h in ref[0] if states[h] != 'healthy']:
                    continue
                out.append({'n': n, 'plan': list(plan), 'states': list(svec), 'target': None})
        for s0 in ('retry_next', 'retry_same_next'):
            out.append({'n': n, 'plan': list(addrs), 'states': [s0] + ['healthy'] * (n - 1), 'target': addrs[0]})
    return out


def _sched_root(job):
    params, bound = job
    part = Part()
    s = sched_harness(params, [], part)
    part.count('sched_executions')
    part.count('sched_steps', s.steps)
    return part, [k for k, _ in sched.children(s.trace, 0, bound)], len(s.trace)


def _sched_sub(job):
    params, bound, frontier = job
    part = Part()
    while frontier:
        nxt = []
        for prefix in frontier:
            s = sched_harness(params, prefix, part)
            part.count('sched_executions')
            part.count('sched_steps', s.steps)
            nxt.extend(k for k, _ in sched.children(s.trace, len(prefix), bound))
        frontier = nxt
    return part


def run_sched(ctx):
    bound = 1
    jobs = [(c, bound) for c in ctx.rotate(sched_cases(ctx.quick))]
    roots = ctx.pmap(_sched_root, jobs)
    sub = []
    maxpts = 0
    for (c, b), (part, kids, npts) in zip(jobs, roots):
        ctx.merge(part)
        maxpts = max(maxpts, npts)
        k = max(1, min(len(kids), 4))
        sub += [(c, b, kids[i::k]) for i in range(k) if kids[i::k]]
    for part in ctx.pmap(_sched_sub, sub):
        ctx.merge(part)
    nexec = ctx.counters.get('sched_executions', 0)
    ctx.cov.setdefault('harnesses', {})['c17-sched'] = {'configs': len(jobs), 'preemption_bound': bound, 'executions': nexec,
                                                         'max_choice_points': maxpts, 'complete': True}
    return nexec


def cases(quick):
    out = []
    for n in ((3,) if quick else (3, 4)):
        addrs = ['10.0.0.%d' % (i + 1) for i in range(n)]
        for plan in itertools.permutations(addrs):
            for svec in itertools.product(STATES, repeat=n):
                out.append((n, plan, svec, None))
        for svec in itertools.product(STATES, repeat=n):
            for t in addrs[:2]:
                out.append((n, tuple(addrs), svec, t))
    if quick:
        # one 4-host family: identity plan and its reverse
        addrs = ['10.0.0.%d' % (i + 1) for i in range(4)]
        for plan in (tuple(addrs), tuple(reversed(addrs))):
            for svec in itertools.product(['missing', 'busy', 'retry_next', 'healthy'], repeat=4):
                out.append((4, plan, svec, None))
    # every case again from the state a connection is in after ~300 requests: the next stream id handed out is 0
    out += [c + (True,) for c in out]
    return out


def run(ctx):
    for name, params, depth in spec_configs(ctx.quick):
        explore.bfs(ctx, HSpec, params, max_depth=depth, label='c17-' + name, max_states=400000 if ctx.thorough else 60000)
    bfs_states = ctx.counters.get('states', 0)
    nexec = run_sched(ctx)
    cs = ctx.rotate(cases(ctx.quick))
    n = ctx.nproc * 4
    for part in ctx.pmap(run_chunk, [cs[i::n] for i in range(n) if cs[i::n]]):
        ctx.merge(part)
    ctx.count('states', ctx.counters.get('evaluations', 0) + nexec)
    ctx.count('transitions', ctx.counters.get('evaluations', 0) + ctx.counters.get('sched_steps', 0))
    ctx.count('executions', nexec)
    ctx.cov['rule'] = ('plans x per-host states x targeting enumerated completely (evaluations); speculative layer: BFS states = event histories '
                       'replayed on a fresh Session (%d states), non-trivial = distinct (pool states, frames, outcome) with >= 3 frames; schedule '
                       'layer: every schedule of the reactor and executor threads with <= 1 preemption (sched_executions), non-trivial = '
                       'schedule with at least one non-default choice; single-threaded cases: non-trivial = at least two different host '
                       'states' % bfs_states)
    ctx.cov['exhaustive'] = True
    ctx.assume('plans in which a connection closed under its pool is used, a later attempt is answered and a host with a missing or shut-down '
               'pool follows are not judged (the driver re-creates such pools once the closed host was marked down); counted as skipped_pool_renewal')
    ctx.assume('speculative layer: the client timeout does not fire (timers are fired only while speculative executions remain)')
    ctx.assume('schedule layer: one reactor thread and one executor worker; connection and pool code runs atomically between its lock operations')


def replay(ctx, data):
    if data.get('sched'):
        part = Part()
        sched_harness(data['params'], data['prefix'], part)
    elif 'history' in data:
        part = explore.replay(HSpec, data['params'], [tuple(e) for e in data['history']])
    else:
        part = run_chunk([(data['n'], tuple(data['plan']), tuple(data['states']), data['target'], data.get('id0', False))])
    for fp, what, _ in part.violations:
        print(fp, '::', what)
    return bool(part.violations)
