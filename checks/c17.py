"""C17 Hosts are tried in query-plan order and exhaustion is reported.

Every plan (permutation of up to 4 hosts, or one targeted host) x every per-host pool state is
built on a real Session; the hosts that received frames and the error map of the final outcome
are compared with a reference walk of the plan.
"""
import itertools

from vt import reqworld
from vt.core import Part

META = {
    'level': 'model_checking',
    'engine': 'E',
    'technique': 'exhaustive enumeration of plans x per-host pool states on the real Session/ResponseFuture vs a reference walk of the plan',
    'text': 'All permutations of 3 (quick) / 4 (thorough) hosts as query plan, and explicit host targeting, crossed with every '
            'assignment of a pool state to each host from {no pool, pool shut down, connection busy (write buffer full), all stream '
            'ids in use, connection closed under the pool, healthy-then-retry-next-host, healthy}: frames must reach exactly the '
            'hosts the reference walk visits, in order, none twice; NoHostAvailable only when the plan is exhausted, with '
            'exactly the visited hosts as keys and the documented reason class per host.  Every case is run twice: on fresh '
            'connections and from the state in which the next stream id a connection hands out is 0.',
    'note': 'Pool states are established through the pool/connection API after a normal connect (remove_pool, shutdown, '
            '_socket_writable=False as reactors do under back-pressure, in_flight saturated, connection.close()).',
    'design_ref': 'C17',
}

STATES = ['missing', 'shutdown', 'busy', 'full', 'closed', 'retry_next', 'healthy']
REASON = {'missing': 'ConnectionException', 'shutdown': 'ConnectionException', 'busy': 'ConnectionBusy',
          'full': 'NoConnectionsAvailable', 'closed': 'ConnectionShutdown', 'retry_next': 'OverloadedErrorMessage'}


def reference(plan, states):
    frames, errors = [], {}
    for h in plan:
        s = states[h]
        if s == 'healthy':
            frames.append(h)
            return frames, errors, 'rows'
        if s == 'retry_next':
            frames.append(h)
        errors[h] = REASON[s]
    return frames, errors, 'NoHostAvailable'


def play(n, plan, states, target, id0=False):
    addrs = ['10.0.0.%d' % (i + 1) for i in range(n)]
    st = reqworld.ReqWorld(dict(hosts=n, order=list(plan), timeout=100.0, id0=id0))
    try:
        by = dict((h.endpoint.address, h) for h in st.cluster.metadata.all_hosts())
        for a in addrs:
            s = states[a]
            pool = st.session._pools.get(by[a])
            if s == 'missing':
                st.session.remove_pool(by[a])
            elif s == 'shutdown':
                pool.shutdown()
            elif s == 'busy':
                pool._connection._socket_writable = False
            elif s == 'full':
                c = pool._connection
                with c.lock:
                    c.in_flight = c.max_request_id
            elif s == 'closed':
                pool._connection.close()
        while st.w.tasks:
            st.w.run_task(0)
            st.w.deliver_outbox()
        st.retry.next = ('RETRY_NEXT_HOST', None)
        kw = {'host': by[target]} if target else {}
        f = st.execute('x', **kw)
        guard = 0
        while not f._event.is_set() and guard < 20:
            guard += 1
            pend = [p for p in st.pending() if p.req.get('query') == 'SELECT x']
            if pend:
                a = pend[0].conn.endpoint.address
                st.respond(st.pending().index(pend[0]), 'overloaded' if states[a] == 'retry_next' else 'rows')
            while st.w.tasks:
                st.w.run_task(0)
                st.w.deliver_outbox()
            if not pend and not st.w.tasks:
                break
        frames = [a for a, r in st.sent_app_requests() if r.get('query') == 'SELECT x']
        if not f._event.is_set():
            out, errors = 'open', {}
        elif f._final_exception is not None:
            e = f._final_exception
            out = type(e).__name__
            errors = dict((k.endpoint.address if hasattr(k, 'endpoint') else str(k), type(v).__name__)
                          for k, v in getattr(e, 'errors', {}).items())
        else:
            out, errors = 'rows', None
        return frames, errors, out
    finally:
        st.close()


def run_chunk(cases):
    part = Part()
    for case_ in cases:
        n, plan, svec, target = case_[:4]
        id0 = bool(case_[4]) if len(case_) > 4 else False
        addrs = ['10.0.0.%d' % (i + 1) for i in range(n)]
        states = dict(zip(addrs, svec))
        eff_plan = [target] if target else list(plan)
        ref = reference(eff_plan, states)
        part.count('evaluations')
        got = play(n, plan, states, target, id0)
        case = {'n': n, 'plan': list(plan), 'states': list(svec), 'target': target, 'id0': id0}
        part.outcome((got[2], len(got[0])))
        if len(set(svec)) > 1:
            part.mark_nontrivial(repr((plan, svec, target, id0)))
        part.sample(dict(case, frames=got[0], outcome=got[2], errors=got[1]), limit=2)
        if got[0] != ref[0]:
            kind = 'twice' if len(set(got[0])) != len(got[0]) else 'order'
            part.violation('C17/hosts-tried/%s' % kind, 'frames reached %r, reference %r for %r' % (got[0], ref[0], case), case)
        if got[2] != ref[2]:
            part.violation('C17/outcome/%s' % ref[2], 'outcome %r, reference %r for %r' % (got[2], ref[2], case), case)
        elif ref[2] == 'NoHostAvailable' and got[1] != ref[1]:
            missing = sorted(set(ref[1]) - set(got[1]))
            extra = sorted(set(got[1]) - set(ref[1]))
            kind = 'keys' if (missing or extra) else 'reason'
            part.violation('C17/errors/%s' % kind, 'NoHostAvailable.errors %r, reference %r for %r' % (got[1], ref[1], case), case)
    return part


def cases(quick):
    out = []
    for n in ((3,) if quick else (3, 4)):
        addrs = ['10.0.0.%d' % (i + 1) for i in range(n)]
        for plan in itertools.permutations(addrs):
            for svec in itertools.product(STATES, repeat=n):
                out.append((n, plan, svec, None))
        for svec in itertools.product(STATES, repeat=n):
            for t in addrs[:2]:
                out.append((n, tuple(addrs), svec, t))
    if quick:
        # one 4-host family: identity plan and its reverse
        addrs = ['10.0.0.%d' % (i + 1) for i in range(4)]
        for plan in (tuple(addrs), tuple(reversed(addrs))):
            for svec in itertools.product(['missing', 'busy', 'retry_next', 'healthy'], repeat=4):
                out.append((4, plan, svec, None))
    # every case again from the state a connection is in after ~300 requests: the next stream id handed out is 0
    out += [c + (True,) for c in out]
    return out


def run(ctx):
    cs = ctx.rotate(cases(ctx.quick))
    n = ctx.nproc * 4
    for part in ctx.pmap(run_chunk, [cs[i::n] for i in range(n) if cs[i::n]]):
        ctx.merge(part)
    ctx.count('states', len(cs))
    ctx.count('transitions', ctx.counters.get('evaluations', 0))
    ctx.cov['rule'] = 'plans x per-host states x targeting enumerated completely; non-trivial = at least two different host states'
    ctx.cov['exhaustive'] = True


def replay(ctx, data):
    part = run_chunk([(data['n'], tuple(data['plan']), tuple(data['states']), data['target'], data.get('id0', False))])
    for fp, what, _ in part.violations:
        print(fp, '::', what)
    return bool(part.violations)
