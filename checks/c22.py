"""C22 Token-aware plans put live local replicas first without losing hosts.

Engine N: real `TokenAwarePolicy(child)` objects over a real `Metadata`/token map (the rings,
layouts and replication settings of C26, <=4/5 hosts; the cluster's partitioner is Murmur3Partitioner,
RandomPartitioner or ByteOrderedPartitioner, the routing keys cover both halves of each raw hash
range and the expected replicas come from the reference token of `vt.spec.partitioners`), crossed with host up/down states, the
child policy (RoundRobinPolicy, DCAwareRoundRobinPolicy in several configurations, a scripted
policy with every distance map and several fixed plans), one routing key per token range, the
shuffle flag (`cassandra.policies.shuffle` rebound: every permutation is applied in turn) and where
the keyspace comes from.  The plan is compared with the one the statement of C22 prescribes,
computed from the independent placement reference and the wrapped policy's own (recorded) plan.
"""
import itertools

from vt.core import Part, HarnessError
from vt.spec import placement as PL
from vt.spec import partitioners as P
from checks import c26

META = {
    'level': 'exploration',
    'engine': 'N',
    'technique': 'exhaustive enumeration of rings x partitioners x host states x child policies x keys x shuffle permutations vs plan prescribed by the statement',
    'text': 'Rings (all token assignments of <=3 hosts x <=2 tokens, 4 hosts x 1 token; thorough adds 5 hosts x 1 token and single-DC 4 hosts x <=2 tokens; '
            'scripted child: <=3 hosts x 1 token, thorough adds 4 hosts x 1 token and single-DC 3 hosts x <=2 tokens) x all '
            'DC/rack layouts (<=2 DCs x <=3 racks) x SimpleStrategy rf 1-3 and NetworkTopologyStrategy settings x host states (every up/down-announced combination, plus each '
            'single host down but not yet announced to the child) x child policy (RoundRobin, DCAwareRoundRobin local_dc x used_hosts_per_remote_dc, '
            'scripted child with every LOCAL/REMOTE/IGNORED map x 3 fixed plans) x one routing key per token range x shuffle_replicas off / on with '
            'every permutation x keyspace taken from the statement, the session, both (statement wins), or absent; plus lazy-consumption '
            'histories: the plan generator is advanced by every cut 0..n, then one host goes down (before or after the child is told) or comes '
            'up, then the rest is consumed (no host twice, nothing of the wrapped plan left out); plus replication-change histories on every '
            'ring x layout of the real-children family: a keyspace is created and then altered / dropped / re-created through Metadata.refresh '
            '(targeted KEYSPACE refresh with protocol v4 and v2, full schema refresh; the schema parser is a stub of the server\'s schema rows), '
            'one step = every ordered pair of {SimpleStrategy rf 1,3,2, NetworkTopologyStrategy 1/0, 2/1, 0/2} or a drop, through every entry '
            'point; two steps (quick: rings of <=4 tokens) over the first four settings through targeted and full refresh; plans for one key per '
            'token range (children RoundRobin and DCAwareRoundRobin(dc0, 1), all hosts up) are requested after every subset of the intermediate '
            'steps and always at the end, and for a bystander keyspace (RoundRobin child) at the end; the oracle uses the replication settings in force at that '
            'point (a dropped keyspace owes the wrapped plan unchanged); plus the partitioner family on every ring x layout of the real-children '
            'family: the token map is built for Murmur3Partitioner, RandomPartitioner and ByteOrderedPartitioner with ring tokens spread over the '
            'whole token range (both signs of murmur3 tokens, first key bytes below and from 0x80 for byte-ordered tokens), routing keys = for each of the n+1 '
            'token ranges (before the first token, between neighbours, beyond the last token = wrap-around) one key of each half of the raw hash range '
            'that occurs there (md5 digest with the top bit clear / set, murmur3 hash >= 0 / < 0, first key byte < / >= 0x80) plus the key sitting '
            'exactly on each ring token, x all replication settings x children RoundRobin and DCAwareRoundRobin(dc0) x all hosts up / each single host '
            'down (announced or not yet), unshuffled; the replicas owed first are computed from the reference partitioner\'s token of the key '
            '(vt.spec.partitioners), never from the driver\'s token.  Oracle: plan == [replicas of the '
            'key (independent placement reference) that are up and LOCAL for the child, in ring (or permuted) order] ++ [the child\'s recorded plan '
            'minus those], nothing repeated, nothing of the child\'s plan missing.',
    'note': 'Distances and the wrapped plan are inputs of the property and are read from the child (recording proxy). Ring order of '
            'NetworkTopologyStrategy replicas is taken from the metadata\'s answer (Cassandra versions differ in the order of rack-skipped '
            'endpoints); its set is compared with the reference. randint of the child policies is fixed.',
    'design_ref': 'C22',
}

LOCAL, REMOTE, IGNORED = 0, 1, -1
DNAME = {0: 'local', 1: 'remote', -1: 'ignored'}


# ------------------------------------------------------------------------------------ children
def make_policies():
    import cassandra.policies as pol

    class Scripted(pol.LoadBalancingPolicy):
        """fixed plan, fixed distances"""
        def __init__(self, plan, dist):
            pol.LoadBalancingPolicy.__init__(self)
            self.plan, self.dist = list(plan), dict(dist)

        def populate(self, cluster, hosts):
            pass

        def distance(self, host):
            return self.dist[host]

        def make_query_plan(self, working_keyspace=None, query=None):
            return iter(list(self.plan))

        def on_up(self, host):
            pass
        on_down = on_add = on_remove = on_up

    class Recorder(pol.LoadBalancingPolicy):
        """transparent proxy that remembers the plan the wrapped policy produced"""
        def __init__(self, inner):
            pol.LoadBalancingPolicy.__init__(self)
            self.inner = inner
            self.plans = []

        def populate(self, cluster, hosts):
            return self.inner.populate(cluster, hosts)

        def distance(self, host):
            return self.inner.distance(host)

        def make_query_plan(self, working_keyspace=None, query=None):
            plan = list(self.inner.make_query_plan(working_keyspace, query))
            self.plans.append(plan)
            return iter(plan)

        def on_up(self, host):
            return self.inner.on_up(host)

        def on_down(self, host):
            return self.inner.on_down(host)

        def on_add(self, host):
            return self.inner.on_add(host)

        def on_remove(self, host):
            return self.inner.on_remove(host)

    return Scripted, Recorder


class FakeCluster(object):
    def __init__(self, metadata):
        self.metadata = metadata
        self.endpoints_resolved = []


def child_configs(ndcs):
    cfgs = [('rr',)]
    for local in range(ndcs):
        for used in ((0, 1) if ndcs > 1 else (0,)):
            cfgs.append(('dca', 'dc%d' % local, used))
    return cfgs


def host_states(n, with_unannounced=True):
    """tuples over {'up', 'down', 'down-unannounced'}: every up/down combination with the child told about it;
    plus each single host down while the child has not (yet) been told"""
    out = [tuple('up' if b else 'down' for b in bits) for bits in itertools.product((1, 0), repeat=n)]
    if with_unannounced:
        for i in range(n):
            out.append(tuple('down-unannounced' if j == i else 'up' for j in range(n)))
    return out


def settings_for(per_dc):
    out = [('simple', {'replication_factor': s}) for s in ('1', '2', '3')]
    n0, n1 = per_dc
    for a in range(1, min(4, n0 + 1) + 1):
        for b in ((0,) if n1 == 0 else range(0, min(2, n1) + 1)):
            out.append(('nts', {'dc0': str(a), 'dc1': str(b)}))
    if n1:
        out.append(('nts', {'dc0': '0', 'dc1': '2'}))
    return out


# ------------------------------------------------------------------------------------ partitioners
PARTITIONER_FAMILIES = ('murmur3', 'md5', 'bytes')
_pool_cache = {}


def key_pool(tclass):
    """candidate routing keys sorted by their *reference* token (vt.spec.partitioners), with the half of the raw hash
    range each falls in.  ByteOrderedPartitioner tokens are the keys themselves: first bytes on both sides of 0x80."""
    if tclass not in _pool_cache:
        if tclass == 'bytes':
            raw = [bytes([b]) + b'-%d' % i for b in (0x00, 0x21, 0x6b, 0x7f, 0x80, 0xa5, 0xff) for i in range(24)]
        else:
            raw = [b'key-%d' % i for i in range(160)]
        fn = {'murmur3': P.murmur3_token, 'md5': P.md5_token, 'bytes': P.bytes_token}[tclass]
        srt = sorted((fn(k), k) for k in raw)
        if len(set(t for t, _ in srt)) != len(srt):
            raise HarnessError('token collision among the candidate keys')
        _pool_cache[tclass] = [(t, k, P.hash_half(tclass, k)) for t, k in srt]
    return _pool_cache[tclass]


def ring_and_keys(tclass, n):
    """-> (n ring tokens spread evenly over the sorted candidate pool, so that the ring spans both halves of the token range;
    routing keys [(reference token, key, kind)]: for each of the n+1 ranges (before the first token, between neighbours,
    after the last token = wrap-around) the first candidate of each hash half, and the candidate sitting exactly on each
    ring token)"""
    pool = key_pool(tclass)
    m = len(pool)
    pos = [(2 * j + 1) * m // (2 * n) for j in range(n)]
    ring_tokens = [pool[i][0] for i in pos]
    keys = []
    bounds = [-1] + pos + [m]
    for r in range(n + 1):
        seen = set()
        for i in range(bounds[r] + 1, bounds[r + 1]):
            t, k, half = pool[i]
            if half not in seen:
                seen.add(half)
                keys.append((t, k, 'range%d/half%d' % (r, half)))
        if r < n:
            t, k, half = pool[pos[r]]
            keys.append((t, k, 'on-token%d/half%d' % (r, half)))
    halves = set(kind.rsplit('/', 1)[1] for _, _, kind in keys)
    if halves != {'half0', 'half1'}:
        raise HarnessError('routing keys of %s cover only %r' % (tclass, halves))
    if tclass != 'md5' and len(set(P.hash_half(tclass, pool[i][1]) for i in pos)) != 2 and n > 1:
        raise HarnessError('ring tokens of %s lie in one half of the token range' % tclass)
    return ring_tokens, keys


class PWorld(object):
    """c26.World for any partitioner with the ring and routing keys of ring_and_keys(): real Metadata + token map"""
    def __init__(self, seq, locs, tclass, settings):
        from cassandra.metadata import Metadata, KeyspaceMetadata
        from cassandra.pool import Host
        from cassandra.policies import SimpleConvictionPolicy
        n = len(seq)
        ring_tokens, self.routing_keys = ring_and_keys(tclass, n)
        self.tclass = tclass
        self.nhosts = max(seq) + 1
        self.names = ['h%d' % i for i in range(self.nhosts)]
        self.hosts = [Host('10.0.0.%d' % (i + 1), SimpleConvictionPolicy, locs[i][0], locs[i][1]) for i in range(self.nhosts)]
        self.name_of = dict((h, nm) for h, nm in zip(self.hosts, self.names))
        self.ring = [(ring_tokens[i], self.names[seq[i]]) for i in range(n)]      # reference view
        self.locs = dict((self.names[i], locs[i]) for i in range(self.nhosts))
        tm = {}
        for i in range(n):
            tm.setdefault(self.hosts[seq[i]], []).append(c26.token_string(tclass, ring_tokens[i]))
        self.metadata = Metadata()
        for h in self.hosts:
            self.metadata.add_or_return_host(h)
        self.metadata.rebuild_token_map(c26.PARTITIONERS[tclass], tm)
        self.ksnames = []
        for i, (kind, opts) in enumerate(settings):
            name = 'ks%d' % i
            self.metadata.keyspaces[name] = KeyspaceMetadata(name, True, c26.SIMPLE if kind == 'simple' else c26.NTS, dict(opts))
            self.ksnames.append(name)


# ------------------------------------------------------------------------------------ oracle
def prescribed(order, replicas, up, dist, child_plan):
    """the plan the statement prescribes.  order: the replicas as listed (ring order or permuted, may
    hold repeats when the metadata is wrong); replicas: reference replica set"""
    first = []
    for h in order:
        if h in replicas and h not in first and up[h] and dist[h] == LOCAL:
            first.append(h)
    for h in sorted(replicas):       # replicas the metadata does not list at all (metadata defect): still owed
        if h not in order and h not in first and up[h] and dist[h] == LOCAL:
            first.append(h)
    rest = []
    for h in child_plan:
        if h not in first and h not in rest:
            rest.append(h)
    return first, rest


def judge(part, got, first, rest, replicas, up, dist, tag, suffix, case):
    """compare an observed plan with the prescribed one; returns True if it is right.
    tag: '' or '/only-with-<mode>' (set when the plain run of the same point was right, i.e. the failure is specific to the mode)"""
    if got == first + rest:
        return True
    if callable(case):
        case = case()
    seen = set()
    for h in got:
        if h in seen:
            part.violation('C22/repeat/%s%s%s' % ('replica' if h in replicas else 'non-replica', suffix, tag),
                           'host %s is yielded twice: plan %r, prescribed %r + %r, case %r' % (h, got, first, rest, case), case)
            break
        seen.add(h)
    lost = [h for h in first + rest if h not in got]
    for h in lost:
        where = 'replica-owed-first' if h in first else ('replica' if h in replicas else 'non-replica')
        part.violation('C22/lost/%s-%s-%s%s%s' % (where, DNAME[dist[h]], 'up' if up[h] else 'down', suffix, tag),
                       'host %s of the %s is left out: plan %r, prescribed %r + %r, case %r' % (
                           h, 'replicas' if h in first else "wrapped policy's plan", got, first, rest, case), case)
    extra = [h for h in got if h not in first and h not in rest]
    if extra:
        part.violation('C22/extra%s%s' % (suffix, tag), 'hosts %r are in no prescribed part: plan %r, prescribed %r + %r, case %r' % (
            extra, got, first, rest, case), case)
    if not lost and not extra and len(seen) == len(got):
        # same hosts, wrong order: which part?
        head = got[:len(first)]
        if set(head) != set(first):
            bad = [h for h in head if h not in first]
            h = bad[0]
            part.violation('C22/order/non-first-host-before-replica/%s-%s%s%s' % (DNAME[dist[h]], 'up' if up[h] else 'down', suffix, tag),
                           'up+local replicas are not first: plan %r, prescribed %r + %r, case %r' % (got, first, rest, case), case)
        elif head != first:
            part.violation('C22/order/replicas%s%s' % (suffix, tag), 'replica order: plan %r, prescribed %r + %r, case %r' % (got, first, rest, case), case)
        else:
            part.violation('C22/order/rest%s%s' % (suffix, tag), 'order of the wrapped plan not kept: plan %r, prescribed %r + %r, case %r' % (
                got, first, rest, case), case)
    return False


# ------------------------------------------------------------------------------------ exploration
class Case(object):
    """one world (ring + layout) with its keyspaces, evaluated for many policy/state/key combinations"""
    def __init__(self, seq, locs, settings, tclass=None):
        """tclass None: the Murmur3Partitioner ring of C26 (its lowest tokens) with one key strictly inside each range;
        a partitioner name: the ring and routing keys of ring_and_keys()"""
        import cassandra.metadata as md
        self.seq, self.locs_t, self.settings = seq, locs, settings
        self.tclass = tclass
        self.w = c26.World(seq, locs, 'murmur3', settings) if tclass is None else PWorld(seq, locs, tclass, settings)
        w = self.w
        # a second keyspace with different replication, to tell a keyspace mix-up apart
        w.metadata.keyspaces['other'] = md.KeyspaceMetadata('other', True, c26.SIMPLE, {'replication_factor': '1'})
        n = len(seq)
        if tclass is None:
            self.keys = [w.query_keys[2 * i] for i in range(n)]      # one key inside each token range (first one: before the first token)
            self.key_kinds = None
        else:
            self.keys = [(t, k) for t, k, _ in w.routing_keys]
            self.key_kinds = [kind for _, _, kind in w.routing_keys]
        self.plain_ok = {}
        self.ref = {}        # (setting index | 'other', key index) -> reference replicas (ordered)
        self.meta = {}       # same -> the metadata's own list object (cached by the token map)
        for ki, (tok, key) in enumerate(self.keys):
            for si, (kind, opts) in enumerate(settings):
                allr, _, _ = c26.reference(kind, opts, w.ring, w.locs, tok)
                self.ref[(si, ki)] = allr
                self.meta[(si, ki)] = w.metadata.get_replicas(w.ksnames[si], key)
            self.ref[('other', ki)] = PL.simple_strategy(w.ring, '1', tok)[0]
            self.meta[('other', ki)] = w.metadata.get_replicas('other', key)


def run_world(part, seq, locs, family, only=None):
    """only = (child cfg, state, setting index, key index, shuffle flag) restricts the run to one point (replay); None for the
    last three: every point of that (child, state) block, in the order of the full run (the wrapped RoundRobin policies
    rotate their start position from plan to plan, so the wrapped plan of a point depends on the points before it)"""
    import cassandra.policies as pol
    from cassandra.query import SimpleStatement
    Scripted, Recorder = make_policies()
    per_dc = (sum(1 for d, _ in locs if d == 'dc0'), sum(1 for d, _ in locs if d == 'dc1'))
    settings = settings_for(per_dc)
    base_family, _, tclass = family.partition('/')      # 'real/<partitioner>': the partitioner family
    c = Case(seq, locs, settings, tclass or None)
    w = c.w
    nh = w.nhosts
    names = w.names
    hosts = w.hosts
    name_of = w.name_of
    cluster = FakeCluster(w.metadata)
    ndcs = 2 if per_dc[1] else 1
    perm_cell = [None]

    def scripted_shuffle(lst):
        p = perm_cell[0]
        if p is None or len(p) != len(lst):
            raise HarnessError('shuffle called with a list of %d, permutation %r' % (len(lst), p))
        lst[:] = [lst[i] for i in p]
    orig_shuffle, orig_randint = pol.shuffle, pol.randint
    pol.shuffle = scripted_shuffle
    pol.randint = lambda a, b: a if b <= a else a + 1
    try:
        if tclass:
            # the partitioner decides only which hosts are the replicas: children, host states and shuffling are reduced
            children = [('rr',), ('dca', 'dc0', 1 if ndcs > 1 else 0)]
            states = [s_ for s_ in host_states(nh) if sum(1 for x in s_ if x != 'up') <= 1]
        elif family == 'real':
            children = child_configs(ndcs)
            states = host_states(nh)
        else:
            children = []
            for dmap in itertools.product((LOCAL, REMOTE, IGNORED), repeat=nh):
                for plan_kind in ('all', 'reversed', 'not-ignored'):
                    children.append(('scripted', dmap, plan_kind))
            states = host_states(nh, with_unannounced=False)
        by_dc = sorted(range(nh), key=lambda i: locs[i][0])
        for cfg in children:
            for state in states:
                if only is not None and (_listify(cfg), list(state)) != (_listify(only[0]), list(only[1])):
                    continue
                up = dict((names[i], state[i] == 'up') for i in range(nh))
                for i in range(nh):
                    hosts[i].is_up = (state[i] == 'up')
                # ---- build the policy
                if cfg[0] == 'rr':
                    inner = pol.RoundRobinPolicy()
                elif cfg[0] == 'dca':
                    inner = pol.DCAwareRoundRobinPolicy(local_dc=cfg[1], used_hosts_per_remote_dc=cfg[2])
                else:
                    dmap, plan_kind = cfg[1], cfg[2]
                    idx = list(range(nh))
                    if plan_kind == 'reversed':
                        idx.reverse()
                    elif plan_kind == 'not-ignored':
                        idx = [i for i in idx if dmap[i] != IGNORED]
                    inner = Scripted([hosts[i] for i in idx], dict((hosts[i], dmap[i]) for i in range(nh)))
                rec = Recorder(inner)
                for shuffle_flag in ((False,) if tclass else (False, True)):
                    if only is not None and only[4] is not None and shuffle_flag != only[4]:
                        continue
                    tap = pol.TokenAwarePolicy(rec, shuffle_replicas=shuffle_flag)
                    tap.populate(cluster, [hosts[i] for i in by_dc])
                    for i in range(nh):
                        if state[i] == 'down':
                            tap.on_down(hosts[i])
                    dist = dict((names[i], tap.distance(hosts[i])) for i in range(nh))
                    if any(d not in (LOCAL, REMOTE, IGNORED) for d in dist.values()):
                        raise HarnessError('unexpected distance %r' % (dist,))
                    for si in range(len(settings)):
                        for ki, (tok, key) in enumerate(c.keys):
                            if only is not None and only[2] is not None and (si, ki) != (only[2], only[3]):
                                continue
                            eval_point(part, c, tap, rec, cfg, state, up, dist, si, ki, key, shuffle_flag, perm_cell,
                                       SimpleStatement, name_of, family)
                # ---- the plan is a generator the request path consumes lazily: host state may change half way
                if family == 'real' and not tclass and only is None and sum(1 for x in state if x != 'up') <= 1 and 'down-unannounced' not in state:
                    lazy_histories(part, c, pol, cluster, cfg, state, by_dc, SimpleStatement, Recorder, family)
        part.count('worlds')
        if tclass:
            part.count('partitioner_worlds')
    finally:
        pol.shuffle, pol.randint = orig_shuffle, orig_randint


def lazy_build(pol, cluster, cfg, state, c, by_dc, Recorder):
    hosts = c.w.hosts
    nh = c.w.nhosts
    for i in range(nh):
        hosts[i].is_up = (state[i] == 'up')
    inner = pol.RoundRobinPolicy() if cfg[0] == 'rr' else pol.DCAwareRoundRobinPolicy(local_dc=cfg[1], used_hosts_per_remote_dc=cfg[2])
    rec = Recorder(inner)
    tap = pol.TokenAwarePolicy(rec, shuffle_replicas=False)
    tap.populate(cluster, [hosts[i] for i in by_dc])
    for i in range(nh):
        if state[i] == 'down':
            tap.on_down(hosts[i])
    return tap, rec


def lazy_one(part, c, pol, cluster, cfg, state, by_dc, SimpleStatement, Recorder, si, ki, cut, hi, flip, family):
    """consume `cut` hosts of the plan, change host hi's state, consume the rest.  Returns the violation count added."""
    w = c.w
    hosts, name_of = w.hosts, w.name_of
    tap, rec = lazy_build(pol, cluster, cfg, state, c, by_dc, Recorder)
    key = c.keys[ki][1]
    q = SimpleStatement('select 1', routing_key=key, keyspace=w.ksnames[si])
    gen = tap.make_query_plan(None, q)
    got = []
    try:
        for _ in range(cut):
            got.append(name_of[next(gen)])
    except StopIteration:
        return None                      # the plan is shorter than the cut: nothing to do
    h = hosts[hi]
    if flip == 'down-silent':            # Cluster.on_down: Host.set_down() happens before the policies are told
        h.is_up = False
    elif flip == 'down-announced':
        h.is_up = False
        tap.on_down(h)
    elif flip == 'up-announced':         # Cluster.on_up: set_up() and policy.on_up()
        h.is_up = True
        tap.on_up(h)
    got += [name_of[x] for x in gen]
    part.count('evaluations')
    part.count('lazy_histories')
    child_plans = [[name_of[x] for x in pl] for pl in rec.plans]
    case = {'lazy': True, 'seq': list(c.seq), 'locs': [list(x) for x in c.locs_t], 'family': family, 'child': _listify(cfg), 'state': list(state),
            'setting_index': si, 'setting': list(c.settings[si]), 'key_index': ki, 'cut': cut, 'host': hi, 'flip': flip}
    n0 = len(part.violations)
    if len(set(got)) != len(got):
        rep = [x for x in got if got.count(x) > 1][0]
        part.violation('C22/lazy/repeat/%s' % flip, 'host %s is yielded twice when host %s goes %s after %d hosts were taken: plan %r, wrapped plan %r, case %r'
                       % (rep, w.names[hi], flip, cut, got, child_plans, case), case)
    for pl in child_plans:
        lost = [x for x in pl if x not in got]
        if lost:
            part.violation('C22/lazy/lost/%s' % flip, 'host %s of the wrapped plan is left out when host %s goes %s after %d hosts were taken: plan %r, '
                           'wrapped plan %r, case %r' % (lost[0], w.names[hi], flip, cut, got, pl, case), case)
    part.outcome(('lazy', flip, len(got)))
    return len(part.violations) - n0


def lazy_histories(part, c, pol, cluster, cfg, state, by_dc, SimpleStatement, Recorder, family):
    nh = c.w.nhosts
    sis = [i for i, (kind, opts) in enumerate(c.settings) if (kind == 'simple' and opts['replication_factor'] in ('2', '3'))][:2]
    sis += [i for i, (kind, opts) in enumerate(c.settings) if kind == 'nts'][:1]
    for si in sis:
        for ki in range(len(c.keys)):
            for cut in range(0, nh + 1):
                for hi in range(nh):
                    flips = ('down-silent', 'down-announced') if state[hi] == 'up' else ('up-announced',)
                    for flip in flips:
                        lazy_one(part, c, pol, cluster, cfg, state, by_dc, SimpleStatement, Recorder, si, ki, cut, hi, flip, family)


# ------------------------------------------------------------------------------------ replication-change histories
class SchemaServer(object):
    """What the server's schema tables say now.  Stands in for the schema parser `Metadata.refresh` asks
    (`cassandra.metadata.get_schema_parser` is rebound to return it): the server is environment, everything
    from `Metadata.refresh` on is the driver's own code."""
    def __init__(self):
        self.rows = {}      # keyspace name -> (kind, opts)

    def _meta(self, name):
        import cassandra.metadata as md
        kind, opts = self.rows[name]
        return md.KeyspaceMetadata(name, True, c26.SIMPLE if kind == 'simple' else c26.NTS, dict(opts))

    def get_keyspace(self, keyspaces, keyspace):
        return self._meta(keyspace) if keyspace in self.rows else None

    def get_all_keyspaces(self):
        return [self._meta(name) for name in sorted(self.rows)]

    def get_types_map(self, keyspaces, keyspace):
        return {}


class SchemaConn(object):
    def __init__(self, endpoint, protocol_version):
        self.endpoint, self.protocol_version = endpoint, protocol_version


ENTRIES = ('targeted', 'targeted-v2', 'full')


def change_settings(per_dc):
    """the settings a keyspace is altered between: SimpleStrategy rf 1-3 and NetworkTopologyStrategy settings"""
    n0, n1 = per_dc
    out = [('simple', {'replication_factor': r}) for r in ('1', '3', '2')]
    out.append(('nts', {'dc0': '1', 'dc1': '0'}))
    out.append(('nts', {'dc0': '2', 'dc1': '1' if n1 else '0'}))
    if n1:
        out.append(('nts', {'dc0': '0', 'dc1': '2'}))
    return out


def change_histories_of(per_dc, deep):
    """[(initial setting index, steps, mask)]: steps are ('alter'|'create', setting index, entry point) and ('drop', entry point);
    mask[i] says whether plans are requested after step i-1 (mask[0]: for the freshly created keyspace); they always are at the end.
    One step: every setting -> every other setting / dropped, through every entry point.  Two steps (deep): the first four
    settings, entry points targeted and full."""
    S = range(len(change_settings(per_dc)))
    out = []

    def steps_from(cur, settings, entries):
        if cur is None:
            return [('create', t, e) for t in settings for e in entries if e != 'targeted-v2']
        return [('alter', t, e) for t in settings if t != cur for e in entries] + [('drop', e) for e in entries if e != 'targeted-v2']

    def after(cur, step):
        return None if step[0] == 'drop' else step[1]

    for s0 in S:
        for st1 in steps_from(s0, S, ENTRIES):
            for m in ((True,), (False,)):
                out.append((s0, (st1,), m))
    if deep:
        S2 = list(S)[:4]
        E2 = ('targeted', 'full')
        for s0 in S2:
            for st1 in steps_from(s0, S2, E2):
                for st2 in steps_from(after(s0, st1), S2, E2):
                    for m in itertools.product((True, False), repeat=2):
                        out.append((s0, (st1, st2), m))
    return out


class HistoryWorld(object):
    """one ring + layout, no keyspace yet; token-aware policies over RoundRobin and (two DCs) DCAwareRoundRobin, all hosts up"""
    def __init__(self, seq, locs, server):
        import cassandra.policies as pol
        Scripted, Recorder = make_policies()
        self.seq, self.locs_t = seq, locs
        self.per_dc = (sum(1 for d, _ in locs if d == 'dc0'), sum(1 for d, _ in locs if d == 'dc1'))
        self.settings = change_settings(self.per_dc)
        w = self.w = c26.World(seq, locs, 'murmur3', [])
        self.keys = [w.query_keys[2 * i] for i in range(len(seq))]
        self.server = server
        self.conns = {'targeted': SchemaConn(w.hosts[0].endpoint, 4), 'targeted-v2': SchemaConn(w.hosts[0].endpoint, 2),
                      'full': SchemaConn(w.hosts[0].endpoint, 4)}
        cluster = self.cluster = FakeCluster(w.metadata)
        by_dc = sorted(range(w.nhosts), key=lambda i: locs[i][0])
        self.populate_order = [w.hosts[i] for i in by_dc]
        self.children = []
        cfgs = [('rr',)] + ([('dca', 'dc0', 1)] if self.per_dc[1] else [])
        for h in w.hosts:
            h.is_up = True
        for cfg in cfgs:
            inner = pol.RoundRobinPolicy() if cfg[0] == 'rr' else pol.DCAwareRoundRobinPolicy(local_dc=cfg[1], used_hosts_per_remote_dc=cfg[2])
            rec = Recorder(inner)
            tap = pol.TokenAwarePolicy(rec, shuffle_replicas=False)
            tap.populate(cluster, [w.hosts[i] for i in by_dc])
            dist = dict((w.names[i], tap.distance(w.hosts[i])) for i in range(w.nhosts))
            self.children.append((cfg, tap, rec, dist))
        self.up = dict((nm, True) for nm in w.names)
        self.refs = {}
        self.serial = 0
        # a bystander keyspace whose replication never changes
        self.server.rows['bystander'] = ('simple', {'replication_factor': '1'})
        self.refresh('targeted', 'CREATED', 'bystander')

    def refresh(self, entry, change, name):
        md_ = self.w.metadata
        if entry == 'full':
            md_.refresh(self.conns[entry], 2.0)
        else:
            md_.refresh(self.conns[entry], 2.0, target_type='KEYSPACE', change_type=change, keyspace=name)

    def ref(self, si, ki):
        if (si, ki) not in self.refs:
            if si == 'bystander':
                self.refs[(si, ki)] = PL.simple_strategy(self.w.ring, '1', self.keys[ki][0])[0]
            else:
                kind, opts = self.settings[si]
                self.refs[(si, ki)] = c26.reference(kind, opts, self.w.ring, self.w.locs, self.keys[ki][0])[0]
        return self.refs[(si, ki)]


def history_one(part, hw, s0, steps, mask):
    """create the keyspace with setting s0, apply the steps through Metadata.refresh, request plans where the mask says and at the end.
    The wrapped policies are populated anew first, so that a history behaves the same when it is replayed alone."""
    from cassandra.query import SimpleStatement
    w = hw.w
    name_of = w.name_of
    hw.serial += 1
    ks = 'hk%d' % hw.serial
    settings = hw.settings

    def case_of(point, ki, cfg):
        return {'history': True, 'seq': list(hw.seq), 'locs': [list(x) for x in hw.locs_t], 'initial': list(settings[s0]),
                'initial_index': s0, 'steps': _listify(steps), 'mask': list(mask), 'observed_after_step': point, 'key_index': ki,
                'child': _listify(cfg)}

    def observe(point, cur, bystander=False):
        which = 'bystander' if bystander else cur
        for ki, (tok, key) in enumerate(hw.keys):
            if which is None:
                ref, replicas, order = [], set(), []
                mnames = [name_of[h] for h in w.metadata.get_replicas(ks, key)]
                meta_wrong = bool(mnames)
            else:
                ref = hw.ref(which, ki)
                replicas = set(ref)
                mnames = [name_of[h] for h in w.metadata.get_replicas('bystander' if bystander else ks, key)]
                meta_wrong = set(mnames) != replicas or len(set(mnames)) != len(mnames)
                order = ref if (bystander or settings[which][0] == 'simple') else mnames
            suffix = '/metadata-replicas-differ' if meta_wrong else ''
            for cfg, tap, rec, dist in (hw.children[:1] if bystander else hw.children):
                del rec.plans[:]
                q = SimpleStatement('select 1', routing_key=key, keyspace='bystander' if bystander else ks)
                got = [name_of[h] for h in tap.make_query_plan(None, q)]
                if len(rec.plans) != 1:
                    raise HarnessError('wrapped policy asked %d times for a plan' % len(rec.plans))
                child_plan = [name_of[h] for h in rec.plans[0]]
                first, rest = prescribed(order, replicas, hw.up, dist, child_plan)
                tag = '/bystander-keyspace' if bystander else ('/after-keyspace-%s' % steps[point - 1][0] if point else '/new-keyspace')
                ok = judge(part, got, first, rest, replicas, hw.up, dist, tag, suffix, lambda: case_of(point, ki, cfg))
                part.count('evaluations')
                part.count('history_plans')
                part.outcome(('history', 'bystander' if bystander else (steps[point - 1][0] if point else 'created'), len(first), len(rest), ok))
                if point and first and rest and which is not None:
                    part.count('nontrivial_plans')

    for cfg, tap, rec, dist in hw.children:
        tap.populate(hw.cluster, hw.populate_order)
    try:
        hw.server.rows[ks] = settings[s0]
        hw.refresh('targeted', 'CREATED', ks)
        cur = s0
        if mask[0]:
            observe(0, cur)
        for i, step in enumerate(steps):
            if step[0] == 'drop':
                del hw.server.rows[ks]
                hw.refresh(step[1], 'DROPPED', ks)
                cur = None
            else:
                hw.server.rows[ks] = settings[step[1]]
                hw.refresh(step[2], 'CREATED' if step[0] == 'create' else 'UPDATED', ks)
                cur = step[1]
            if i + 1 == len(steps) or mask[i + 1]:
                observe(i + 1, cur)
        observe(len(steps), None, bystander=True)
        part.count('histories')
    finally:
        # leave the world without the keyspace (fresh name per history: nothing of it is reused)
        if hw.server.rows.pop(ks, None) is not None:
            hw.refresh('targeted', 'DROPPED', ks)


def change_histories(part, seq, locs, deep, only=None):
    import cassandra.metadata as md
    import cassandra.policies as pol
    orig, orig_randint = md.get_schema_parser, pol.randint
    server = SchemaServer()
    md.get_schema_parser = lambda connection, server_version, dse_version, timeout: server
    pol.randint = lambda a, b: a if b <= a else a + 1
    try:
        hw = HistoryWorld(seq, locs, server)
        if only is not None:
            s0, steps, mask = only
            history_one(part, hw, s0, steps, mask)
            return
        for s0, steps, mask in change_histories_of(hw.per_dc, deep):
            history_one(part, hw, s0, steps, mask)
        part.count('history_worlds')
    finally:
        md.get_schema_parser, pol.randint = orig, orig_randint


def _listify(x):
    return [_listify(y) for y in x] if isinstance(x, (list, tuple)) else x


def got_plain_ok(part, c, si, ki, cfg, state):
    """was the unshuffled run of this point right?  (the shuffle=False pass runs first)"""
    return c.plain_ok.get((si, ki, cfg, state), True)


def eval_point(part, c, tap, rec, cfg, state, up, dist, si, ki, key, shuffle_flag, perm_cell, SimpleStatement, name_of, family):
    w = c.w
    ks = w.ksnames[si]
    kind = c.settings[si][0]
    ref = c.ref[(si, ki)]
    mlist = c.meta[(si, ki)]              # the token map's own list (shuffle permutes it in place)
    morig = list(mlist)
    mnames = [name_of[h] for h in morig]
    meta_wrong = set(mnames) != set(ref) or len(set(mnames)) != len(mnames)
    suffix = '/metadata-replicas-differ' if meta_wrong else ''
    # ring order: SimpleStrategy -> reference walk; NTS -> as the metadata lists them (see META.note)
    base_order = ref if kind == 'simple' else mnames
    replicas = set(ref)

    mutated = []

    def call(query_ks, working_ks, rk, perm):
        perm_cell[0] = perm
        del rec.plans[:]
        q = SimpleStatement('select 1', routing_key=rk, keyspace=query_ks)
        try:
            got = [name_of[h] for h in tap.make_query_plan(working_ks, q)]
        finally:
            if list(mlist) != morig:
                # the policy permuted the token map's own list: every later plan that is owed ring order
                # (a non-shuffling policy of another execution profile, this one after a restart of the
                # shuffle flag) would now be in that leftover order
                mutated.append([name_of[h] for h in mlist])
            mlist[:] = morig
            perm_cell[0] = None
        if len(rec.plans) != 1:
            raise HarnessError('wrapped policy asked %d times for a plan' % len(rec.plans))
        return got, [name_of[h] for h in rec.plans[0]]

    def case_of(mode, perm):
        return {'seq': list(c.seq), 'locs': [list(x) for x in c.locs_t], 'family': family, 'child': _listify(cfg), 'state': list(state),
                'setting_index': si, 'setting': list(c.settings[si]), 'key_index': ki, 'shuffle': shuffle_flag,
                'perm': list(perm) if perm is not None else None, 'mode': mode,
                'partitioner': c.tclass or 'murmur3', 'routing_key': key.hex(), 'reference_token': c26.token_string(c.tclass or 'murmur3', c.keys[ki][0]),
                'key_kind': c.key_kinds[ki] if c.key_kinds else 'inside-range%d' % ki}

    tag = 'shuffle' if shuffle_flag else 'plain'
    plain_ok = True
    if not shuffle_flag:
        perms = [None]
    else:
        perms = list(itertools.permutations(range(len(morig))))
    for perm in perms:
        try:
            got, child_plan = call(ks, None, key, perm)
        except HarnessError:
            raise
        except Exception as e:
            part.violation('C22/raises/%s/%s' % (tag, type(e).__name__), 'make_query_plan raised %r for %r' % (e, case_of('stmt', perm)),
                           case_of('stmt', perm))
            continue
        if mutated:
            part.violation('C22/shuffle/metadata-ring-order-destroyed',
                           'shuffling the replicas permuted the list the token map hands out (now %r, ring order %r): later plans that are owed '
                           'ring order get the leftover order; case %r' % (mutated[-1], mnames, case_of('stmt', perm)), case_of('stmt', perm))
            del mutated[:]
        # a permutation acts on the list the metadata holds (if that list is not in ring order, the plain run reports it)
        order = base_order if perm is None else [mnames[i] for i in perm]
        first, rest = prescribed(order, replicas, up, dist, child_plan)
        ok = judge(part, got, first, rest, replicas, up, dist,
                   '/only-when-shuffling' if (shuffle_flag and got_plain_ok(part, c, si, ki, cfg, state)) else
                   ('/partitioner-%s' % c.tclass if c.tclass else ''), suffix, lambda: case_of('stmt', perm))
        if not shuffle_flag:
            plain_ok = ok
            c.plain_ok[(si, ki, cfg, state)] = ok
        part.count('evaluations')
        if c.tclass:
            kk = c.key_kinds[ki]
            part.count('partitioner_plans')
            part.count('partitioner_plans_%s_%s' % (c.tclass, kk.rsplit('/', 1)[1]))
            part.outcome(('partitioner', c.tclass, kk.rsplit('/', 1)[1], 'on-token' if kk.startswith('on-token') else
                          ('wrap-around' if kk.startswith('range0/') or kk.startswith('range%d/' % len(c.seq)) else 'inside'), ok))
        part.outcome((tag, len(first), len(rest), ok))
        if first and rest and (len(first) < len(replicas)):
            part.count('nontrivial_plans')
        if ok and perm is None and first and rest:
            part.sample({'ring': [[str(t), h] for t, h in w.ring], 'locs': w.locs, 'setting': c.settings[si], 'child': _listify(cfg),
                         'state': list(state), 'replicas': ref, 'child_plan': child_plan, 'plan': got}, limit=1)
    if c.tclass or shuffle_flag or sum(1 for x in state if x != 'up') > 1 or 'down-unannounced' in state:
        return
    # ---- where the keyspace comes from (unshuffled; all hosts up or exactly one announced down)
    oref = c.ref[('other', ki)]
    for mode, qks, wks, rk, use in (('session', None, ks, key, 'ks'), ('both', ks, 'other', key, 'ks'),
                                    ('both-swapped', 'other', ks, key, 'other'), ('absent', None, None, key, None),
                                    ('no-routing-key', ks, None, None, None), ('unknown-keyspace', 'nope', None, key, None)):
        try:
            got, child_plan = call(qks, wks, rk, None)
        except HarnessError:
            raise
        except Exception as e:
            part.violation('C22/raises/keyspace-%s/%s' % (mode, type(e).__name__), 'make_query_plan raised %r for %r' % (e, case_of(mode, None)),
                           case_of(mode, None))
            continue
        part.count('evaluations')
        alts = {'ks': prescribed(base_order, replicas, up, dist, child_plan),
                'other': prescribed(oref, set(oref), up, dist, child_plan),
                'none': prescribed([], set(), up, dist, child_plan)}
        want_key = use or 'none'
        first, rest = alts[want_key]
        if got != first + rest:
            wrong = [k for k in ('ks', 'other', 'none') if k != want_key and alts[k] != alts[want_key] and got == alts[k][0] + alts[k][1]]
            if wrong and not meta_wrong:
                # a well formed plan, but for the wrong source of the keyspace
                part.violation('C22/keyspace/%s/plan-is-for-%s' % (mode, {'ks': 'the-other-keyspace', 'other': 'the-other-keyspace',
                                                                          'none': 'no-keyspace'}[wrong[0]]),
                               'keyspace source %s (statement keyspace %r, session keyspace %r, routing key %s): plan %r, prescribed %r + %r, case %r' % (
                                   mode, qks, wks, 'set' if rk is not None else 'None', got, first, rest, case_of(mode, None)), case_of(mode, None))
            else:
                rs = {'ks': replicas, 'other': set(oref), 'none': set()}[want_key]
                judge(part, got, first, rest, rs, up, dist, '', suffix if want_key == 'ks' else '', lambda: case_of(mode, None))
        part.outcome(('mode', mode, got == child_plan))


def worlds(ctx):
    """(max hosts, max tokens per host, max DCs) families for the real children and for the scripted child"""
    out = []
    real = [(3, 2, 2), (4, 1, 2)]
    scripted = [(3, 1, 2)]
    if ctx.thorough:
        real += [(5, 1, 2), (4, 2, 1)]
        scripted += [(4, 1, 2), (3, 2, 1)]
    for fam, specs in (('real', real), ('scripted', scripted)):
        seen = set()
        for mh, mt, max_dcs in specs:
            for seq in c26.owner_sequences(mh, mt):
                if seq in seen:
                    continue
                seen.add(seq)
                for locs in c26.layouts(max(seq) + 1, max_dcs, 3):
                    out.append((fam, seq, locs))
                    if fam == 'real':
                        for tclass in PARTITIONER_FAMILIES:
                            out.append(('real/' + tclass, seq, locs))
                        # replication-change histories: one step everywhere, two steps on rings of <= 4 tokens (thorough: everywhere)
                        out.append(('history-deep' if (ctx.thorough or len(seq) <= 4) else 'history', seq, locs))
    return real, scripted, out


def run_unit(unit):
    part = Part()
    for fam, seq, locs in unit:
        if fam.startswith('history'):
            change_histories(part, seq, locs, fam == 'history-deep')
        else:
            run_world(part, seq, locs, fam)
    return part


def run(ctx):
    PL.selftest(light=True)
    real, scripted, ws = worlds(ctx)
    ws = ctx.rotate(ws)
    nunits = ctx.nproc * 6
    units = [ws[i::nunits] for i in range(nunits)]
    for part in ctx.pmap(run_unit, [u for u in units if u]):
        ctx.merge(part)
    ctx.cov['distinct_nontrivial'] = ctx.counters.get('nontrivial_plans', 0)
    ctx.cov['rule'] = ('worlds = rings (max hosts, max tokens/host, max DCs) real children %r, scripted child %r x all DC/rack layouts; per world: settings '
                       '(Simple rf 1-3, NTS grid) x child configs x host states x shuffle flag x one key per token range x (all permutations of the '
                       'replica list when shuffling) + 6 keyspace-source modes; every combination is distinct. non-trivial = plan with a non-empty '
                       'replica head, a non-empty tail and at least one replica filtered out of the head (down, REMOTE or IGNORED); for a plan inside a '
                       'replication-change history: requested after at least one change, non-empty head and tail.  history_worlds / histories / '
                       'history_plans count the replication-change layer.  partitioner_worlds = (ring, layout, partitioner in %r) worlds with ring tokens '
                       'spread over the whole token range; partitioner_plans = plans in them: settings x 2 children x (all up + single host down '
                       'announced/unannounced) x routing keys (per token range incl. wrap-around one key per raw-hash half + one key on each ring token); '
                       'partitioner_plans_<name>_half0/half1 = the same per partitioner and half of the raw hash range the routing key falls in; '
                       'outcomes ("partitioner", name, hash half, inside/wrap-around/on-token, ok) show which combinations occurred'
                       % (real, scripted, PARTITIONER_FAMILIES))
    ctx.cov['exhaustive'] = True
    ctx.assume('the wrapped policy\'s plan and its distance() answers are inputs: they are recorded through a transparent proxy, '
               'not predicted')
    ctx.assume('"ring order" for NetworkTopologyStrategy = the order in which Metadata.get_replicas lists the (correct) replicas; for '
               'SimpleStrategy it is the reference ring walk')
    ctx.assume('the token of a routing key is the one Cassandra\'s partitioner computes (reference in vt.spec.partitioners: Murmur3Partitioner, '
               'RandomPartitioner = abs(signed md5), ByteOrderedPartitioner = the key); routing keys are non-empty single-component keys')
    ctx.assume('randint used by RoundRobinPolicy/DCAwareRoundRobinPolicy.populate is fixed (start position 1 if possible)')
    ctx.assume('a statement without keyspace or routing key, or with a keyspace unknown to the metadata, has no known replicas: '
               'the wrapped plan is owed unchanged')
    ctx.assume('replication changes reach the driver as Metadata.refresh calls (what the control connection does for a schema-change event '
               'or a full refresh); the schema parser (the queries against the server\'s schema tables) is replaced by the current rows')
    ctx.assume('host states: is_up True/False (None = unknown is not generated); "down-unannounced" = Host.is_up False while the child '
               'policy has not received on_down (the window inside Cluster.on_down)')


def replay(ctx, data):
    part = Part()
    seq, locs = tuple(data['seq']), tuple(tuple(x) for x in data['locs'])
    if data.get('history'):
        steps = tuple(tuple(x) for x in data['steps'])
        change_histories(part, seq, locs, True, only=(data['initial_index'], steps, tuple(data['mask'])))
        if not part.counters.get('history_plans'):
            raise HarnessError('replay did not reach the recorded point')
        for fp, what, d in part.violations:
            print(fp, '::', what[:600])
        return bool(part.violations)
    if data.get('lazy'):
        import cassandra.policies as pol
        from cassandra.query import SimpleStatement
        Scripted, Recorder = make_policies()
        per_dc = (sum(1 for d, _ in locs if d == 'dc0'), sum(1 for d, _ in locs if d == 'dc1'))
        c = Case(seq, locs, settings_for(per_dc))
        by_dc = sorted(range(c.w.nhosts), key=lambda i: locs[i][0])
        orig = pol.randint
        pol.randint = lambda a, b: a if b <= a else a + 1
        try:
            lazy_one(part, c, pol, FakeCluster(c.w.metadata), tuple(data['child']), tuple(data['state']), by_dc, SimpleStatement, Recorder,
                     data['setting_index'], data['key_index'], data['cut'], data['host'], data['flip'], data['family'])
        finally:
            pol.randint = orig
        for fp, what, d in part.violations:
            print(fp, '::', what[:600])
        return bool(part.violations)
    run_world(part, seq, locs, data['family'], only=(data['child'], data['state'], None, None, None))
    if not part.counters.get('evaluations'):
        raise HarnessError('replay did not reach the recorded point')
    same = [(fp, what, d) for fp, what, d in part.violations
            if all(d.get(k) == data.get(k) for k in ('setting_index', 'key_index', 'shuffle', 'perm', 'mode'))]
    for fp, what, d in same:
        print(fp, '::', what[:600])
    return bool(same)
