"""C35 cqlengine persists exactly the model state.

Engine N, operation-sequence search with state deduplication.  The world is a cqlengine
connection over a fake session whose statements are executed by the independent interpreter
`vt.spec.minicql` (Cassandra cell semantics).  Operations are real cqlengine calls on three
models/slots: X = an instance created at (pk=1, ck=1) and Y = one created at (pk=1, ck=2) of a table
with a partition key, a clustering key and scalar, static, set, list and map columns and two nested-collection
columns (nm = map<int, frozen<list<int>>>, nl = list<frozen<set<int>>>), Z = row pk=1 of a counter table.
Besides assignment and in-place change of the column's own container, an INNER container of a nested
column is changed in place (nm[1].append(3), nl[0].add(3), ...) right after each kind of value snapshot the
mapper takes: create(), a save()/update() that wrote the column, update(col=...), a batched create, and an
instance built from a query row (refetch).  A persisted instance can be moved: a new value is assigned to its clustering and/or
partition key column (alone or together with other mutations) and it is saved; from then on the slot
addresses the row under the instance's current key (locations (1,3), (2,1), (2,2), (2,3) besides the two
home keys; two partitions, each with its own static column).

Oracles, evaluated after every step:
 * instance read-back: for every live instance that is in sync (nothing else wrote its row or
   its partition's statics since its own last operation) every non-key column read from the
   interpreter equals the instance's current value (empty collection == null, counter null == 0,
   an absent row == all columns null);
 * query-set updates: the row equals the row before with the documented effect of each keyword
   applied (assignment overwrites, None deletes, add/remove/append/prepend/update/remove with
   their operands, empty operands change nothing);
 * frame: rows (of every location in both partitions) not addressed by the step are unchanged;
 * conditional operations apply iff their condition held, and raise LWTException otherwise;
 * every statement is valid CQL for the table (the interpreter rejects what Cassandra rejects).

Layer K (key values): 15 further models `pk T, ck T [, ck2 T2], st text static, v int, s set<int>`, one per key column type
with a falsy python value (Integer, BigInt, SmallInt, TinyInt, VarInt 0; Text, Ascii ''; Boolean False; Float, Double 0.0;
Decimal 0; Blob b'') and three with two clustering columns of mixed types.  The instance X is placed at every falsy/truthy
combination of its key column values; histories (breadth-first, deduplicated, depth 3) over create (6 forms incl. save()
of a new instance, in a batch, with falsy non-key values 0 / ''), mutate + save / update, delete, key assignment + save
(to the flipped falsy<->truthy clustering value, a third value, the flipped partition value), a neighbour row N in the same
partition whose last clustering value is the flipped one (create, batched create, query-set delete), the documented
static-only create (no clustering value at all), query-set update / delete, reload, refetch.  Oracles: read-back of X, the
row exists after every create / key assignment + save, frame over every location of the value pools and every partition's
static column, valid CQL.
"""
import itertools

from vt.core import Part, HarnessError

META = {
    'level': 'model_checking',
    'engine': 'N',
    'technique': 'explicit-state search over cqlengine operation sequences with canonical-state deduplication; every step executed on an independent CQL interpreter and judged by read-back',
    'text': 'Breadth-first search to depth 3 (quick) / 4 with the full alphabet and 5 with the quick alphabet less key assignment (thorough) over an alphabet of create / save / update / instance mutation / '
            'query-set update (every documented collection operator, with empty operands) / delete / conditional / batch / counter / reload / '
            'key assignment (a new value for the clustering key, the partition key or both on a persisted instance, alone or with other '
            'mutations, then save(), also inside a batch) '
            'operations on two instances of a model with a partition key, a clustering key and scalar, static, set, list and map columns '
            'plus two nested-collection columns, Map(Integer, List(Integer)) and List(Set(Integer)) '
            '(six row locations in two partitions) and on a counter model. '
            'Nested columns are assigned as a whole, per entry, appended to / popped, updated through query-set operators, and an INNER '
            'container is changed in place (append / pop / item assignment on an inner list, add / discard on an inner set, alone or with an '
            'unrelated change) followed by save() or update(), after every kind of snapshot of the instance: create(), a save/update that '
            'wrote the column, update(col=..), batched create, key assignment + save, and refetch (the in-sync instance replaced by the one '
            'a query for its row returns). '
            'States are (interpreter table content, per-slot instance values, previous values, explicit flags, number of inner containers '
            'shared between a value and its snapshot, sync flag) and are expanded once. '
            'Key-value layer: for each of 15 models with a partition key, one or two clustering keys, a static, a scalar and a set column - one per key column type that has a '
            'falsy python value (0 for the five integer types, \'\' for Text/Ascii, False, 0.0 for Float/Double, Decimal(0), b\'\' for Blob) and three with two clustering '
            'columns of mixed types - and every falsy/truthy combination of the key column values of the instance (62 configurations), breadth-first search with '
            'state deduplication to depth 3 over 30 operations: six forms of create (full, keys only, without static, falsy non-key values, save() of a '
            'new instance, batched), mutations + save()/update(), delete, key assignment + save() to a falsy / truthy / other-partition key, a neighbour row in the same '
            'partition at the flipped clustering value (created, batch-created, deleted), the static-only create without clustering values, query-set update/delete, '
            'reload and refetch; judged by read-back, row existence after every INSERT-path save, the frame over all rows and statics, and CQL validity. '
            'Every explored trace is an execution of the real cqlengine code; the CQL it emits is parsed and applied by vt/spec/minicql.py.',
    'note': 'Trusted base: the cell semantics S1-S10 of vt/spec/minicql.py (listed in the evidence assumptions) and the fake session. '
            'Operations whose documented meaning is unclear (writes through a stale instance, create over an existing row, counter '
            'query-set updates, USING TIMESTAMP) are not generated.',
    'design_ref': 'C35',
}

T_R = ('ks', 'r')
T_C = ('ks', 'c')
COLS = ('st', 'v', 's', 'l', 'm', 'nm', 'nl')   # nm, nl: collections whose elements are (frozen) collections
KEYS = {'X': (1, 1), 'Y': (1, 2)}           # home keys: where a slot's instance is created
LOCS = ((1, 1), (1, 2), (1, 3), (2, 1), (2, 2), (2, 3))   # every (pk, ck) an instance can be moved to by key assignment + save

_w = {}


def models():
    if _w:
        return _w
    from vt import cqle
    from vt.spec import minicql
    from cassandra.cqlengine import columns
    from cassandra.cqlengine.models import Model

    class R(Model):
        __table_name__ = 'r'
        pk = columns.Integer(partition_key=True)
        ck = columns.Integer(primary_key=True)
        st = columns.Text(static=True)
        v = columns.Integer()
        s = columns.Set(columns.Integer)
        l = columns.List(columns.Integer)
        m = columns.Map(columns.Integer, columns.Integer)
        nm = columns.Map(columns.Integer, columns.List(columns.Integer))     # map<int, frozen<list<int>>>
        nl = columns.List(columns.Set(columns.Integer))                     # list<frozen<set<int>>>

    class C(Model):
        __table_name__ = 'c'
        pk = columns.Integer(primary_key=True)
        n = columns.Counter()

    _w.update(R=R, C=C, cqle=cqle, minicql=minicql, session=cqle.install_fake(None))
    return _w


def new_db():
    mq = models()['minicql']
    return mq.Database([
        mq.Table('ks', 'r', ['pk'], ['ck'], {'st': 'scalar', 'v': 'scalar', 's': 'set', 'l': 'list', 'm': 'map',
                                                'nm': 'map', 'nl': 'list'}, static=['st']),
        mq.Table('ks', 'c', ['pk'], [], {'n': 'counter'}),
    ])


def _deep(v):
    """Hashable form of a (nested) value: set -> frozenset, list -> tuple, dict -> sorted item tuple."""
    if isinstance(v, (set, frozenset)):
        return frozenset(_deep(x) for x in v)
    if isinstance(v, (list, tuple)):
        return tuple(_deep(x) for x in v)
    if isinstance(v, dict):
        return tuple(sorted((_deep(k), _deep(x)) for k, x in v.items()))
    return v


def nv(v):
    """Comparable form of a column value (an empty collection column == null; nested collections by value)."""
    if isinstance(v, (set, frozenset, list, tuple, dict)):
        return _deep(v) or None
    return v


def _inner_containers(v):
    """The mutable containers strictly inside a column value."""
    out = []
    if isinstance(v, dict):
        kids = list(v.values())
    elif isinstance(v, (set, frozenset, list, tuple)):
        kids = list(v)
    else:
        return out
    for k in kids:
        if isinstance(k, (set, list, dict)):
            out.append(k)
        out.extend(_inner_containers(k))
    return out


def shared_inner(value, previous):
    """Number of inner containers of the live value that are the same object as an inner container of the
    snapshot (previous value): hidden instance state, part of the canonical state."""
    prev = set(id(x) for x in _inner_containers(previous))
    return sum(1 for x in _inner_containers(value) if id(x) in prev)


class Violation(Exception):
    def __init__(self, fp, what):
        Exception.__init__(self, what)
        self.fp, self.what = fp, what


class World(object):
    def __init__(self):
        w = models()
        self.R, self.C = w['R'], w['C']
        self.db = new_db()
        self.backend = w['cqle'].MiniBackend(self.db)
        self.session = w['session']
        self.session.handler = self.backend
        self.session.calls = []
        self.inst = {'X': None, 'Y': None, 'Z': None}
        self.sync = {'X': False, 'Y': False, 'Z': False}

    # ------------------------------------------------------------ views
    def row_view(self, slot):
        if slot == 'Z':
            r = self.db.read_row(T_C, (1,))
            return {'n': (r['n'] if r else None) or 0}
        return self.loc_view(self.key(slot))

    def key(self, slot):
        """The row a slot addresses: the current key of its instance, else its home key."""
        i = self.inst[slot]
        if i is None:
            return KEYS[slot]
        k = (i.pk, i.ck)
        if k not in LOCS:
            raise HarnessError('instance %s has key %r, which is not an enumerated location' % (slot, k))
        return k

    def loc_view(self, loc):
        pk, ck = loc
        r = self.db.read_row(T_R, (pk,), (ck,))
        st = self.db.read_static(T_R, (pk,))
        out = dict((c, nv(r[c]) if r else None) for c in COLS if c != 'st')
        out['st'] = st['st'] if st else None
        return out

    def loc_exists(self, loc):
        return self.db.read_row(T_R, (loc[0],), (loc[1],)) is not None

    def inst_view(self, slot):
        i = self.inst[slot]
        if slot == 'Z':
            return {'n': i.n or 0}
        return dict((c, nv(getattr(i, c))) for c in COLS)

    def row_exists(self, slot):
        return self.loc_exists(self.key(slot))

    def canon(self):
        insts = []
        for slot in ('X', 'Y', 'Z'):
            i = self.inst[slot]
            if i is None:
                insts.append(None)
            else:
                vals = tuple((n, nv(m.value), m.value is None, nv(m.previous_value), bool(m.explicit), shared_inner(m.value, m.previous_value))
                             for n, m in sorted(i._values.items()))
                insts.append((self.sync[slot], bool(i._is_persisted), vals))
        return (self.db.snapshot(), tuple(insts))

    # ------------------------------------------------------------ oracles
    def check_instances(self, opname, sent=()):
        for slot in ('X', 'Y', 'Z'):
            if self.inst[slot] is None or not self.sync[slot]:
                continue
            iv, rv = self.inst_view(slot), self.row_view(slot)
            if iv != rv:
                bad = sorted(c for c in iv if iv[c] != rv[c])
                raise Violation('C35/readback/%s/%s' % (','.join(bad), '+'.join(sent) or 'nothing-sent'),
                                'after %s the instance %s has %r but the row read back has %r (columns %s differ; the step sent %s)' % (
                                    opname, slot, dict((c, iv[c]) for c in bad), dict((c, rv[c]) for c in bad), bad, list(sent) or 'no statement'))

    def others_unchanged(self, before, touched, opname, static_may_change):
        """Frame: the counter row and every location not addressed by the touched slots (under the key
        they had before the step or have now) are as before; a step that may write a static column may
        change it only in the partitions it addresses."""
        if 'Z' not in touched:
            now = self.row_view('Z')
            if now != before['Z']:
                raise Violation('C35/frame/%s' % opname, 'step %s changed row Z, which it does not address: %r -> %r' % (opname, before['Z'], now))
        addressed = set()
        for slot in touched:
            if slot != 'Z':
                addressed.add(before['@keys'][slot])
                addressed.add(self.key(slot))
        parts = set(pk for pk, _ in addressed)
        for loc in LOCS:
            if loc in addressed:
                continue
            now = self.loc_view(loc)
            b = dict(before['@locs'][loc])
            if static_may_change and loc[0] in parts:
                b['st'] = now['st']
            if now != b:
                raise Violation('C35/frame/%s' % opname, 'step %s changed row (pk=%d, ck=%d), which it does not address: %r -> %r' % (
                    opname, loc[0], loc[1], before['@locs'][loc], now))


def all_views(w):
    out = dict((s, w.row_view(s)) for s in ('X', 'Y', 'Z'))
    out['@keys'] = dict((s, w.key(s)) for s in ('X', 'Y'))
    out['@locs'] = dict((loc, w.loc_view(loc)) for loc in LOCS)
    return out


# ================================================================================ operations
# An operation is (name, fn(world) -> False when not enabled).  fn performs real cqlengine calls
# and updates the sync bookkeeping; oracles common to all steps run in `step`.

def _peers_stale(w, slot, before, after):
    """Other instances lose sync when their row / static changed under them."""
    for other in ('X', 'Y'):
        if other != slot and w.inst[other] is not None:
            if before[other] != after[other]:
                w.sync[other] = False


def op_create(slot, label, kwargs, explicit_static):
    def fn(w):
        if w.inst[slot] is not None or w.row_exists(slot):
            return False
        before = all_views(w)
        if not explicit_static and before[slot]['st'] is not None:
            return False            # an upsert leaves the unspecified static as it is: not generated
        pk, ck = KEYS[slot]
        w.inst[slot] = w.R.create(pk=pk, ck=ck, **kwargs)
        w.sync[slot] = True
        after = all_views(w)
        _peers_stale(w, slot, before, after)
        w.others_unchanged(before, (slot,), 'create-' + label, 'st' in kwargs)
    return ('%s.create-%s' % (slot, label), fn)


def op_create_ine(slot):
    from cassandra.cqlengine.query import LWTException

    def fn(w):
        if w.inst[slot] is not None:
            return False
        before = all_views(w)
        existed = w.row_exists(slot)
        if not existed and before[slot]['st'] is not None:
            return False
        pk, ck = KEYS[slot]
        snap = w.db.snapshot()
        try:
            i = w.R.if_not_exists().create(pk=pk, ck=ck, v=3)
        except LWTException:
            if not existed:
                raise Violation('C35/lwt/if_not_exists/spurious-failure', 'if_not_exists().create() raised LWTException although the row did not exist')
            if w.db.snapshot() != snap:
                raise Violation('C35/lwt/if_not_exists/changed-on-failure', 'a failed if_not_exists create changed the table')
            return
        if existed:
            raise Violation('C35/lwt/if_not_exists/not-reported', 'if_not_exists().create() over an existing row did not raise LWTException')
        w.inst[slot] = i
        w.sync[slot] = True
        i.if_not_exists(False)
    return ('%s.create-if_not_exists' % slot, fn)


MUTATIONS = [
    # name, guard(inst), apply(inst), touches static
    ('v=7', lambda i: i.v != 7, lambda i: setattr(i, 'v', 7), False),
    ('v=None', lambda i: i.v is not None, lambda i: setattr(i, 'v', None), False),
    ('st=b', lambda i: i.st != 'b', lambda i: setattr(i, 'st', 'b'), True),
    ('st=None', lambda i: i.st is not None, lambda i: setattr(i, 'st', None), True),
    ('s.add3', lambda i: 3 not in i.s, lambda i: i.s.add(3), False),
    ('s.discard1', lambda i: 1 in i.s, lambda i: i.s.discard(1), False),
    ('s=empty', lambda i: bool(i.s), lambda i: setattr(i, 's', set()), False),
    ('s={9}', lambda i: i.s != {9}, lambda i: setattr(i, 's', {9}), False),
    ('s=None', lambda i: bool(i.s), lambda i: setattr(i, 's', None), False),
    ('l.append3', lambda i: True, lambda i: i.l.append(3), False),
    ('l.prepend0', lambda i: True, lambda i: i.l.insert(0, 0), False),
    ('l.both', lambda i: bool(i.l), lambda i: (i.l.insert(0, 8), i.l.append(9)), False),
    ('l.pop', lambda i: bool(i.l), lambda i: i.l.pop(), False),
    ('l=empty', lambda i: bool(i.l), lambda i: setattr(i, 'l', []), False),
    ('l=[5,6]', lambda i: i.l != [5, 6], lambda i: setattr(i, 'l', [5, 6]), False),
    ('l=None', lambda i: bool(i.l), lambda i: setattr(i, 'l', None), False),
    ('m[3]=30', lambda i: i.m.get(3) != 30, lambda i: i.m.__setitem__(3, 30), False),
    ('m[1]=11', lambda i: 1 in i.m and i.m[1] != 11, lambda i: i.m.__setitem__(1, 11), False),
    ('del m[1]', lambda i: 1 in i.m, lambda i: i.m.__delitem__(1), False),
    ('m=empty', lambda i: bool(i.m), lambda i: setattr(i, 'm', {}), False),
    ('m={7:70}', lambda i: i.m != {7: 70}, lambda i: setattr(i, 'm', {7: 70}), False),
    ('m=None', lambda i: bool(i.m), lambda i: setattr(i, 'm', None), False),
    ('s={1,2}', lambda i: i.s != {1, 2}, lambda i: setattr(i, 's', {1, 2}), False),
    ('l=[1,2]', lambda i: i.l != [1, 2], lambda i: setattr(i, 'l', [1, 2]), False),
    ('m={1:10,2:20}', lambda i: i.m != {1: 10, 2: 20}, lambda i: setattr(i, 'm', {1: 10, 2: 20}), False),
    ('s={1}', lambda i: i.s != {1}, lambda i: setattr(i, 's', {1}), False),
    ('l=[1]', lambda i: i.l != [1], lambda i: setattr(i, 'l', [1]), False),
    ('m={1:10}', lambda i: i.m != {1: 10}, lambda i: setattr(i, 'm', {1: 10}), False),
    # ---- nested collections.  An inner container is changed IN PLACE (no assignment to the column or to the entry);
    # inner containers are never emptied (see ASSUMPTIONS)
    ('nm[1].append3', lambda i: 1 in i.nm, lambda i: i.nm[1].append(3), False),
    ('nm[1].pop', lambda i: len(i.nm.get(1, ())) > 1, lambda i: i.nm[1].pop(), False),
    ('nm[2][0]=6', lambda i: 2 in i.nm and i.nm[2][0] != 6, lambda i: i.nm[2].__setitem__(0, 6), False),
    ('nl[0].add3', lambda i: bool(i.nl) and 3 not in i.nl[0], lambda i: i.nl[0].add(3), False),
    ('nl[-1].add4', lambda i: bool(i.nl) and 4 not in i.nl[-1], lambda i: i.nl[-1].add(4), False),
    ('nl[0].discard1', lambda i: bool(i.nl) and 1 in i.nl[0] and len(i.nl[0]) > 1, lambda i: i.nl[0].discard(1), False),
    ('nested-combo', lambda i: 1 in i.nm and bool(i.nl),
     lambda i: (i.nm[1].insert(0, 9), i.nl[-1].add(9), setattr(i, 'v', 6)), False),
    # entry / whole-column assignment of nested values
    ('nm[3]=[7]', lambda i: i.nm.get(3) != [7], lambda i: i.nm.__setitem__(3, [7]), False),
    ('nm[1]=[1,2,3]', lambda i: 1 in i.nm and i.nm[1] != [1, 2, 3], lambda i: i.nm.__setitem__(1, [1, 2, 3]), False),
    ('del nm[1]', lambda i: 1 in i.nm, lambda i: i.nm.__delitem__(1), False),
    ('nm={1:[1,2],2:[5]}', lambda i: i.nm != {1: [1, 2], 2: [5]}, lambda i: setattr(i, 'nm', {1: [1, 2], 2: [5]}), False),
    ('nm=empty', lambda i: bool(i.nm), lambda i: setattr(i, 'nm', {}), False),
    ('nl.append{5}', lambda i: True, lambda i: i.nl.append({5}), False),
    ('nl.pop', lambda i: bool(i.nl), lambda i: i.nl.pop(), False),
    ('nl=[{1},{2}]', lambda i: i.nl != [{1}, {2}], lambda i: setattr(i, 'nl', [{1}, {2}]), False),
    ('nl=None', lambda i: bool(i.nl), lambda i: setattr(i, 'nl', None), False),
    ('combo', lambda i: True,
     lambda i: (setattr(i, 'v', None), i.s.add(4), i.l.append(4), i.m.pop(2, None), i.m.__setitem__(5, 50)), False),
    ('combo-static', lambda i: True,
     lambda i: (setattr(i, 'st', 'k'), setattr(i, 'v', 6), i.m.pop(1, None)), True),
]
# columns whose container object a mutation changes in place: the user can only do that while the attribute holds a container
# (after `inst.l = None; inst.save()` the attribute is None until the instance is loaded again)
_INPLACE = {'s.add3': 's', 's.discard1': 's', 'l.append3': 'l', 'l.prepend0': 'l', 'l.both': 'l', 'l.pop': 'l',
            'm[3]=30': 'm', 'm[1]=11': 'm', 'del m[1]': 'm', 'combo': 's l m', 'combo-static': 'm',
            'nm[1].append3': 'nm', 'nm[1].pop': 'nm', 'nm[2][0]=6': 'nm', 'nl[0].add3': 'nl', 'nl[-1].add4': 'nl',
            'nl[0].discard1': 'nl', 'nested-combo': 'nm nl', 'nm[3]=[7]': 'nm', 'nm[1]=[1,2,3]': 'nm', 'del nm[1]': 'nm',
            'nl.append{5}': 'nl', 'nl.pop': 'nl'}


def _with_container_guard(mut):
    name, guard, apply, static = mut
    cols = _INPLACE.get(name, '').split()
    if not cols:
        return mut
    return (name, lambda i: all(getattr(i, c) is not None for c in cols) and guard(i), apply, static)


MUTATIONS = [_with_container_guard(m) for m in MUTATIONS]
QUICK_MUT_SAVE = {'v=7', 'v=None', 'st=b', 'st=None', 's.add3', 's.discard1', 's=empty', 'l.append3', 'l.prepend0', 'l.pop',
                  'l=empty', 'm[3]=30', 'del m[1]', 'm=empty', 'combo', 's={1,2}', 'l=[1,2]', 'm={1:10,2:20}', 's={1}', 'l=[1]', 'm={1:10}',
                  'nm[1].append3', 'nm[1].pop', 'nl[0].add3', 'nl[-1].add4', 'nested-combo', 'nm[3]=[7]', 'del nm[1]',
                  'nm={1:[1,2],2:[5]}', 'nl.append{5}', 'nl=[{1},{2}]'}
QUICK_MUT_UPDATE = {'v=None', 's.add3', 'combo', 'm={7:70}', 'l.both', 'nm[1].append3', 'nl[0].add3', 'nm[3]=[7]', 'nl=[{1},{2}]'}


def op_mutate(slot, mut, persist):
    name, guard, apply, static = mut

    def fn(w):
        i = w.inst[slot]
        if i is None or not w.sync[slot] or not guard(i):
            return False
        before = all_views(w)
        apply(i)
        getattr(i, persist)()
        after = all_views(w)
        _peers_stale(w, slot, before, after)
        w.others_unchanged(before, (slot,), '%s+%s' % (name, persist), static)
    return ('%s.%s+%s' % (slot, name, persist), fn)


# ---- key assignment on a persisted instance, then save(): the instance is written as a whole under the new key
REKEYS = [
    # label, {key column: new value}
    ('ck=3', {'ck': 3}),
    ('pk=2', {'pk': 2}),
    ('pk=2,ck=3', {'pk': 2, 'ck': 3}),
    ('pk=1', {'pk': 1}),
]
QUICK_REKEY = [('ck=3', None), ('ck=3', 'v=7'), ('ck=3', 'v=None'), ('ck=3', 'combo'), ('pk=2', None), ('pk=2', 'combo-static'),
               ('pk=2,ck=3', 'l.append3'), ('ck=3', 'nm[1].append3')]
FULL_REKEY = [('ck=3', m) for m in (None, 'v=7', 'v=None', 'st=None', 'del m[1]', 'combo', 'nm[1].append3', 'nl[0].add3')] + \
             [('pk=2', None), ('pk=2', 'combo-static'), ('pk=2,ck=3', 'l.append3'), ('pk=1', None)]


def _rekey_target(w, slot, assign, before):
    """-> the key the instance would have, or None when the move is not generated (see ASSUMPTIONS)."""
    i = w.inst[slot]
    cur = (i.pk, i.ck)
    new = (assign.get('pk', cur[0]), assign.get('ck', cur[1]))
    if new not in LOCS:
        raise HarnessError('key assignment %r moves instance %s to %r, which is not an enumerated location' % (assign, slot, new))
    if new == cur or w.loc_exists(new):
        return None                 # no move / an upsert over an existing row: not generated
    for other in ('X', 'Y'):
        if other != slot and w.inst[other] is not None and w.key(other) == new:
            return None
    return new


def _rekey_static_ok(w, slot, new, before):
    # written into another partition: the static column stored there must be null or be overwritten
    # by the instance's own non-null value (an INSERT leaves an unspecified static as it is)
    i = w.inst[slot]
    return new[0] == before['@keys'][slot][0] or before['@locs'][new]['st'] is None or i.st is not None


def op_rekey(slot, rekey, mutname):
    label, assign = rekey
    mut = [m for m in MUTATIONS if m[0] == mutname][0] if mutname else None
    opname = '%s%s+save' % (label, ',' + mutname if mutname else '')

    def fn(w):
        i = w.inst[slot]
        if i is None or not w.sync[slot] or not i._is_persisted:
            return False
        if mut is not None and not mut[1](i):
            return False
        before = all_views(w)
        new = _rekey_target(w, slot, assign, before)
        if new is None:
            return False
        if mut is not None:
            mut[2](i)
        if not _rekey_static_ok(w, slot, new, before):
            return False            # (the world of a disabled step is discarded, so the mutation above does not leak)
        for k, val in sorted(assign.items()):
            setattr(i, k, val)
        i.save()
        after = all_views(w)
        _peers_stale(w, slot, before, after)
        # the row under the old key is not addressed by save(): it stays as it was
        old = before['@keys'][slot]
        if old != new:
            b, n = dict(before['@locs'][old]), w.loc_view(old)
            if new[0] == old[0]:
                b['st'] = n['st']
            if n != b:
                raise Violation('C35/frame/rekey-old-row', 'step %s changed the row under the old key (pk=%d, ck=%d): %r -> %r' % (
                    opname, old[0], old[1], before['@locs'][old], n))
        w.others_unchanged(before, (slot,), opname, True)
    return ('%s.%s' % (slot, opname), fn)


def op_update_kw(slot, label, kwargs, static=False):
    def fn(w):
        i = w.inst[slot]
        if i is None or not w.sync[slot]:
            return False
        before = all_views(w)
        i.update(**kwargs)
        after = all_views(w)
        _peers_stale(w, slot, before, after)
        w.others_unchanged(before, (slot,), 'update(%s)' % label, static)
    return ('%s.update(%s)' % (slot, label), fn)


def op_delete(slot):
    def fn(w):
        i = w.inst[slot]
        if i is None or not w.sync[slot]:
            return False
        before = all_views(w)
        loc = None if slot == 'Z' else w.key(slot)
        i.delete()
        w.inst[slot] = None
        w.sync[slot] = False
        if slot == 'Z':
            if w.row_view('Z') != {'n': 0}:
                raise Violation('C35/delete/row-remains', 'after delete() the counter row still reads %r' % (w.row_view('Z'),))
        else:
            if w.loc_exists(loc):
                raise Violation('C35/delete/row-remains', 'after delete() the row %s (pk=%d, ck=%d) still exists: %r' % (slot, loc[0], loc[1], w.loc_view(loc)))
        w.others_unchanged(before, (slot,), 'delete', False)
    return ('%s.delete' % slot, fn)


def op_reload(slot):
    def fn(w):
        if w.inst[slot] is None or w.sync[slot]:
            return False            # only useful to regain sync
        if slot == 'Z':
            q = w.C.objects.filter(pk=1)
        else:
            pk, ck = w.key(slot)
            q = w.R.objects.filter(pk=pk, ck=ck)
        got = q.first()
        w.inst[slot] = got
        w.sync[slot] = got is not None
    return ('%s.reload' % slot, fn)


def op_refetch(slot):
    """Replace an in-sync instance by the instance a query for its row yields (values and snapshot taken from a result row)."""
    def fn(w):
        if w.inst[slot] is None or not w.sync[slot] or slot == 'Z' or not w.row_exists(slot):
            return False
        pk, ck = w.key(slot)
        got = w.R.objects.filter(pk=pk, ck=ck).first()
        if got is None:
            raise Violation('C35/refetch/row-missing', 'objects(pk=%d, ck=%d).first() found no row although the row exists' % (pk, ck))
        w.inst[slot] = got
    return ('%s.refetch' % slot, fn)


def op_iff(slot, hold):
    from cassandra.cqlengine.query import LWTException

    def fn(w):
        i = w.inst[slot]
        if i is None or not w.sync[slot] or i.v is None or i.v == 9:
            return False
        before = all_views(w)
        snap = w.db.snapshot()
        cond = i.v if hold else 999
        try:
            i.iff(v=cond).update(v=9)
        except LWTException:
            i.iff()
            w.sync[slot] = False
            if hold:
                raise Violation('C35/lwt/iff/spurious-failure', 'iff(v=%r).update() raised LWTException although the row has v=%r' % (cond, before[slot]['v']))
            if w.db.snapshot() != snap:
                raise Violation('C35/lwt/iff/changed-on-failure', 'a failed conditional update changed the table')
            return
        i.iff()
        if not hold:
            raise Violation('C35/lwt/iff/not-reported', 'iff(v=999).update() did not raise LWTException although the row has v=%r' % (before[slot]['v'],))
        w.others_unchanged(before, (slot,), 'iff-update', False)
    return ('%s.iff-%s.update' % (slot, 'hold' if hold else 'fail'), fn)


def op_if_exists(slot):
    from cassandra.cqlengine.query import LWTException

    def fn(w):
        i = w.inst[slot]
        if i is None or not w.sync[slot] or i.v == 4:
            return False
        existed = w.row_exists(slot)
        before = all_views(w)
        try:
            i.if_exists().update(v=4)
        except LWTException:
            i.if_exists(False)
            w.sync[slot] = False
            if existed:
                raise Violation('C35/lwt/if_exists/spurious-failure', 'if_exists().update() raised LWTException although the row exists')
            return
        i.if_exists(False)
        if not existed:
            raise Violation('C35/lwt/if_exists/not-reported', 'if_exists().update() on a missing row did not raise LWTException')
        w.others_unchanged(before, (slot,), 'if_exists-update', False)
    return ('%s.if_exists.update' % slot, fn)


# ---- query-set updates: documented effect as a function on the row view
def _eff_assign(col, val):
    return lambda row: row.__setitem__(col, nv(val))


def _eff_set_add(col, operand):
    return lambda row: row.__setitem__(col, nv(set(row[col] or ()) | set(operand)))


def _eff_set_remove(col, operand):
    return lambda row: row.__setitem__(col, nv(set(row[col] or ()) - set(operand)))


def _eff_append(col, operand):
    return lambda row: row.__setitem__(col, nv(list(row[col] or ()) + list(_deep(operand))))


def _eff_prepend(col, operand):
    return lambda row: row.__setitem__(col, nv(list(_deep(operand)) + list(row[col] or ())))


def _eff_map_update(col, operand):
    def f(row):
        d = dict(row[col] or ())
        d.update(_deep(operand))
        row[col] = nv(d)
    return f


def _eff_map_remove(col, operand):
    def f(row):
        d = dict(row[col] or ())
        for k in operand:
            d.pop(k, None)
        row[col] = nv(d)
    return f


QS_UPDATES = [
    # label, kwargs, [effects], touches static, in quick tier
    ('v=5', {'v': 5}, [_eff_assign('v', 5)], False, True),
    ('v=None', {'v': None}, [_eff_assign('v', None)], False, True),
    ('st=q', {'st': 'q'}, [_eff_assign('st', 'q')], True, True),
    ('st=None', {'st': None}, [_eff_assign('st', None)], True, False),
    ('s__add={3}', {'s__add': {3}}, [_eff_set_add('s', {3})], False, True),
    ('s__add=empty', {'s__add': set()}, [], False, True),
    ('s__remove={1}', {'s__remove': {1}}, [_eff_set_remove('s', {1})], False, True),
    ('s__remove=empty', {'s__remove': set()}, [], False, False),
    ('s={7}', {'s': {7}}, [_eff_assign('s', {7})], False, True),
    ('s=empty', {'s': set()}, [_eff_assign('s', None)], False, False),
    ('s=None', {'s': None}, [_eff_assign('s', None)], False, False),
    ('l__append=[3]', {'l__append': [3]}, [_eff_append('l', [3])], False, True),
    ('l__append=empty', {'l__append': []}, [], False, False),
    ('l__prepend=[8,9]', {'l__prepend': [8, 9]}, [_eff_prepend('l', [8, 9])], False, True),
    ('l__prepend=empty', {'l__prepend': []}, [], False, True),
    ('l=[7]', {'l': [7]}, [_eff_assign('l', [7])], False, False),
    ('l=empty', {'l': []}, [_eff_assign('l', None)], False, False),
    ('m__update={3:30}', {'m__update': {3: 30}}, [_eff_map_update('m', {3: 30})], False, True),
    ('m__update={1:11,4:40}', {'m__update': {1: 11, 4: 40}}, [_eff_map_update('m', {1: 11, 4: 40})], False, False),
    ('m__update=empty', {'m__update': {}}, [], False, True),
    ('m__remove={1}', {'m__remove': {1}}, [_eff_map_remove('m', {1})], False, True),
    ('m__remove=empty', {'m__remove': set()}, [], False, True),
    ('m={7:70}', {'m': {7: 70}}, [_eff_assign('m', {7: 70})], False, True),
    ('m=empty', {'m': {}}, [_eff_assign('m', None)], False, False),
    ('nm__update={3:[7]}', {'nm__update': {3: [7]}}, [_eff_map_update('nm', {3: [7]})], False, True),
    ('nm__update={1:[9],4:[4,4]}', {'nm__update': {1: [9], 4: [4, 4]}}, [_eff_map_update('nm', {1: [9], 4: [4, 4]})], False, False),
    ('nm__remove={1}', {'nm__remove': {1}}, [_eff_map_remove('nm', {1})], False, False),
    ('nm={7:[7,8]}', {'nm': {7: [7, 8]}}, [_eff_assign('nm', {7: [7, 8]})], False, False),
    ('nl__append=[{5}]', {'nl__append': [{5}]}, [_eff_append('nl', [{5}])], False, True),
    ('nl__prepend=[{8},{9}]', {'nl__prepend': [{8}, {9}]}, [_eff_prepend('nl', [{8}, {9}])], False, False),
    ('nl=[{7,8}]', {'nl': [{7, 8}]}, [_eff_assign('nl', [{7, 8}])], False, False),
    ('mixed', {'v': 2, 's__add': {6}, 'l__prepend': [6], 'm__update': {6: 60}, 'st': 'w'},
     [_eff_assign('v', 2), _eff_set_add('s', {6}), _eff_prepend('l', [6]), _eff_map_update('m', {6: 60}), _eff_assign('st', 'w')], True, True),
    ('mixed-nulls', {'v': None, 's__remove': {2}, 'l': None, 'm__update': {2: 22}},
     [_eff_assign('v', None), _eff_set_remove('s', {2}), _eff_assign('l', None), _eff_map_update('m', {2: 22})], False, True),
]


def op_qs_update(slot, spec):
    label, kwargs, effects, static, _ = spec

    def fn(w):
        pk, ck = w.key(slot)
        before = all_views(w)
        expected = dict(before[slot])
        for e in effects:
            e(expected)
        if all(k.split('__')[0] == 'st' for k in kwargs):
            # an UPDATE/DELETE of static columns only must address the partition, not a row
            w.R.objects.filter(pk=pk).update(**kwargs)
        else:
            w.R.objects.filter(pk=pk, ck=ck).update(**kwargs)
        for s in ('X', 'Y'):
            if w.inst[s] is not None and (s == slot or w.key(s) == (pk, ck) or (static and w.key(s)[0] == pk)):
                w.sync[s] = False
        now = w.row_view(slot)
        if now != expected:
            bad = sorted(c for c in now if now[c] != expected[c])
            raise Violation('C35/qs-update/%s/%s' % (label, ','.join(bad)),
                            'objects(pk=%d, ck=%d).update(%s) on row %r left %r, documented effect gives %r' % (
                                pk, ck, ', '.join('%s=%r' % kv for kv in sorted(kwargs.items())),
                                dict((c, before[slot][c]) for c in bad), dict((c, now[c]) for c in bad), dict((c, expected[c]) for c in bad)))
        w.others_unchanged(before, (slot,), 'qs-update(%s)' % label, static)
    return ('qs%s.update(%s)' % (slot, label), fn)


def op_qs_delete(slot):
    def fn(w):
        pk, ck = w.key(slot)
        if not w.row_exists(slot):
            return False
        before = all_views(w)
        w.R.objects.filter(pk=pk, ck=ck).delete()
        for s in ('X', 'Y'):
            if w.inst[s] is not None and w.key(s) == (pk, ck):
                w.sync[s] = False
        if w.row_exists(slot):
            raise Violation('C35/qs-delete/row-remains', 'objects(pk, ck).delete() left the row: %r' % (w.row_view(slot),))
        w.others_unchanged(before, (slot,), 'qs-delete', False)
    return ('qs%s.delete' % slot, fn)


def op_batch(label, steps):
    """steps: [(slot, kind, arg)] executed inside one BatchQuery."""
    from cassandra.cqlengine.query import BatchQuery

    def fn(w):
        before = all_views(w)
        plan = []
        for slot, kind, arg in steps:
            i = w.inst[slot]
            if kind == 'create':
                if i is not None or w.row_exists(slot) or before[slot]['st'] is not None:
                    return False
            else:
                if i is None or not w.sync[slot]:
                    return False
                if kind == 'mutate':
                    m = [x for x in MUTATIONS if x[0] == arg][0]
                    if not m[1](i):
                        return False
                if kind == 'rekey':
                    assign = dict(REKEYS)[arg]
                    new = _rekey_target(w, slot, assign, before)
                    if new is None or not i._is_persisted or not _rekey_static_ok(w, slot, new, before):
                        return False
            plan.append((slot, kind, arg))
        with BatchQuery() as b:
            for slot, kind, arg in plan:
                pk, ck = KEYS[slot]
                if kind == 'create':
                    w.inst[slot] = w.R.batch(b).create(pk=pk, ck=ck, **arg)
                    w.inst[slot].batch(None)        # the documented pattern always passes the batch explicitly
                    w.sync[slot] = True
                elif kind == 'mutate':
                    m = [x for x in MUTATIONS if x[0] == arg][0]
                    i = w.inst[slot]
                    m[2](i)
                    i.batch(b).save()
                    i.batch(None)
                elif kind == 'rekey':
                    i = w.inst[slot]
                    for k, val in sorted(dict(REKEYS)[arg].items()):
                        setattr(i, k, val)
                    i.batch(b).save()
                    i.batch(None)
                elif kind == 'delete':
                    w.inst[slot].batch(b).delete()
                    w.inst[slot] = None
                    w.sync[slot] = False
        for slot, kind, arg in plan:
            if kind == 'delete' and w.loc_exists(before['@keys'][slot]):
                raise Violation('C35/delete/row-remains', 'after a batched delete() the row %s still exists' % slot)
        w.others_unchanged(before, tuple(s for s, _, _ in plan), 'batch-' + label, True)
    return ('batch(%s)' % label, fn)


def op_counter(label):
    def fn(w):
        i = w.inst['Z']
        if label == 'new':
            if i is not None:
                return False
            i = w.C(pk=1)
            # a fresh counter instance counts from the stored value only if the row is new
            if w.row_view('Z') != {'n': 0}:
                return False
            w.inst['Z'] = i
            i.n += 2
            i.update()
            w.sync['Z'] = True
            return
        if i is None or not w.sync['Z']:
            return False
        if label == 'inc5':
            i.n += 5
            i.update()
        elif label == 'dec3':
            i.n -= 3
            i.save()
        elif label == 'noop-update':
            i.update()
    return ('Z.counter-%s' % label, fn)


def alphabet(kind):
    """kind: 'quick' | 'full' | 'deep' (= the quick alphabet without the key-assignment operations, for the deepest search);
    True / False are accepted for 'quick' / 'full'."""
    kind = {True: 'quick', False: 'full'}.get(kind, kind)
    if kind not in ('quick', 'full', 'deep'):
        raise HarnessError('unknown alphabet %r' % (kind,))
    quick = kind != 'full'
    models()
    ops = []
    full = {'v': 1, 's': {1, 2}, 'l': [1, 2], 'm': {1: 10, 2: 20}, 'st': 'a', 'nm': {1: [1, 2], 2: [5]}, 'nl': [{1}, {2}]}
    ops.append(op_create('X', 'min', {}, False))
    ops.append(op_create('X', 'full', full, True))
    ops.append(op_create('X', 'one', {'v': 1, 's': {1}, 'l': [1], 'm': {1: 10}}, False))
    ops.append(op_create('X', 'nulls', {'v': None, 's': set(), 'l': [], 'm': {}, 'st': None, 'nm': {}, 'nl': []}, True))
    ops.append(op_create_ine('X'))
    for mut in MUTATIONS:
        if not quick or mut[0] in QUICK_MUT_SAVE:
            ops.append(op_mutate('X', mut, 'save'))
        if not quick or mut[0] in QUICK_MUT_UPDATE:
            ops.append(op_mutate('X', mut, 'update'))
    rk = dict(REKEYS)
    for label, mutname in {'quick': QUICK_REKEY, 'full': FULL_REKEY, 'deep': ()}[kind]:
        ops.append(op_rekey('X', (label, rk[label]), mutname))
    ops.append(op_update_kw('X', 'v=None', {'v': None}))
    ops.append(op_update_kw('X', 'm={5:50}', {'m': {5: 50}}))
    ops.append(op_update_kw('X', 'nm={1:[4]},nl=[{4}]', {'nm': {1: [4]}, 'nl': [{4}]}))
    if not quick:
        ops.append(op_update_kw('X', 'v=8,s={5},l=[]', {'v': 8, 's': {5}, 'l': []}))
        ops.append(op_update_kw('X', 'st=u', {'st': 'u'}, True))
    ops.append(op_delete('X'))
    ops.append(op_reload('X'))
    ops.append(op_refetch('X'))
    ops.append(op_iff('X', True))
    ops.append(op_iff('X', False))
    if not quick:
        ops.append(op_if_exists('X'))
    for spec in QS_UPDATES:
        if not quick or spec[4]:
            ops.append(op_qs_update('X', spec))
    ops.append(op_qs_delete('X'))
    ops.append(op_create('Y', 'full', dict(full, st='c'), True))
    ops.append(op_mutate('Y', [m for m in MUTATIONS if m[0] == 'st=b'][0], 'save'))
    ops.append(op_delete('Y'))
    if not quick:
        ops.append(op_mutate('Y', [m for m in MUTATIONS if m[0] == 'v=7'][0], 'update'))
        ops.append(op_reload('Y'))
        ops.append(op_qs_update('Y', QS_UPDATES[0]))
        ops.append(op_rekey('Y', ('pk=2', rk['pk=2']), 'v=7'))
    ops.append(op_batch('create X,Y', [('X', 'create', {'v': 1, 'm': {1: 10}, 'nm': {1: [1, 2]}, 'nl': [{1, 2}]}), ('Y', 'create', {'v': 2, 's': {2}})]))
    ops.append(op_batch('X combo, Y v=7', [('X', 'mutate', 'combo'), ('Y', 'mutate', 'v=7')]))
    if kind != 'deep':
        ops.append(op_batch('X ck=3, Y v=7', [('X', 'rekey', 'ck=3'), ('Y', 'mutate', 'v=7')]))
    if not quick:
        ops.append(op_batch('X delete, Y combo', [('X', 'delete', None), ('Y', 'mutate', 'combo')]))
    ops.append(op_counter('new'))
    ops.append(op_counter('inc5'))
    ops.append(op_counter('dec3'))
    if not quick:
        ops.append(op_counter('noop-update'))
        ops.append(op_delete('Z'))
        ops.append(op_reload('Z'))
    return ops


# ================================================================================ layer K: key values
# Small models `pk <T>, ck <T> [, ck2 <T2>], st text static, v int, s set<int>` for every key column type T whose python values
# include a falsy one (0, '', False, 0.0, Decimal(0), b'').  The instance X lives at a key built from falsy / truthy values of each
# key column (every combination); a neighbour row N (same partition, last clustering value flipped falsy <-> truthy) and a static-only
# partition write P are part of the alphabet, so that "falsy key taken for a missing key" shows as a lost row, a lost static, a
# statement Cassandra rejects, or a changed neighbour.
import decimal as _decimal

K_TYPES = {
    # column class: (falsy value, truthy values, the falsy value is legal as the only partition key component)
    'Integer': (0, (1, 2), True),
    'BigInt': (0, (1 << 40, 2), True),
    'SmallInt': (0, (1, 2), True),
    'TinyInt': (0, (1, 2), True),
    'VarInt': (0, (1 << 70, 2), True),
    'Text': ('', ('a', 'b'), False),
    'Ascii': ('', ('a', 'b'), False),
    'Boolean': (False, (True,), True),
    'Float': (0.0, (1.5, 2.5), True),
    'Double': (0.0, (-2.5, 2.5), True),
    'Decimal': (_decimal.Decimal('0'), (_decimal.Decimal('1.5'), _decimal.Decimal('2')), True),
    'Blob': (b'', (b'x', b'y'), False),
}
# (partition key type, clustering key types)
K_MODELS = [(t, (t,)) for t in ('Integer', 'BigInt', 'SmallInt', 'TinyInt', 'VarInt', 'Text', 'Ascii', 'Boolean', 'Float', 'Double', 'Decimal', 'Blob')] + \
           [('Integer', ('Integer', 'Text')), ('Text', ('Boolean', 'Double')), ('Boolean', ('Blob', 'Integer'))]
K_COLS = ('st', 'v', 's')
K_DEPTH_QUICK, K_DEPTH_THOROUGH = 3, 3      # the thorough tier spends its budget on the main search
_km = {}


def k_model(mi):
    """-> (model class, table key, key column names)"""
    if mi in _km:
        return _km[mi]
    models()
    from cassandra.cqlengine import columns
    from cassandra.cqlengine.models import Model
    pkt, ckts = K_MODELS[mi]
    attrs = {'__table_name__': 'k%d' % mi, 'pk': getattr(columns, pkt)(partition_key=True)}
    names = ['pk']
    for n, t in enumerate(ckts):
        name = 'ck' if n == 0 else 'ck%d' % (n + 1)
        attrs[name] = getattr(columns, t)(primary_key=True)
        names.append(name)
    attrs['st'] = columns.Text(static=True)
    attrs['v'] = columns.Integer()
    attrs['s'] = columns.Set(columns.Integer)
    cls = type(Model)('K%d' % mi, (Model,), attrs)
    _km[mi] = (cls, ('ks', 'k%d' % mi), tuple(names))
    return _km[mi]


def k_configs():
    """[(model index, key of X as a tuple of 'f' (falsy) / 't' (first truthy value) per key column)]"""
    out = []
    for mi, (pkt, ckts) in enumerate(K_MODELS):
        pk_choices = ('f', 't') if K_TYPES[pkt][2] else ('t',)
        for combo in itertools.product(pk_choices, *[('f', 't')] * len(ckts)):
            out.append((mi, combo))
    return out


def _kval(tname, sym):
    f, ts, _ = K_TYPES[tname]
    if sym == 'f':
        return f
    if sym == 't':
        return ts[0]
    return ts[1] if len(ts) > 1 else None        # 'u': a second truthy value, where the type has one


class KWorld(object):
    def __init__(self, mi, combo):
        w = models()
        mq = w['minicql']
        self.mi, self.combo = mi, combo
        self.R, self.tk, self.keynames = k_model(mi)
        pkt, ckts = K_MODELS[mi]
        self.types = (pkt,) + tuple(ckts)
        self.db = mq.Database([mq.Table(self.tk[0], self.tk[1], ['pk'], list(self.keynames[1:]),
                                        {'st': 'scalar', 'v': 'scalar', 's': 'set'}, static=['st'])])
        self.backend = w['cqle'].MiniBackend(self.db)
        self.session = w['session']
        self.session.handler = self.backend
        self.session.calls = []
        self.inst = None
        self.sync = False
        self.home = tuple(_kval(t, sym) for t, sym in zip(self.types, combo))
        flip = {'f': 't', 't': 'f'}
        self.nkey = self.home[:-1] + (_kval(self.types[-1], flip[combo[-1]]),)
        third = _kval(self.types[-1], 'u')
        self.third = None if third is None else self.home[:-1] + (third,)
        self.pkflip = (_kval(pkt, flip[combo[0]]),) + self.home[1:] if K_TYPES[pkt][2] else None
        # every location that can be addressed: all values of every key column
        pools = []
        for t in self.types:
            f, ts, _ = K_TYPES[t]
            pools.append((f,) + tuple(ts))
        self.locs = list(itertools.product(*pools))
        self.pks = list(pools[0])

    # ---- views
    def dbkey(self, loc):
        mq = models()['minicql']
        vals = [mq.norm(self.R._columns[n].to_database(v)) for n, v in zip(self.keynames, loc)]
        return (vals[0],), tuple(vals[1:])

    def key(self):
        if self.inst is None:
            return self.home
        k = tuple(getattr(self.inst, n) for n in self.keynames)
        for loc in self.locs:
            if all(type(a) is type(b) and a == b for a, b in zip(loc, k)):
                return loc
        raise HarnessError('instance has key %r, which is not an enumerated location' % (k,))

    def loc_row(self, loc):
        """(exists, v, s) of the row at loc"""
        pk, ck = self.dbkey(loc)
        r = self.db.read_row(self.tk, pk, ck)
        return (r is not None, r['v'] if r else None, nv(r['s']) if r else None)

    def static(self, pkval):
        st = self.db.read_static(self.tk, self.dbkey((pkval,) + self.home[1:])[0])
        return st['st'] if st else None

    def views(self):
        return {'rows': dict((loc, self.loc_row(loc)) for loc in self.locs), 'st': dict((p, self.static(p)) for p in self.pks),
                'key': self.key()}

    def canon(self):
        i = self.inst
        if i is None:
            iv = None
        else:
            iv = (self.sync, bool(i._is_persisted), tuple((n, nv(m.value), m.value is None, nv(m.previous_value), bool(m.explicit))
                                                          for n, m in sorted(i._values.items())))
        return (self.db.snapshot(), iv)

    # ---- oracles
    def check_instance(self, opname, sent):
        if self.inst is None or not self.sync:
            return
        loc = self.key()
        exists, v, sset = self.loc_row(loc)
        rv = {'st': self.static(loc[0]), 'v': v, 's': sset}
        iv = dict((c, nv(getattr(self.inst, c))) for c in K_COLS)
        if iv != rv:
            bad = sorted(c for c in iv if iv[c] != rv[c])
            raise Violation('C35/readback/%s/%s' % (','.join(bad), '+'.join(sent) or 'nothing-sent'),
                            'after %s the %s instance with key %r has %r but the row read back has %r (row exists: %r; the step sent %s)' % (
                                opname, self.describe(), loc, dict((c, iv[c]) for c in bad), dict((c, rv[c]) for c in bad), exists, list(sent) or 'no statement'))

    def describe(self):
        pkt, ckts = K_MODELS[self.mi]
        return 'model(pk %s, ck %s)' % (pkt, ' '.join(ckts))

    def must_exist(self, loc, opname):
        if not self.loc_row(loc)[0]:
            raise Violation('C35/keys/row-missing/%s' % opname.split('(')[0],
                            'after %s on %s the row with key %r does not exist; statements: %r' % (
                                opname, self.describe(), loc, [q for q, _, _ in self.backend.log[-2:]]))

    def frame(self, before, addressed, static_parts, opname):
        """Rows other than the addressed ones are unchanged; statics change only in static_parts."""
        for loc in self.locs:
            if loc in addressed:
                continue
            now = self.loc_row(loc)
            if now != before['rows'][loc]:
                raise Violation('C35/frame/%s' % opname, 'step %s on %s changed the row with key %r, which it does not address: %r -> %r' % (
                    opname, self.describe(), loc, before['rows'][loc], now))
        for p in self.pks:
            if p in static_parts:
                continue
            now = self.static(p)
            if now != before['st'][p]:
                raise Violation('C35/frame/static/%s' % opname, 'step %s on %s changed the static column of partition %r, which it does not write: %r -> %r' % (
                    opname, self.describe(), p, before['st'][p], now))


def _kkw(w, loc):
    return dict(zip(w.keynames, loc))


def k_ops():
    """[(name, fn(world) -> False when not enabled)]"""
    models()
    from cassandra.cqlengine.query import BatchQuery
    ops = []

    def create(label, kwargs, via='create'):
        def fn(w):
            if w.inst is not None or w.loc_row(w.home)[0]:
                return False
            before = w.views()
            if 'st' not in kwargs and before['st'][w.home[0]] is not None:
                return False
            kw = dict(_kkw(w, w.home), **kwargs)
            if via == 'create':
                w.inst = w.R.create(**kw)
            elif via == 'save':
                w.inst = w.R(**kw)
                w.inst.save()
            else:
                with BatchQuery() as b:
                    w.inst = w.R.batch(b).create(**kw)
                w.inst.batch(None)
            w.sync = True
            w.must_exist(w.home, 'create-' + label)
            w.frame(before, (w.home,), (w.home[0],) if 'st' in kwargs else (), 'create-' + label)
        ops.append(('X.create-%s' % label, fn))
    create('full', {'st': 'a', 'v': 1, 's': {1, 2}})
    create('min', {})
    create('nostatic', {'v': 1, 's': {1}})
    create('falsy-values', {'st': '', 'v': 0})
    create('full-by-save', {'st': 'a', 'v': 1, 's': {1, 2}}, via='save')
    create('full-in-batch', {'st': 'a', 'v': 1, 's': {1}}, via='batch')

    def mutate(label, guard, apply, persist, static):
        def fn(w):
            i = w.inst
            if i is None or not w.sync or not guard(i):
                return False
            before = w.views()
            apply(i)
            getattr(i, persist)()
            w.frame(before, (w.key(),), (w.key()[0],) if static else (), '%s+%s' % (label, persist))
        ops.append(('X.%s+%s' % (label, persist), fn))
    mutate('v=7', lambda i: i.v != 7, lambda i: setattr(i, 'v', 7), 'save', False)
    mutate('v=0', lambda i: i.v != 0 or i.v is None, lambda i: setattr(i, 'v', 0), 'save', False)
    mutate('v=None', lambda i: i.v is not None, lambda i: setattr(i, 'v', None), 'save', False)
    mutate('st=b', lambda i: i.st != 'b', lambda i: setattr(i, 'st', 'b'), 'save', True)
    mutate('st=None', lambda i: i.st is not None, lambda i: setattr(i, 'st', None), 'save', True)
    mutate('s.add3', lambda i: i.s is not None and 3 not in i.s, lambda i: i.s.add(3), 'save', False)
    mutate('s=None,v=8', lambda i: bool(i.s), lambda i: (setattr(i, 's', None), setattr(i, 'v', 8)), 'save', False)
    mutate('v=7', lambda i: i.v != 7, lambda i: setattr(i, 'v', 7), 'update', False)
    mutate('st=b,v=None', lambda i: i.st != 'b' and i.v is not None, lambda i: (setattr(i, 'st', 'b'), setattr(i, 'v', None)), 'update', True)

    def update_kw(label, kwargs):
        def fn(w):
            if w.inst is None or not w.sync:
                return False
            before = w.views()
            w.inst.update(**kwargs)
            w.frame(before, (w.key(),), (), 'update(%s)' % label)
        ops.append(('X.update(%s)' % label, fn))
    update_kw('v=None', {'v': None})
    update_kw('s={5}', {'s': {5}})

    def delete(w):
        if w.inst is None or not w.sync:
            return False
        before = w.views()
        loc = w.key()
        w.inst.delete()
        w.inst, w.sync = None, False
        if w.loc_row(loc)[0]:
            raise Violation('C35/delete/row-remains', 'after delete() the row with key %r of %s still exists' % (loc, w.describe()))
        w.frame(before, (loc,), (), 'delete')
    ops.append(('X.delete', delete))

    def rekey(label, target):
        def fn(w):
            i = w.inst
            if i is None or not w.sync or not i._is_persisted:
                return False
            cur = w.key()
            if cur != w.home:
                return False
            new = target(w)
            if new is None or w.loc_row(new)[0]:
                return False
            before = w.views()
            if new[0] != cur[0] and before['st'][new[0]] is not None and i.st is None:
                return False
            for n, val in zip(w.keynames, new):
                if getattr(i, n) != val or type(getattr(i, n)) is not type(val):
                    setattr(i, n, val)
            i.save()
            w.must_exist(new, 'rekey-' + label)
            w.frame(before, (new,), (new[0],), 'rekey-%s+save' % label)
        ops.append(('X.rekey-%s+save' % label, fn))
    rekey('ck-flipped', lambda w: w.nkey)
    rekey('ck-third', lambda w: w.third)
    rekey('pk-flipped', lambda w: w.pkflip)

    def n_create(via):
        def fn(w):
            if w.loc_row(w.nkey)[0] or (w.inst is not None and w.key() == w.nkey):
                return False
            before = w.views()
            kw = dict(_kkw(w, w.nkey), v=100, s={100})
            if via == 'create':
                n = w.R.create(**kw)
            else:
                with BatchQuery() as b:
                    n = w.R.batch(b).create(**kw)
            w.must_exist(w.nkey, 'neighbour-create')
            got = w.loc_row(w.nkey)
            if got != (True, 100, frozenset([100])):
                raise Violation('C35/readback/v,s/neighbour-create', 'after create(%r) on %s the row reads back %r' % (kw, w.describe(), got))
            w.frame(before, (w.nkey,), (), 'neighbour-create')
        ops.append(('N.create' if via == 'create' else 'N.create-in-batch', fn))
    n_create('create')
    n_create('batch')

    def n_delete(w):
        if not w.loc_row(w.nkey)[0] or (w.inst is not None and w.key() == w.nkey):
            return False
        before = w.views()
        w.R.objects.filter(**_kkw(w, w.nkey)).delete()
        if w.loc_row(w.nkey)[0]:
            raise Violation('C35/qs-delete/row-remains', 'objects(%r).delete() on %s left the row' % (_kkw(w, w.nkey), w.describe()))
        w.frame(before, (w.nkey,), (), 'neighbour-qs-delete')
    ops.append(('qsN.delete', n_delete))

    def p_static(w):
        # all clustering values missing: the documented static-only save
        pkv = w.home[0]
        before = w.views()
        w.R.create(pk=pkv, st='p')
        if w.static(pkv) != 'p':
            raise Violation('C35/readback/st/static-only-create', 'after create(pk=%r, st=\'p\') on %s the static column of the partition reads %r' % (
                pkv, w.describe(), w.static(pkv)))
        if w.inst is not None and w.key()[0] == pkv:
            w.sync = False
        w.frame(before, (), (pkv,), 'static-only-create')
    ops.append(('P.create-static-only', p_static))

    def qs_update(label, kwargs, effect):
        def fn(w):
            loc = w.key()
            before = w.views()
            w.R.objects.filter(**_kkw(w, loc)).update(**kwargs)
            if w.inst is not None:
                w.sync = False
            ex, v, sset = before['rows'][loc]
            want = effect(v, sset)
            got = w.loc_row(loc)[1:]
            if got != want:
                raise Violation('C35/qs-update/%s/keys' % label, 'objects(%r).update(%s) on %s: row (v, s) was %r, is %r, documented effect gives %r' % (
                    _kkw(w, loc), label, w.describe(), (v, sset), got, want))
            w.frame(before, (loc,), (), 'qs-update(%s)' % label)
        ops.append(('qsX.update(%s)' % label, fn))
    qs_update('v=5', {'v': 5}, lambda v, s: (5, s))
    qs_update('v=0,s__add={3}', {'v': 0, 's__add': {3}}, lambda v, s: (0, frozenset(s or ()) | frozenset([3])))

    def qs_delete(w):
        loc = w.key()
        if not w.loc_row(loc)[0]:
            return False
        before = w.views()
        w.R.objects.filter(**_kkw(w, loc)).delete()
        if w.inst is not None:
            w.sync = False
        if w.loc_row(loc)[0]:
            raise Violation('C35/qs-delete/row-remains', 'objects(%r).delete() on %s left the row' % (_kkw(w, loc), w.describe()))
        w.frame(before, (loc,), (), 'qs-delete')
    ops.append(('qsX.delete', qs_delete))

    def reload(w):
        if w.inst is None or w.sync:
            return False
        got = w.R.objects.filter(**_kkw(w, w.key())).first()
        w.inst = got
        w.sync = got is not None
    ops.append(('X.reload', reload))

    def refetch(w):
        if w.inst is None or not w.sync or not w.loc_row(w.key())[0]:
            return False
        loc = w.key()
        got = w.R.objects.filter(**_kkw(w, loc)).first()
        if got is None:
            raise Violation('C35/refetch/row-missing', 'objects(%r).first() on %s found no row although the row exists' % (_kkw(w, loc), w.describe()))
        w.inst = got
    ops.append(('X.refetch', refetch))
    return ops


def k_execute(cfg, ops, seq):
    mq = models()['minicql']
    from cassandra.cqlengine.query import LWTException
    mi, combo = cfg
    w = KWorld(mi, tuple(combo))
    for k, oi in enumerate(seq):
        name, fn = ops[oi]
        nlog = len(w.backend.log)
        try:
            if fn(w) is False:
                return w, ('disabled', k)
            w.check_instance(strip_slot(name), tuple(q.split()[0] for q, _, _ in w.backend.log[nlog:]))
        except Violation as v:
            return w, ('violation', k, v.fp, v.what)
        except mq.InvalidRequest as e:
            last = w.session.calls[-1].query.split()[0] if w.session.calls else '?'
            return w, ('violation', k, 'C35/invalid-cql/%s/%s' % (last, '-'.join(str(e).lower().split()[:4])),
                       'cqlengine sent CQL that Cassandra rejects during %s on %s with key %r: %s; statements: %r' % (
                           name, w.describe(), w.home, e, [c.query for c in w.session.calls[-3:]]))
        except (mq.Unsupported, mq.ParseError) as e:
            raise HarnessError('interpreter cannot execute what cqlengine sent during %s (%r): %r' % (name, e, [c.query for c in w.session.calls[-3:]]))
        except HarnessError:
            raise
        except LWTException as e:
            return w, ('violation', k, 'C35/lwt/unexpected/%s' % strip_slot(name), 'unconditional step %s raised LWTException %r' % (name, e))
        except Exception as e:
            return w, ('violation', k, 'C35/raises/%s/%s' % (strip_slot(name), type(e).__name__),
                       'step %s on %s with key %r raised %r' % (name, w.describe(), w.home, e))
    return w, 'ok'


def run_keys(args):
    """Breadth-first search with state deduplication over the key-value alphabet for one (model, key of X)."""
    cfg, depth, order = args
    ops = k_ops()
    part = Part()
    seen = set([hash(KWorld(cfg[0], tuple(cfg[1])).canon())])
    frontier = [()]
    for level in range(depth):
        nxt = []
        for seq in frontier:
            for oi in order:
                s2 = seq + (oi,)
                w, status = k_execute(cfg, ops, s2)
                if status != 'ok' and status[0] == 'disabled':
                    if status[1] != len(seq):
                        raise HarnessError('prefix %r is not replayable: step %d disabled' % (seq, status[1]))
                    continue
                part.count('transitions')
                part.count('executions')
                part.count('key_layer_executions')
                part.count('evaluations', len(s2))
                names = [ops[i][0] for i in s2]
                if status != 'ok':
                    _, k, fp, what = status
                    if k != len(seq):
                        raise HarnessError('nondeterministic replay: prefix %r violated at step %d' % (names, k))
                    part.violation(fp, '%s   [trace: %s]' % (what, ' ; '.join(names)), {'keys': [cfg[0], list(cfg[1])], 'names': names})
                    part.outcome(('violation', fp))
                    continue
                part.outcome(('keys', strip_slot(names[-1]), tuple(q.split()[0] for q, _, _ in w.backend.log[-2:])))
                if 'f' in cfg[1] and len(w.backend.log) >= 1:
                    part.count('distinct_nontrivial')
                h = hash(w.canon())
                if h in seen:
                    continue
                seen.add(h)
                nxt.append(s2)
                part.sample({'model': w.describe(), 'key': repr(w.home), 'trace': names, 'statements': [q for q, _, _ in w.backend.log][-3:]}, limit=1)
        frontier = nxt
    part.count('key_layer_states', len(seen))
    return part


# ================================================================================ execution
def execute(ops, seq):
    """Run the operation indices `seq` in a fresh world.
    -> (world, status) with status 'ok' | ('disabled', k) | ('violation', k, fp, what)"""
    mq = models()['minicql']
    from cassandra.cqlengine.query import LWTException
    w = World()
    for k, oi in enumerate(seq):
        name, fn = ops[oi]
        nlog = len(w.backend.log)
        try:
            if fn(w) is False:
                return w, ('disabled', k)
            w.check_instances(strip_slot(name), tuple(q.split()[0] for q, _, _ in w.backend.log[nlog:]))
        except Violation as v:
            return w, ('violation', k, v.fp, v.what)
        except mq.InvalidRequest as e:
            last = w.session.calls[-1].query.split()[0] if w.session.calls else '?'
            return w, ('violation', k, 'C35/invalid-cql/%s/%s' % (last, '-'.join(str(e).lower().split()[:4])),
                       'cqlengine sent CQL that Cassandra rejects during %s: %s; statements: %r' % (name, e, [c.query for c in w.session.calls[-3:]]))
        except (mq.Unsupported, mq.ParseError) as e:
            raise HarnessError('interpreter cannot execute what cqlengine sent during %s (%r): %r' % (name, e, [c.query for c in w.session.calls[-3:]]))
        except HarnessError:
            raise
        except LWTException as e:
            return w, ('violation', k, 'C35/lwt/unexpected/%s' % strip_slot(name), 'unconditional step %s raised LWTException %r' % (name, e))
        except Exception as e:
            return w, ('violation', k, 'C35/raises/%s/%s' % (strip_slot(name), type(e).__name__), 'step %s raised %r' % (name, e))
    return w, 'ok'


def strip_slot(name):
    return name.split('.', 1)[1] if name[:2] in ('X.', 'Y.', 'Z.') else name


def expand(ops, seq, part, seen, frontier_out, order):
    """Try every operation after `seq`; new states go to frontier_out."""
    for oi in order:
        s2 = seq + (oi,)
        w, status = execute(ops, s2)
        if status != 'ok' and status[0] == 'disabled':
            if status[1] != len(seq):
                raise HarnessError('prefix %r is not replayable: step %d disabled' % (seq, status[1]))
            continue
        part.count('transitions')
        part.count('executions')
        part.count('evaluations', len(s2))
        names = [ops[i][0] for i in s2]
        if status != 'ok':
            _, k, fp, what = status
            if k != len(seq):
                raise HarnessError('nondeterministic replay: prefix %r violated at step %d' % (names, k))
            part.violation(fp, '%s   [trace: %s]' % (what, ' ; '.join(names)), {'seq': list(s2), 'names': names})
            part.outcome(('violation', fp))
            continue
        c = w.canon()
        h = hash(c)
        part.outcome((strip_slot(names[-1]), tuple(q.split()[0] for q, _, _ in w.backend.log[-2:])))
        if len(s2) >= 2 and len(w.backend.log) >= 2:
            part.count('distinct_nontrivial')
        if h in seen:
            continue
        seen.add(h)
        frontier_out.append(s2)
        part.sample({'trace': names, 'statements': [q for q, _, _ in w.backend.log][-4:], 'rows': {'X': repr(w.row_view('X')), 'Y': repr(w.row_view('Y'))}}, limit=1)


def run_subtree(args):
    import time
    kind, seqs, depth, order, deadline = args
    ops = alphabet(kind)
    part = Part()
    seen = set()
    frontier = [tuple(s) for s in seqs]
    level = len(frontier[0]) if frontier else 0
    while frontier and level < depth:
        nxt = []
        for n, seq in enumerate(frontier):
            if deadline and time.time() > deadline:
                part.count('capped_unexpanded_states_at_depth_%d_%s_alphabet' % (level + 1, kind), len(frontier) - n)
                part.count('capped_expanded_states_at_depth_%d_%s_alphabet' % (level + 1, kind), n)
                part.hashes = seen
                return part
            expand(ops, seq, part, seen, nxt, order)
        frontier = nxt
        level += 1
    part.hashes = seen
    return part


def search(ctx, kind, depth, all_hashes, deadline):
    ops = alphabet(kind)
    order = ctx.rotate(list(range(len(ops))))
    split_level = 2
    # levels 1..split_level in this process (global dedup), the rest in parallel per subtree
    part = Part()
    seen = set()
    seen.add(hash(World().canon()))
    frontier = [()]
    for level in range(min(split_level, depth)):
        nxt = []
        for seq in frontier:
            expand(ops, seq, part, seen, nxt, order)
        frontier = nxt
    part.counters.pop('states', None)
    ctx.merge(part)
    all_hashes |= seen
    if depth > split_level and frontier:
        n = ctx.nproc * 8
        chunks = [frontier[i::n] for i in range(n)]
        results = ctx.pmap(run_subtree, [(kind, c, depth, order, deadline) for c in chunks if c])
        for p in results:
            all_hashes |= p.hashes
            p.counters.pop('states', None)     # states are counted once, over all subtrees and searches
            ctx.merge(p)
    return len(ops)


def run(ctx):
    import time
    m = models()
    m['minicql'].selftest()
    all_hashes = set()
    if ctx.quick:
        plan = [('quick', 3)]
    else:
        plan = [('full', 4), ('deep', 5)]
    deadline = None if ctx.quick else time.time() + 540
    sizes = []
    for kind, depth in plan:
        sizes.append((kind, search(ctx, kind, depth, all_hashes, deadline), depth))
    kops = k_ops()
    korder = ctx.rotate(list(range(len(kops))))
    kdepth = K_DEPTH_QUICK if ctx.quick else K_DEPTH_THOROUGH
    kcfgs = ctx.rotate(k_configs())
    for p in ctx.pmap(run_keys, [(cfg, kdepth, korder) for cfg in kcfgs]):
        ctx.merge(p)
    ctx.count('states', len(all_hashes) + ctx.counters.get('key_layer_states', 0))
    capped = sorted(k for k in ctx.counters if k.startswith('capped_unexpanded'))
    if capped:
        ctx.cap('wall-clock budget (540 s) reached: %s; every shallower level of each search is complete' % '; '.join(
            '%s = %d (expanded there: %d)' % (k, ctx.counters[k], ctx.counters.get(k.replace('unexpanded', 'expanded'), 0)) for k in capped))
    ctx.cov['rule'] = ('searches (alphabet, size, depth): %r; operations: %s; every enabled sequence up to the depth is executed from an empty table on the '
                       'real cqlengine code; a state (canonical table content + per instance values / previous values / explicit flags / sync flag) is '
                       'expanded once (globally up to depth 2, per worker subtree below; the state count is the union); executions = sequences; '
                       'evaluations = steps executed and judged; non-trivial = a sequence of at least two steps in which at least two statements '
                       'reached the interpreter.  Key-value layer: %d (model, key of X) configurations = %d models %r x every falsy/truthy combination of the '
                       'key column values %r (an empty text/blob is not generated as the only partition key component), each searched breadth-first '
                       'with state deduplication to depth %d over the operations %s; non-trivial there = an execution with a falsy key value that sent a statement'
                       % (sizes, ', '.join(n for n, _ in alphabet('full' if ctx.thorough else 'quick')),
                          len(kcfgs), len(K_MODELS), K_MODELS, dict((t, (v[0], v[1])) for t, v in K_TYPES.items()), kdepth, ', '.join(n for n, _ in kops)))
    ctx.cov['exhaustive'] = not ctx.caps_hit
    for a in ASSUMPTIONS:
        ctx.assume(a)


ASSUMPTIONS = [
    'an instance keeps the BatchQuery it was last given; the harness detaches it (batch(None)) once the batch has run, as the documented pattern passes the batch explicitly each time',
    'query-set updates of static columns only address the partition (filter(pk=..)); nulling a static column together with regular columns through a (pk, ck) filter is not generated',
    'S1 INSERT/UPDATE are upserts; INSERT writes a row marker, UPDATE does not; a row exists iff marker or a live cell',
    'S2 null deletes the cell; an empty set/list/map is null',
    'S3 columns not named by a statement keep their value',
    'S4 static columns are per partition; static-only statements need only the partition key; regular columns need the full primary key; '
    'DELETE of listed columns with a partial primary key is rejected ("Range deletions are not supported for specific columns")',
    'S5 set + / -, list append / prepend (literal order kept, Cassandra >= 2.1) / remove, map put / key delete, whole-collection assignment; '
    'several non-assignment operations on one collection in one statement are legal and act on disjoint cells',
    'S6 counters: only c = c +/- n, missing counter = 0',
    'S7 IF NOT EXISTS / IF EXISTS / IF col = v semantics, non-applied statements change nothing',
    'S8 batches apply atomically; same-cell conflicts inside one batch are not generated (tie rules not modelled)',
    'S9 USING TTL has no visible effect (no time passes); USING TIMESTAMP is not generated',
    'an absent row and a row whose columns are all null are not distinguished by the read-back oracle',
    'nested collections: the inner collection is frozen, i.e. one cell value that is replaced as a whole ("nm"[k] = <list>, whole-list '
    'rewrite of nl) and compared by value; an inner collection is never emptied by the generated operations (a frozen empty collection is '
    'a value distinct from null in Cassandra, while the interpreter stores every empty collection as null)',
    'refetch builds the instance from the row the interpreter returns for SELECT ... WHERE pk = .. AND ck = .. (nested values arrive as '
    'dict / list of tuple / frozenset; the real driver hands over OrderedMapSerializedKey / SortedSet, container class is not the subject here)',
    'saving a persisted instance after assigning a key column writes the whole instance under the new key (read-back at the new key equals the '
    'instance) and does not address the row under the old key; moves onto an existing row, or into a partition whose stored static column is set '
    'while the instance has none, are upserts over stored values: not generated; update() after a key assignment and key assignment on counter '
    'models are not generated (meaning not documented)',
    'operations through an instance whose row was changed by someone else since its last operation (stale instance) are not generated; reload() regains sync',
    'create()/save() of a new instance over an existing row, or in a partition whose static column is set without passing it, is an upsert whose '
    'unspecified columns keep their stored values: not generated',
    'query-set update of a counter column and counter create/save other than through update() semantics are not generated',
    'key-value layer: create()/save() of an instance all of whose clustering values are None and that carries a static value is the documented static-only '
    'save (writes the partition\'s static column, no row); any other create()/save() of a new instance makes its row exist (INSERT row marker) even when every '
    'non-key column is null; a clustering or partition key value that is falsy but not None (0, \'\', False, 0.0, Decimal(0), b\'\') is a key value like any other; '
    'an empty text/ascii/blob value is not generated as the only partition key component (Cassandra rejects an empty partition key); -0.0, NaN and empty frozen '
    'collections as key values are not generated',
    'documented query-set update semantics: plain keyword overwrites the column (containers included), None deletes it, __add/__remove/__append/'
    '__prepend/__update/__remove apply their operand; an empty operand changes nothing',
]


def replay(ctx, data):
    if 'keys' in data:
        ops = k_ops()
        idx = dict((n, i) for i, (n, _) in enumerate(ops))
        cfg = (data['keys'][0], tuple(data['keys'][1]))
        w, status = k_execute(cfg, ops, [idx[n] for n in data['names']])
        print('model:', w.describe(), 'key of X:', w.home, 'trace:', ' ; '.join(data['names']))
        for q, p, r in w.backend.log:
            print('   ', q, p, '->', r)
        print('status:', status)
        return status != 'ok' and status[0] == 'violation'
    quick_ops = alphabet('quick')
    full_ops = alphabet('full')
    names = data['names']
    for ops in (quick_ops, full_ops):
        idx = dict((n, i) for i, (n, _) in enumerate(ops))
        if all(n in idx for n in names):
            seq = [idx[n] for n in names]
            w, status = execute(ops, seq)
            print('trace:', ' ; '.join(names))
            for q, p, r in w.backend.log:
                print('   ', q, p, '->', r)
            print('status:', status)
            return status != 'ok' and status[0] == 'violation'
    raise HarnessError('operation names of the recorded trace are not in the alphabet: %r' % (names,))
