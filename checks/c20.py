"""C20 Switching the session keyspace is applied everywhere or reported.

History layer (engine E): breadth-first search over histories of {answer any held USE (success / InvalidRequest /
server error), lose any pool connection, route another request to a pool with a dead connection, run the next
executor task, let the next scheduled task fall due, fire the client timer} on a real Session with 2-3 pools
(protocol v4 HostConnection, protocol v2 HostConnectionPool), the switch issued by `USE ks2` or `set_keyspace`.
Histories with a second switch (the retry of the same switch, a switch to another keyspace, back to the first one)
issued after the first one completed, and histories in which a client-side timeout marks a connection for
replacement while it stays open (orphaned-stream threshold), are explored in configurations of their own.  In the
'suspend' configurations executor tasks are not atomic: a task (pool creation, connection replacement) is suspended in
every blocking wait for the answer to a USE of its own, both switches of the application may happen meanwhile, and one
of those USEs may fail (InvalidRequest, server error, connection lost).
Schedule layer (engine S): the reactor thread delivering the USE result and the server's answers against the
executor thread replacing a lost or marked connection / creating a pool (and the application thread issuing a second
switch), every schedule within the preemption bound; in the own-use-fails scenarios the node also fails one of the
USEs the executor thread sends itself, so the hand-over of a *failing* answer from the reactor thread to the waiting
executor thread is scheduled line by line.
The harnesses, the oracle and the canonical state are in vt/c20lib.py.
"""
from vt import explore, sched
from vt import c20lib      # noqa: F401  imported here so that forked workers inherit the loaded driver
from vt.c20lib import H, sched_harness
from vt.connlib import quiet_driver_logs
from vt.core import Ctx, HarnessError, Part

META = {
    'level': 'model_checking',
    'engine': 'E+S',
    'technique': 'explicit-state BFS over USE-answer / connection-loss / task / reconnection histories with canonical-state dedup, '
                 'plus preemption-bounded schedule exploration of the switch against connection replacement and pool creation, '
                 'all on the real Session, pools and connections',
    'text': 'A real Session over 2-3 virtual nodes switches keyspace (execute_async("USE ks2") and set_keyspace("ks2"); session '
            'started with and without a keyspace; protocol v4 HostConnection pools and protocol v2 HostConnectionPool with 1-2 '
            'connections per host; hosts convicted on the first connection failure or never).  The server holds every USE the '
            'switch sends; the explorer answers each one in any order with success / InvalidRequest / server error, may lose any '
            'pool connection at any point (idle, with the USE pending, before the switch arrives), route another request to a '
            'pool whose connection is dead (so the pool shuts down or schedules a replacement), run the next executor task, let '
            'the next scheduled (reconnection) task fall due, fire the client timer.  Two-switch configurations (2 hosts, v4 and '
            'v2 pools): once a switch has completed and the server holds nothing the application may issue its next switch - '
            'the same target again (the retry of a switch that reported an error), another keyspace (ks1 -> ks2 -> ks3 via '
            'set_keyspace) or back to the first one (ks1 -> ks2 -> ks1) - with the same alphabet, so every combination of '
            'per-pool outcomes of the first switch is followed by every combination for the second.  Orphan configuration '
            '(v4, connection class with orphaned_threshold = 1): at any point one request of the application to a host may '
            'time out on the client, which marks that pool connection for replacement while it stays open; a later request '
            'to the pool schedules HostConnection._replace, which then runs (as a task) before, between or after the USE '
            'being sent and answered on the old connection.  Suspended-task configurations (2 hosts, two switches ks1 -> ks2 '
            '-> ks3; v4 and v2 pools; session started with and without a keyspace): an executor task runs as a coroutine; the '
            'server also holds the blocking USEs the task itself sends (HostConnection / HostConnectionPool constructor, the '
            'catch-up USE of Session.add_or_renew_pool after the keyspace changed during pool creation, the USE on a '
            'replacement connection) and the task is suspended in the wait for each, where the executor thread would be '
            'blocked; the explorer then interleaves every other event - the result of the application\'s USE, pool answers, '
            'the application\'s next switch (allowed while only USEs of a task are held), the answer to the task\'s USE, and, '
            'as an event of its own, the task continuing - so zero, one or both switches complete between any two waits '
            'of a pool creation whose pool is not yet the session\'s (renew: the creation task of the last host\'s pool is '
            'queued when the history starts) or of a connection replacement (one connection loss).  In these configurations '
            'a USE of a task is answered like every pool USE: with success or - at most once per history - with InvalidRequest, '
            'a server error, or not at all because its connection is lost while it is pending (constructor USE of the new pool, '
            'catch-up USE, USE on a replacement connection; the task then gives the host up / retries, and the history goes on '
            'with the reconnection and the next pool creation).  Quick: all histories to depth 7 (convicting, 3 hosts) and the '
            'complete reachable state space of the other configurations; thorough: deeper, with two losses, two switches '
            'also on 3 hosts / convicting / two v2 connections per host, suspended pool creation also with set_keyspace, '
            'back to the first keyspace, a connection loss, 3 hosts.  '
            'Schedule layer: reactor thread (delivers the USE result at a scheduler-chosen moment, then every server answer) '
            'against the executor thread running HostConnection._replace (pool without connection; pool whose open connection '
            'is marked for replacement) / HostConnectionPool._retrying_replace or '
            'Session.add_or_renew_pool, scheduling points at every virtual primitive and every source line of the switch, '
            'replacement and pool-creation functions, preemption bound 1 (thorough: bound 2 for the v4 replacement scenario).  '
            'Two-switch schedule scenario (pool creation, session in ks1): a third thread, the application, issues USE ks3 '
            'as soon as USE ks2 has reported its outcome; the result of each of the two statements reaches the client at '
            'a moment the scheduler chooses; every order of the three threads at their blocking points (preemption bound 0; '
            'thorough: also v2 pool creation and v4 connection replacement).  '
            'Own-use-fails schedule scenarios (quick: v4 pool creation with the session in ks1, v4 connection replacement; '
            'thorough: also v2, replacement with the session in ks1, replacement of a marked connection, two switches): as above, '
            'and whenever the executor thread sends a USE of its own the node\'s answer is a choice - success, or once per '
            'execution InvalidRequest / server error / connection reset instead of an answer; the reactor thread delivers that '
            'failure at a moment the scheduler chooses and is preempted at any virtual primitive (Event.set of the waiter and '
            'of the catch-up event included) or source line of Session.add_or_renew_pool and its nested callback, the pool '
            'constructors, _set_keyspace_for_all_conns of both pool classes and their nested callbacks, HostConnection._replace, '
            'HostConnectionPool._add_conn_if_under_max / _retrying_replace, Connection.set_keyspace_blocking and '
            'ResponseWaiter.got_response / deliver, while the executor thread wakes up and goes on (preemption bound 1).  '
            'Oracle, for the latest switch, in every state and again after the default '
            'continuation (every held USE answered successfully, every task run, every scheduled task fired, no client timer): '
            '(1) the switch has completed; (2) if it reports success and no USE of this switch was failed, every probe request '
            'sent afterwards to every pool is carried by a connection on which the *server* has the target keyspace of this '
            'switch selected (the server selects what each USE statement it answers successfully names); (3) if the explorer '
            'failed the USE of any pool in this switch (error answer or connection lost while pending) the switch reports an '
            'error, and the error of the switch names every failing host.  A failed USE of a task is not a USE of the switch '
            '(the pool or connection is not in service yet), so it is judged by clause (2) alone: a connection on which it '
            'failed must never carry a request after a switch that reported success.',
    'note': 'Handlers are atomic in the history layer (executor tasks of the suspended-task configurations: atomic between '
            'two blocking waits; one executor worker, the next task starts when the one under way has ended; the blocking waits '
            'of a task do not time out); intra-handler preemption is covered by the schedule layer at source-line '
            'granularity within the preemption bound.  The canonical state of the history layer is compared against no-dedup '
            'runs in the thorough tier.  A client-side request timeout is not counted as the switch completing.  USEs issued '
            'from executor tasks (blocking ones on replacement connections / new pools) are answered successfully in the '
            'configurations with atomic tasks; where they can fail, at most one of them fails per history / execution and none '
            'times out.  With the never-convicting policy a host whose pool could not be created stays without a pool '
            '(no request is routed to it; that is not a violation of this property).  '
            'Two overlapping switches are not explored (the next switch is issued only after the previous one completed and '
            'when no USE is held).  In two-switch histories a node does not answer InvalidRequest to the USE of the keyspace '
            'it has selected on that very connection (i.e. the keyspace is not dropped between the application\'s USE and the '
            'pool\'s USE on the connection that carried it).  A connection marked for replacement is not lost or defuncted as '
            'well before it has been replaced.  The clause "names every failing host" comes from the docstring of '
            'Session._set_keyspace_for_all_pools and has its own fingerprint.',
    'design_ref': 'C20',
}

KINDS3 = ['ok', 'invalid', 'server_error']
KINDS2 = ['ok', 'invalid']
# schedule layer: how the USE an executor task sends itself may fail (at most one failure per execution), and the
# functions whose lines are scheduling points in those scenarios
OWN_USE_FAILS = dict(task_faults=('invalid', 'server_error', 'lost'), focus='own-use')


def e_configs(ctx):
    base = dict(hosts=3, proto=4, ks0=None, convict=True, entry='use', timeout=None, kinds=KINDS3, max_defunct=1)
    never = dict(base, convict=False)
    full = 40          # "to exhaustion": the reachable space of these configurations ends before this depth (deepest: 28)
    two = dict(never, hosts=2)
    cfgs = [
        ('v4-convict', dict(base), 7),
        ('v4-never', dict(never), full),
        ('v4-never-ks1-setks', dict(never, ks0='ks1', entry='set_keyspace'), full),
        ('v4-never-timer', dict(never, timeout=10.0, timers=True, kinds=KINDS2), full),
        ('v2-core1', dict(never, proto=2, core=1, hosts=2), full),
        ('v2-core2', dict(never, proto=2, core=2, hosts=2, kinds=KINDS2), full),
        # a second switch after the first one completed: retry of the same target, another target, back again
        ('v4-2sw-same', dict(two, switches=('ks2', 'ks2')), full),
        ('v4-2sw-other-setks', dict(two, ks0='ks1', entry='set_keyspace', switches=('ks2', 'ks3'), kinds=KINDS2), full),
        ('v4-2sw-back', dict(two, ks0='ks1', switches=('ks2', 'ks1'), kinds=KINDS2), full),
        ('v2-core1-2sw-same', dict(two, proto=2, core=1, switches=('ks2', 'ks2'), kinds=KINDS2), full),
        # a connection marked for replacement (orphaned-stream threshold) while it stays open
        ('v4-orphan', dict(two, kinds=KINDS2, max_orphan=1), full),
        # executor tasks suspended in their blocking waits (not atomic): the pool of a host is being created / a lost
        # connection is being replaced while the application switches twice
        # (max_task_faults = 1: one of the USEs a task sends itself is answered with an error / its connection is lost)
        ('v4-renew-2sw', dict(two, ks0='ks1', switches=('ks2', 'ks3'), kinds=KINDS2, max_defunct=0, renew=True, suspend=True,
                              max_task_faults=1), full),
        ('v4-renew-2sw-noks', dict(two, switches=('ks2', 'ks3'), kinds=KINDS2, max_defunct=0, renew=True, suspend=True,
                                   max_task_faults=1), full),
        ('v2-core1-renew-2sw', dict(two, proto=2, core=1, ks0='ks1', switches=('ks2', 'ks3'), kinds=KINDS2, max_defunct=0,
                                    renew=True, suspend=True, max_task_faults=1), full),
        ('v4-replace-2sw-suspend', dict(two, ks0='ks1', switches=('ks2', 'ks3'), kinds=KINDS2, suspend=True,
                                        max_task_faults=1), full),
    ]
    if ctx.thorough:
        cfgs = [
            ('v4-convict', dict(base), 10),
            ('v4-convict-ks1-setks', dict(base, ks0='ks1', entry='set_keyspace', kinds=KINDS2), 9),
            ('v4-convict-2hosts', dict(base, hosts=2), 13),
            ('v4-never', dict(never), full),
            ('v4-never-ks1', dict(never, ks0='ks1'), full),
            ('v4-never-setks', dict(never, entry='set_keyspace'), full),
            ('v4-never-2losses', dict(never, max_defunct=2, kinds=KINDS2), 12),
            ('v4-never-timer', dict(never, timeout=10.0, timers=True, kinds=KINDS2), full),
            ('v2-core1', dict(never, proto=2, core=1, hosts=2), full),
            ('v2-core1-ks1', dict(never, proto=2, core=1, hosts=2, ks0='ks1'), full),
            ('v2-core1-3hosts', dict(never, proto=2, core=1, hosts=3), full),
            ('v2-core2', dict(never, proto=2, core=2, hosts=2), 11),
            ('v2-core1-convict', dict(base, proto=2, core=1, hosts=2), 10),
            ('v4-2sw-same', dict(two, switches=('ks2', 'ks2')), full),
            ('v4-2sw-other-setks', dict(two, ks0='ks1', entry='set_keyspace', switches=('ks2', 'ks3')), full),
            ('v4-2sw-back', dict(two, ks0='ks1', switches=('ks2', 'ks1')), full),
            ('v4-2sw-same-3hosts', dict(never, switches=('ks2', 'ks2'), kinds=KINDS2), full),
            ('v4-2sw-same-convict', dict(base, hosts=2, switches=('ks2', 'ks2'), kinds=KINDS2), 12),
            ('v2-core1-2sw-same', dict(two, proto=2, core=1, switches=('ks2', 'ks2')), full),
            ('v2-core1-2sw-other', dict(two, proto=2, core=1, ks0='ks1', switches=('ks2', 'ks3'), kinds=KINDS2), full),
            ('v2-core2-2sw-same', dict(two, proto=2, core=2, switches=('ks2', 'ks2'), kinds=KINDS2), full),
            ('v4-orphan', dict(two, kinds=KINDS2, max_orphan=1), full),
            ('v4-orphan-ks1-setks', dict(two, kinds=KINDS2, max_orphan=1, ks0='ks1', entry='set_keyspace'), full),
            ('v4-orphan-3hosts', dict(never, kinds=KINDS2, max_orphan=1, max_defunct=0), full),
            ('v4-renew-2sw', dict(two, ks0='ks1', switches=('ks2', 'ks3'), max_defunct=0, renew=True, suspend=True,
                                  max_task_faults=1), full),
            ('v4-renew-2sw-noks', dict(two, switches=('ks2', 'ks3'), kinds=KINDS2, max_defunct=0, renew=True, suspend=True,
                                       max_task_faults=1), full),
            ('v4-renew-2sw-setks', dict(two, ks0='ks1', entry='set_keyspace', switches=('ks2', 'ks3'), kinds=KINDS2, max_defunct=0,
                                        renew=True, suspend=True, max_task_faults=1), full),
            ('v4-renew-2sw-back', dict(two, ks0='ks1', switches=('ks2', 'ks1'), kinds=KINDS2, max_defunct=0, renew=True,
                                       suspend=True, max_task_faults=1), full),
            ('v4-renew-2sw-loss', dict(two, ks0='ks1', switches=('ks2', 'ks3'), kinds=KINDS2, renew=True, suspend=True), full),
            ('v4-renew-2sw-3hosts', dict(never, ks0='ks1', switches=('ks2', 'ks3'), kinds=KINDS2, max_defunct=0, renew=True,
                                         suspend=True, max_task_faults=1), full),
            ('v4-renew-2sw-convict', dict(base, hosts=2, ks0='ks1', switches=('ks2', 'ks3'), kinds=KINDS2, max_defunct=0,
                                          renew=True, suspend=True, max_task_faults=1), full),
            ('v2-core1-renew-2sw', dict(two, proto=2, core=1, ks0='ks1', switches=('ks2', 'ks3'), kinds=KINDS2, max_defunct=0,
                                        renew=True, suspend=True, max_task_faults=1), full),
            ('v4-replace-2sw-suspend', dict(two, ks0='ks1', switches=('ks2', 'ks3'), kinds=KINDS2, suspend=True,
                                            max_task_faults=1), full),
            ('v2-core1-replace-2sw-suspend', dict(two, proto=2, core=1, ks0='ks1', switches=('ks2', 'ks3'), kinds=KINDS2,
                                                  suspend=True, max_task_faults=1), full),
        ]
    return cfgs


def s_configs(ctx):
    base = dict(hosts=2, proto=4, ks0=None, convict=False, entry='use', timeout=None)
    cfgs = [
        ('replace-v4', dict(base, scenario='replace'), 1),
        ('renew-v4-ks1', dict(base, scenario='renew', ks0='ks1'), 1),
        ('replace-v2', dict(base, scenario='replace', proto=2, core=1), 1),
        ('replace-orphaned-v4', dict(base, scenario='replace-orphaned'), 1),
        # two switches while the pool is being created (application thread; blocking points and the arrival of
        # each USE result are free choices, so bound 0 already covers every order of the three parties at their waits)
        ('renew-v4-ks1-2sw', dict(base, scenario='renew', ks0='ks1', switches=('ks2', 'ks3')), 0),
        # the node fails one of the USEs the executor thread sends itself (a choice at each of them); scheduling points
        # at the virtual primitives and the lines of pool creation / replacement and of the hand-over of the answer
        ('renew-v4-ks1-own-use-fails', dict(base, scenario='renew', ks0='ks1', **OWN_USE_FAILS), 1),
        ('replace-v4-own-use-fails', dict(base, scenario='replace', **OWN_USE_FAILS), 1),
    ]
    if ctx.thorough:
        cfgs = [
            ('replace-v4', dict(base, scenario='replace'), 2),
            ('renew-v4-ks1', dict(base, scenario='renew', ks0='ks1'), 1),
            ('replace-v2', dict(base, scenario='replace', proto=2, core=1), 1),
            ('replace-v4-ks1', dict(base, scenario='replace', ks0='ks1'), 1),
            ('renew-v4', dict(base, scenario='renew'), 1),
            ('replace-v2-ks1', dict(base, scenario='replace', proto=2, core=1, ks0='ks1'), 1),
            ('renew-v2', dict(base, scenario='renew', proto=2, core=1), 1),
            ('replace-orphaned-v4', dict(base, scenario='replace-orphaned'), 1),
            ('replace-orphaned-v4-ks1', dict(base, scenario='replace-orphaned', ks0='ks1'), 1),
            ('renew-v4-ks1-2sw', dict(base, scenario='renew', ks0='ks1', switches=('ks2', 'ks3')), 0),
            ('renew-v2-ks1-2sw', dict(base, scenario='renew', proto=2, core=1, ks0='ks1', switches=('ks2', 'ks3')), 0),
            ('replace-v4-ks1-2sw', dict(base, scenario='replace', ks0='ks1', switches=('ks2', 'ks3')), 0),
            ('renew-v4-ks1-own-use-fails', dict(base, scenario='renew', ks0='ks1', **OWN_USE_FAILS), 1),
            ('renew-v2-ks1-own-use-fails', dict(base, scenario='renew', ks0='ks1', proto=2, core=1, **OWN_USE_FAILS), 1),
            ('replace-v4-own-use-fails', dict(base, scenario='replace', **OWN_USE_FAILS), 1),
            ('replace-v4-ks1-own-use-fails', dict(base, scenario='replace', ks0='ks1', **OWN_USE_FAILS), 1),
            ('replace-v2-own-use-fails', dict(base, scenario='replace', proto=2, core=1, **OWN_USE_FAILS), 1),
            ('replace-orphaned-v4-own-use-fails', dict(base, scenario='replace-orphaned', **OWN_USE_FAILS), 1),
            ('renew-v4-ks1-2sw-own-use-fails', dict(base, scenario='renew', ks0='ks1', switches=('ks2', 'ks3'),
                                                    **OWN_USE_FAILS), 0),
        ]
    return cfgs


def dedup_differential(ctx):
    """Guard against a too-coarse canonical state: with dedup switched off (state = history) the same fingerprints
    and the same observed outcomes must be reached at the same depth."""
    never = dict(hosts=3, proto=4, ks0=None, convict=False, entry='use', timeout=None, kinds=KINDS2, max_defunct=1)
    for name, params, depth in (('v4-never', never, 6), ('v2-core1', dict(never, proto=2, core=1, hosts=2), 7),
                                ('v4-2sw-same', dict(never, hosts=2, switches=('ks2', 'ks2')), 10),
                                ('v4-2sw-back', dict(never, hosts=2, ks0='ks1', switches=('ks2', 'ks1')), 9),
                                ('v4-orphan', dict(never, hosts=2, max_orphan=1), 8),
                                ('v4-renew-2sw', dict(never, hosts=2, ks0='ks1', switches=('ks2', 'ks3'), max_defunct=0,
                                                      renew=True, suspend=True, max_task_faults=1), 13)):
        seen = []
        for nodedup in (False, True):
            sub = Ctx(ctx.prop, tier=ctx.tier, seed=ctx.seed, silent=True)
            sub.nproc = ctx.nproc
            info = explore.bfs(sub, H, dict(params, nodedup=nodedup), max_depth=depth, label='diff')
            seen.append((set(sub._viol), set(sub.outcomes), info['transitions']))
        if seen[0][0] != seen[1][0] or seen[0][1] != seen[1][1]:
            raise HarnessError('dedup differential %s: with dedup %r / %r, without %r / %r'
                               % (name, sorted(seen[0][0]), sorted(seen[0][1]), sorted(seen[1][0]), sorted(seen[1][1])))
        ctx.count('dedup_differential_transitions', seen[0][2] + seen[1][2])
        ctx.cov.setdefault('dedup_differential', {})[name] = {'depth': depth, 'transitions_with_dedup': seen[0][2],
                                                              'transitions_without_dedup': seen[1][2],
                                                              'same_fingerprints_and_outcomes': True}


def run(ctx):
    quiet_driver_logs()
    for name, params, depth in e_configs(ctx):
        info = explore.bfs(ctx, H, params, max_depth=depth, label='c20-' + name, max_states=400000 if ctx.thorough else 60000)
        info['reachable_space_exhausted'] = info['complete_to_depth'] and info['depth_reached'] < depth
    if ctx.thorough:
        dedup_differential(ctx)
    explore.close_pool()
    # (the cyclic collection after an execution costs more than the execution itself: collect after every 8th; the
    # collector is off inside every execution whatever this is, see sched.gc_quiet)
    gc_every, sched.GC_EVERY = sched.GC_EVERY, 8
    try:
        for name, params, bound in s_configs(ctx):
            sched.explore(ctx, 'c20-' + name, sched_harness, params, bound)
    finally:
        sched.GC_EVERY = gc_every
    ctx.cov['preemption_bound'] = max(b for _, _, b in s_configs(ctx))
    ctx.cov['rule'] = ('history layer: state = event history replayed on a fresh real Session, deduplicated on (future, session keyspace, '
                       'pools, hosts, connections incl. server-side keyspace, held requests, queued/scheduled tasks, timers, oracle memory, '
                       'USEs sent by executor tasks and whether a task is suspended / can continue); '
                       'transitions = executions; non-trivial = distinct state reached after the switch arrived in which a USE was failed, '
                       'a connection was lost or marked for replacement, some pool was not open or was being created, the switch is not '
                       'the first one, or a USE of an executor task was failed.  '
                       'Schedule layer: executions = distinct schedules within the '
                       'preemption bound; non-trivial = a non-default scheduling choice was taken or a USE of the executor thread was failed.  '
                       'outcomes = ([for a later switch: same/other '
                       'target, outcomes of the earlier switches,] pool situations when the switch arrived | scenario, failure kinds '
                       'injected in this switch (own-USE-<kind>: on a USE of an executor task), outcome of the switch after the default '
                       'continuation)')
    ctx.assume('handlers are atomic with respect to each other in the history layer; source-line atomicity in the schedule layer (DESIGN.md 3.1)')
    ctx.assume('virtual server answers are well-formed protocol v4 / v2 frames; a USE answered successfully is selected server-side')
    ctx.assume('USEs sent from executor tasks (replacement connections, new pools) are answered by the server: successfully in the '
               'configurations with atomic tasks; in the suspended-task configurations and the own-use-fails schedule scenarios at most '
               'one of them per history / execution fails (InvalidRequest, server error, connection lost while it is pending), and '
               'the answer comes before the wait for it times out')
    ctx.assume('a USE that an executor task sends itself on a connection that is not in service yet (new pool, replacement '
               'connection) is not a USE of the switch: its failure need not be reported by the switch, but no connection on which '
               'it failed may carry a request after a switch that reported success (clause 2 of the oracle)')
    ctx.assume('suspended-task configurations: one executor worker (no other task starts while one is suspended in a wait)')
    ctx.assume('a client-side request timeout is not a completion of the switch (the no-timeout configurations make this moot)')
    ctx.assume('one keyspace switch at a time (the next one is issued after the previous one completed and no USE is held); '
               'hosts accept new connections')
    ctx.assume('two-switch histories: a node does not reject (InvalidRequest) the USE of the keyspace it has selected on that very '
               'connection, i.e. the keyspace is not dropped between the application\'s USE and the pool\'s USE on the connection '
               'that carried it (the driver-side record of that connection would then stay behind the server; not explored)')
    ctx.assume('a connection marked for replacement (orphaned-stream threshold reached) is not lost / defuncted as well before '
               'HostConnection._replace has published its successor (a request routed to it then spins in borrow_connection '
               'until its timeout); orphaned_threshold = 1 stands for any threshold')


def replay(ctx, data):
    quiet_driver_logs()
    if 'history' in data:
        part = explore.replay(H, data['params'], [tuple(e) for e in data['history']])
    else:
        part = Part()
        sched_harness(data['params'], data['prefix'], part)
    for fp, what, _ in part.violations:
        print(fp, '::', what)
    return bool(part.violations)
