"""C21 Load-balancing plans reflect the live cluster membership.

Engine E: breadth-first search over histories of membership events, delivered to each built-in
policy the way the cluster delivers them (through the real ProfileManager, the real
Cluster.add_execution_profile and the real ControlConnection._update_location_info), on real
cassandra.pool.Host objects in a real Metadata.  In every state the plans and distances of every
registered policy instance are judged by the reference live-set model vt/spec/lbpref.py.
"""
from vt import explore
from vt.core import Part
from vt.world import vworld   # noqa: F401  imported here so that forked workers inherit the loaded driver
from vt.spec import lbpref

META = {
    'level': 'model_checking',
    'engine': 'E',
    'technique': 'explicit-state BFS over membership-event histories on the real policies/ProfileManager/Host/Metadata, canonical-state dedup, reference live-set model',
    'text': 'For each built-in load-balancing policy configuration: all histories up to the depth bound of {connect with 1-2 contact points '
            '(hosts without datacenter, populate), host up, host down (also of hosts not up), host added, host removed, datacenter change, '
            'rack change (on_down/set_location_info/on_up as ControlConnection._update_location_info does), add_execution_profile of a second '
            'instance (populate with all known hosts in metadata order, then on_up per up host), and at most one event carrying a stale Host '
            'object of a removed-and-re-added node}.  In every state, for every registered instance, several consecutive plans (and one per '
            'target host for DefaultLoadBalancingPolicy; with query None and with a statement without routing key for TokenAwarePolicy): no '
            'duplicates; exactly the hosts reported live to the policy and not ignored; datacenter-aware: every live local host first, then at '
            'most N (and, unfiltered, min(N, live)) per remote datacenter, members LOCAL/REMOTE by position, live hosts left out IGNORED; '
            'filtered / not white-listed hosts never yielded and IGNORED.  HostFilterPolicy (over RoundRobin and DCAwareRoundRobin children) is run '
            'with predicates by address and by the host\'s location now (datacenter excluded, rack excluded, only one datacenter accepted); the '
            'oracle evaluates a location predicate on the location the host has in the judged state.  Configurations named +observed (all '
            'location predicates and one configuration per policy class in quick, every configuration in thorough) request and judge the plans '
            'and distances of every instance after every event of the history, not only in its last state, so that plans are taken before and '
            'after each location / membership change within one history.',
    'note': 'Events reach the policies in the order the cluster code calls them (single-threaded histories).  Host.broadcast_rpc_address is '
            'set when the Host is created.  randint is rebound to 0; every rotation is accepted by the oracle.',
    'design_ref': 'C21',
}

DCS = ['dc1', 'dc2', 'dc3']


def addr(i):
    return '10.0.0.%d' % (i + 1)


def make_policy(spec):
    from cassandra import policies as P
    k = spec[0]
    if k == 'rr':
        return P.RoundRobinPolicy()
    if k == 'dcaware':
        return P.DCAwareRoundRobinPolicy(spec[1], spec[2])
    if k == 'whitelist':
        if len(spec) > 2 and spec[2] == 'names':
            # white list given as host names: name resolution is environment, owned here
            P.socket = _Resolver
            return P.WhiteListRoundRobinPolicy(['node%d.test' % i for i in sorted(spec[1])])
        return P.WhiteListRoundRobinPolicy([addr(i) for i in sorted(spec[1])])
    if k == 'filter':
        rule = spec[2]
        if isinstance(rule, tuple):
            # predicates on the host's location now ("drain this datacenter / rack", "only this datacenter")
            what, name = rule
            pred = {'dc': lambda h: h.datacenter != name,
                    'rack': lambda h: h.rack != name,
                    'onlydc': lambda h: h.datacenter == name}[what]
            return P.HostFilterPolicy(make_policy(spec[1]), pred)
        ex = frozenset(addr(i) for i in rule)
        return P.HostFilterPolicy(make_policy(spec[1]), lambda h: h.address not in ex)
    if k == 'wrap':
        child = make_policy(spec[1])
        return P.TokenAwarePolicy(child) if spec[2] == 'tokenaware' else P.DefaultLoadBalancingPolicy(child)
    raise ValueError(spec)


class _Resolver(object):
    """Stands in for the `socket` module inside cassandra.policies: nodeN.test resolves to addr(N)."""
    import socket as _s
    AF_UNSPEC, SOCK_STREAM, AF_INET = _s.AF_UNSPEC, _s.SOCK_STREAM, _s.AF_INET
    getfqdn = staticmethod(_s.getfqdn)

    @staticmethod
    def getaddrinfo(host, port, family=0, type=0, proto=0, flags=0):
        import socket
        if isinstance(host, str) and host.startswith('node') and host.endswith('.test'):
            host = addr(int(host[4:-5]))
        return [(socket.AF_INET, socket.SOCK_STREAM, 6, '', (host, port or 0))]


def tup(x):
    """params travel through JSON in replay artefacts: lists back to tuples / frozensets"""
    if isinstance(x, (list, tuple)):
        x = tuple(tup(e) for e in x)
        if x and x[0] == 'whitelist':
            return ('whitelist', frozenset(x[1])) + tuple(x[2:])
        if x and x[0] == 'filter':
            if isinstance(x[2], tuple) and x[2] and isinstance(x[2][0], str):
                return ('filter', x[1], tuple(x[2]))
            return ('filter', x[1], frozenset(x[2]))
        return x
    return x


def plain(spec):
    """JSON-able form of a spec"""
    if isinstance(spec, (tuple, list)):
        return [plain(e) for e in spec]
    if isinstance(spec, frozenset):
        return sorted(spec)
    return spec


class FakeCluster(object):
    """The attributes of Cluster that add_execution_profile, the policies and _update_location_info read."""
    is_shutdown = False
    _contact_points_explicit = True

    def __init__(self):
        from cassandra.cluster import ProfileManager, _ConfigMode
        from cassandra.metadata import Metadata
        self.metadata = Metadata()
        self.profile_manager = ProfileManager()
        self._config_mode = _ConfigMode.PROFILES
        self.endpoints_resolved = []
        self.sessions = set()

    def _set_default_dbaas_consistency(self, session):
        pass


class FakeCC(object):
    def __init__(self, cluster):
        self._cluster = cluster


class St(object):
    def __init__(self, params):
        from cassandra.cluster import ExecutionProfile, EXEC_PROFILE_DEFAULT
        import cassandra.policies as P
        vworld.install_seams()
        P.randint = lambda a, b: 0
        self.p = params
        self.spec = tup(params['spec'])
        self.n = params['hosts']
        self.home = params['home']
        self.cluster = FakeCluster()
        self.cc = FakeCC(self.cluster)
        self.objs = [None] * self.n
        self.ghosts = [None] * self.n
        self.contacts = None
        pol = make_policy(self.spec)
        self.cluster.profile_manager.profiles[EXEC_PROFILE_DEFAULT] = ExecutionProfile(load_balancing_policy=pol)
        self.insts = [[pol, None]]
        self.depth = 0
        self.hist = []
        self.mid = Part()      # observe mode: what the plans requested in the middle of the history showed

    def close(self):
        pass

    def new_host(self, i, dc, rack):
        from cassandra.pool import Host
        from cassandra.connection import DefaultEndPoint
        from cassandra.policies import SimpleConvictionPolicy
        h = Host(DefaultEndPoint(addr(i)), SimpleConvictionPolicy, dc, rack)
        h.broadcast_rpc_address = addr(i)
        h.broadcast_rpc_port = 9042
        got, new = self.cluster.metadata.add_or_return_host(h)
        assert new and got is h
        self.objs[i] = h
        return h

    def index(self, h):
        return int(h.endpoint.address.split('.')[-1]) - 1

    def known(self):
        return [i for i in range(self.n) if self.objs[i] is not None]

    def order(self):
        return [self.index(h) for h in self.cluster.metadata.all_hosts()]


class H(explore.Harness):
    name = 'c21'

    def init(self):
        return St(self.params)

    # ------------------------------------------------------------------ events
    def events(self, st):
        p = self.params
        if st.contacts is None:
            return [(('connect',) + tuple(c), 0) for c in p['contact_sets']]
        evs = []
        dcs = DCS[:p['ndc']]
        for i in range(st.n):
            h = st.objs[i]
            if h is None:
                evs.append((('add', i), 0))
                continue
            if not h.is_up:
                evs.append((('up', i), 0))
            evs.append((('down', i), 0))
            evs.append((('remove', i), 0))
            for dc in dcs:
                if dc != h.datacenter:
                    evs.append((('loc', i, dc, h.rack or 'r1'), 0))
            if h.datacenter is not None:
                evs.append((('loc', i, h.datacenter, 'r2' if h.rack == 'r1' else 'r1'), 0))
            g = st.ghosts[i]
            if p.get('ghosts') and g is not None and g.datacenter == h.datacenter and g.rack == h.rack:
                evs.append((('ghost_up', i), 1))
                evs.append((('ghost_down', i), 1))
        if len(st.insts) < 1 + p.get('profiles', 1):
            evs.append((('profile',), 0))
        return evs

    def apply(self, st, ev):
        self._apply(st, ev)
        st.hist.append(ev)
        if self.params.get('observe'):
            # the application asks for plans (and the pools for distances) between any two membership events:
            # every instance is asked and judged after every event of the history, not only in its last state
            self._judge_state(st, st.mid, list(st.hist))

    def _apply(self, st, ev):
        from cassandra.cluster import Cluster, ControlConnection, ExecutionProfile
        from cassandra.policies import HostDistance
        pm = st.cluster.profile_manager
        k = ev[0]
        st.depth += 1
        if k == 'connect':
            st.contacts = tuple(ev[1:])
            # Cluster.connect(): contact points become hosts without location, are marked up, then populate
            for i in st.contacts:
                h = st.new_host(i, None, None)
                h.set_up()
            st.cluster.endpoints_resolved = [st.objs[i].endpoint for i in st.contacts]
            pm.populate(st.cluster, st.cluster.metadata.all_hosts())
            st.insts[0][1] = lbpref.Ref(st.spec, st.contacts)
            st.insts[0][1].populate(st.order())
            return
        i = ev[1] if len(ev) > 1 else None
        if k == 'up':            # Cluster.on_up
            h = st.objs[i]
            pm.on_up(h)
            h.set_up()
            for _, r in st.insts:
                r.up(i, h.datacenter)
        elif k == 'down':        # Cluster.on_down
            h = st.objs[i]
            h.set_down()
            pm.on_down(h)
            for _, r in st.insts:
                r.down(i, h.datacenter)
        elif k == 'add':         # Cluster.add_host(signal=True) -> on_add -> _finalize_add
            h = st.new_host(i, st.home[i], 'r1')
            d = pm.distance(h)
            pm.on_add(h)
            if d != HostDistance.IGNORED:
                h.set_up()
            for _, r in st.insts:
                r.add(i, h.datacenter)
        elif k == 'remove':      # Cluster.remove_host -> on_remove
            h = st.objs[i]
            assert st.cluster.metadata.remove_host(h)
            h.set_down()
            pm.on_remove(h)
            st.objs[i] = None
            st.ghosts[i] = h
            for _, r in st.insts:
                r.remove(i, h.datacenter)
        elif k == 'loc':
            h = st.objs[i]
            old = h.datacenter
            changed = ControlConnection._update_location_info(st.cc, h, ev[2], ev[3])
            assert changed and h.datacenter == ev[2] and h.rack == ev[3]
            for _, r in st.insts:
                r.down(i, old)
                r.up(i, h.datacenter)
        elif k == 'profile':
            pol = make_policy(st.spec)
            order = st.order()
            ups = [j for j in order if st.objs[j].is_up]
            Cluster.add_execution_profile(st.cluster, 'p%d' % len(st.insts), ExecutionProfile(load_balancing_policy=pol))
            r = lbpref.Ref(st.spec, st.contacts)
            r.populate(order)
            for j in ups:
                r.up(j, st.objs[j].datacenter)
            st.insts.append([pol, r])
        elif k == 'ghost_up':    # a reconnector / pool still holding the Host object of the node's previous incarnation
            g = st.ghosts[i]
            pm.on_up(g)
            for _, r in st.insts:
                r.up(i, g.datacenter)
        elif k == 'ghost_down':
            g = st.ghosts[i]
            pm.on_down(g)
            for _, r in st.insts:
                r.down(i, g.datacenter)
        else:
            raise ValueError(ev)

    # ------------------------------------------------------------------ canonical state
    def _dump(self, st, p):
        from cassandra.policies import DCAwareRoundRobinPolicy
        def ix(h):
            i = st.index(h)
            return i if h is st.objs[i] else (i, 'stale')
        child = getattr(p, '_child_policy', None)
        if child is not None:
            return ('w', self._dump(st, child))
        if isinstance(p, DCAwareRoundRobinPolicy):
            return ('dc', p.local_dc,
                    tuple(sorted(((dc, tuple(ix(h) for h in hs)) for dc, hs in p._dc_live_hosts.items()), key=repr)),
                    tuple(sorted(repr(e) for e in getattr(p, '_endpoints', ()))))
        return ('rr', tuple(sorted((ix(h) for h in p._live_hosts), key=repr)))

    def canon(self, st):
        hosts = []
        for i in range(st.n):
            h, g = st.objs[i], st.ghosts[i]
            hosts.append((None if h is None else (h.datacenter, h.rack, h.is_up),
                          None if g is None else (g.datacenter, g.rack)))
        return (st.contacts, tuple(hosts), tuple(st.order()),
                tuple((r.state() if r else None, self._dump(st, pol)) for pol, r in st.insts))

    # ------------------------------------------------------------------ oracle
    def _plans(self, st, pol):
        """[(label, plan as host indices)]"""
        from cassandra.query import SimpleStatement
        out = []
        wrapper = st.spec[2] if st.spec[0] == 'wrap' else None
        rounds = len(st.known()) + 1
        for r in range(max(2, rounds)):
            q = None if (wrapper != 'tokenaware' or r % 2 == 0) else SimpleStatement('SELECT 1')
            out.append((None, list(pol.make_query_plan(None, q))))
        if wrapper == 'default':
            for t in range(st.n):
                q = SimpleStatement('SELECT 1')
                q.target_host = addr(t)
                out.append((t, list(pol.make_query_plan('ks', q))))
        return out

    def check(self, st, part, hist):
        if st.contacts is None:
            return
        self._judge_state(st, part, hist)
        for fp, what, data in st.mid.violations:
            part.violation(fp, what, data)
        if st.mid.counters.get('plans_judged'):
            part.count('plans_judged_mid_history', st.mid.counters['plans_judged'])
        if len(hist) >= 3:
            part.mark_nontrivial(repr(self.canon(st)))

    def _judge_state(self, st, part, hist):
        from cassandra.policies import HostDistance
        names = {HostDistance.LOCAL: 'LOCAL', HostDistance.REMOTE: 'REMOTE', HostDistance.IGNORED: 'IGNORED'}
        def leafname(s):
            if s[0] == 'dcaware':
                return 'dcaware-%s' % ('configured' if s[1] else 'inferred')
            return s[0]
        kind = leafname(st.spec)
        if st.spec[0] == 'wrap':
            kind = '%s(%s)' % (st.spec[2], leafname(st.spec[1]))
        if st.spec[0] == 'filter':
            rule = st.spec[2]
            kind = 'filter%s(%s)' % ('-by-%s' % rule[0] if isinstance(rule, tuple) else '', leafname(st.spec[1]))
        dcs = dict((i, st.objs[i].datacenter) for i in st.known())
        racks = dict((i, st.objs[i].rack) for i in st.known())
        universe = range(st.n)
        data = {'params': dict(self.params, spec=plain(st.spec)), 'history': hist}
        for n_inst, (pol, ref) in enumerate(st.insts):
            how = 'initial' if n_inst == 0 else 'added-profile'
            dist = dict((i, names[pol.distance(st.objs[i])]) for i in st.known())
            for target, hosts in self._plans(st, pol):
                part.count('plans_judged')
                plan = []
                for h in hosts:
                    i = st.index(h)
                    plan.append(i)
                    # a host that is no longer in the metadata can only be judged as "not live"
                    dcs.setdefault(i, h.datacenter)
                    racks.setdefault(i, h.rack)
                tplan = plan
                if target is not None:
                    th = st.objs[target]
                    if th is not None and th.is_up:
                        if not plan or plan[0] != target:
                            part.violation('C21/%s/target-not-first' % kind,
                                           'target host %d is up but the plan is %r' % (target, plan), data)
                            continue
                        tplan = plan[1:]
                        if target in tplan:
                            part.violation('C21/%s/duplicate/%s' % (kind, how), 'target host %d yielded twice: %r' % (target, plan), data)
                            continue
                        # the remainder is the child's plan without the target
                        ref_dist = dict(dist)
                        bad = [b for b in ref.judge(tplan, ref_dist, dcs, universe, racks)
                               if b[0] not in ('live-host-missing', 'local-hosts-not-first', 'remote-hosts-missing')
                               and not b[0].startswith('distance-inconsistent')]
                        missing = set(ref.leaf().live) - ref.excluded(dcs, racks) - set(tplan) - {target}
                        if st.spec[1][0] == 'rr' and missing:
                            bad.append(('live-host-missing', 'plan %r (target %d) lacks live host(s) %r' % (plan, target, sorted(missing))))
                    else:
                        bad = ref.judge(plan, dist, dcs, universe, racks)
                else:
                    bad = ref.judge(plan, dist, dcs, universe, racks)
                for clause, text in bad:
                    part.violation('C21/%s/%s/%s' % (kind, clause, how),
                                   '%s [%s instance of %r; hosts (dc, rack, is_up) %r; metadata order %r; reference live set %r, local dc %r]'
                                   % (text, how, plain(st.spec), [(i, st.objs[i].datacenter, st.objs[i].rack, st.objs[i].is_up) for i in st.known()],
                                      st.order(), sorted(ref.leaf().live), ref.leaf().local_dc), data)
                part.outcome((kind, how, len(plan), len(set(dist.values()))))


def specs(ctx):
    """(name, spec, observe).  observe: plans and distances are also requested (and judged) after every event inside the history."""
    dca = [('dcaware', ldc, n) for ldc in ('', 'dc1') for n in (0, 1, 2)]
    out = [('rr', ('rr',))]
    out += [('dcaware-%s-%d' % (s[1] or 'infer', s[2]), s) for s in dca]
    out += [
        ('whitelist', ('whitelist', frozenset([0, 2]))),
        ('whitelist-names', ('whitelist', frozenset([0, 2]), 'names')),
        ('filter-rr', ('filter', ('rr',), frozenset([1]))),
        ('filter-dcaware', ('filter', ('dcaware', 'dc1', 1), frozenset([2]))),
        ('default-rr', ('wrap', ('rr',), 'default')),
        ('default-dcaware', ('wrap', ('dcaware', '', 1), 'default')),
        ('tokenaware-rr', ('wrap', ('rr',), 'tokenaware')),
        ('tokenaware-dcaware', ('wrap', ('dcaware', 'dc1', 2), 'tokenaware')),
    ]
    base = [(name, spec, False) for name, spec in out]
    # predicates that depend on the host's location (which changes inside a history), always with plans inside the history
    loc = [
        ('filter-by-dc-rr', ('filter', ('rr',), ('dc', 'dc2'))),
        ('filter-by-rack-rr', ('filter', ('rr',), ('rack', 'r2'))),
        ('filter-by-onlydc-rr', ('filter', ('rr',), ('onlydc', 'dc1'))),
        ('filter-by-dc-dcaware', ('filter', ('dcaware', 'dc1', 1), ('dc', 'dc2'))),
        ('filter-by-rack-dcaware', ('filter', ('dcaware', '', 2), ('rack', 'r2'))),
        ('filter-by-onlydc-dcaware', ('filter', ('dcaware', 'dc1', 2), ('onlydc', 'dc2'))),
    ]
    obs = [(name + '+observed', spec, True) for name, spec in loc]
    # every other configuration once more with plans inside the history (quick: one per policy class)
    twins = out if ctx.thorough else [x for x in out if x[0] in OBSERVED_QUICK]
    obs += [(name + '+observed', spec, True) for name, spec in twins]
    if ctx.thorough:
        base += [(name, spec, False) for name, spec in loc]
    return base + obs


OBSERVED_QUICK = ('rr', 'dcaware-infer-1', 'dcaware-dc1-2', 'whitelist', 'filter-rr', 'filter-dcaware', 'default-dcaware', 'tokenaware-rr')


def configs(ctx):
    out = []
    for name, spec, observe in specs(ctx):
        leaf = spec
        while leaf[0] in ('filter', 'wrap'):
            leaf = leaf[1]
        if ctx.quick:
            p = dict(spec=plain(spec), hosts=4, ndc=2, home=['dc1', 'dc2', 'dc1', 'dc2'],
                     contact_sets=[[0], [0, 1], [1, 0], [0, 2]], ghosts=True, profiles=1)
            depth = 5 if leaf[0] == 'dcaware' and spec[0] == 'dcaware' and not observe else 4
        else:
            p = dict(spec=plain(spec), hosts=6, ndc=3, home=['dc1', 'dc2', 'dc1', 'dc3', 'dc2', 'dc3'],
                     contact_sets=[[0], [0, 1], [1, 0], [0, 2], [3, 0]], ghosts=True, profiles=1)
            depth = 6 if leaf[0] == 'dcaware' and spec[0] == 'dcaware' and not observe else 5
        if observe:
            p['observe'] = True
        out.append((name, p, depth))
    return out


def run(ctx):
    assert lbpref.selftest()
    for name, params, depth in configs(ctx):
        explore.bfs(ctx, H, params, max_depth=depth, dev_bound=1, label='c21-' + name,
                    max_states=None)
    ctx.cov['rule'] = ('state = event history replayed on fresh real policy objects; non-trivial = distinct canonical state at depth >= 3; '
                       'outcomes = (policy, instance kind, plan length, number of distinct distances) of the plans judged in the last state of '
                       'a history; plans_judged_mid_history counts the plans judged inside the histories of the +observed configurations '
                       '(the policies\' round-robin position is not part of the canonical state: any rotation is accepted)')
    ctx.assume('membership events reach a policy one at a time, in the order the cluster code issues them (handler atomicity)')
    ctx.assume('Host.broadcast_rpc_address is known when the Host is created (DefaultLoadBalancingPolicy resolves a target by it)')
    ctx.assume('a stale Host object (previous incarnation of a removed and re-added node) is only delivered while it has the location of the current one')
    ctx.assume('for HostFilterPolicy over a datacenter-aware child the number of remote hosts after filtering is not demanded (documented caveat)')


def replay(ctx, data):
    part = explore.replay(H, data['params'], [tuple(e) for e in data['history']])
    for fp, what, _ in part.violations:
        print(fp, '::', what)
    return bool(part.violations)
