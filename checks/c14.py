"""C14 Every request completes exactly once.

Engine E: breadth-first search over histories of {server answers (any pending attempt, any
order, result or error with any retry decision), connection failure under an attempt, earliest
timer fires (speculative execution or client timeout), next executor task runs, next page is
requested}.  Every transition runs the real ResponseFuture / pool / connection code.
"""
from vt import explore, sched
from vt import reqworld   # noqa: F401  imported here so that forked workers inherit the loaded driver
from vt import c14sched
from vt.core import Part

META = {
    'level': 'model_checking',
    'engine': 'E+S',
    'technique': 'explicit-state BFS over response/timer/fault/task histories on the real Session+ResponseFuture, with canonical-state dedup; '
                 'plus stateless preemption-bounded schedule exploration of concurrent completion by two reactor threads, the timer thread and a client thread',
    'text': 'All histories up to the depth bound of a request with 0-2 speculative executions against 3 hosts: '
            'each pending attempt may be answered (rows, void, read-timeout/overloaded with each retry decision), '
            'its connection may fail, the earliest timer may fire, the next executor task may run; late answers '
            'after completion are included.  Further configurations: a paged query with up to two further page fetches where the '
            'application attaches one more callback/errback pair at any moment of the history (before completion, after a page '
            'completed, after a failed fetch); an application USE statement (coordinator answers, the driver propagates the keyspace '
            'with one USE per pool, each of them answered / refused / answered with an error / its connection lost / left unanswered); '
            'an EXECUTE of a prepared statement answered UNPREPARED (re-prepare task on the executor, PREPARE answered or refused, '
            'EXECUTE sent again); the same with a re-prepare that fails and more than one UNPREPARED answer per request (every host '
            'of the plan may answer the EXECUTE UNPREPARED; the PREPARE is answered, answered with an error, its connection is lost '
            'while it is outstanding, or the connection is lost while the re-prepare task is still queued so that the PREPARE cannot '
            'be sent; the connection under an EXECUTE may be lost as well), without and with one speculative execution.  In every state: callbacks+errbacks <= 1 per execution and never both, '
            'result() agrees with the delivered outcome, a pair attached after completion fires exactly once, every pair attached '
            'in the course of the history is invoked exactly once per page fetch completed since and sees the same kind of outcome; '
            'whenever no attempt is outstanding and no task of the request (retry, re-prepare, execute-after-prepare) is queued '
            '- host-down / pool-shutdown / reconnection tasks may still be queued -, or nothing at all is enabled, or the client-timeout handler '
            'of the current fetch has run (and did not re-arm itself, PYTHON-853), the outcome exists - the last clause in particular '
            'when the timeout fires while a retry / re-prepare / re-execute task is still queued on the executor.  '
            'Schedule layer: two attempts outstanding on two connections, answered concurrently (every pair over rows / invalid / '
            'overloaded with RETHROW or RETRY_NEXT_HOST) by two reactor threads while the client timeout fires on the timer thread, an '
            'executor worker runs retries and a client thread attaches a second callback pair and blocks in result(); scheduling '
            'points at every virtual lock/event operation and every source line of the completion/timeout/callback methods of '
            'ResponseFuture; quick: all non-preemptive schedules of every configuration and all schedules with <= 1 preemption of three key configurations; '
            'thorough: <= 1 preemption for every configuration of up to 4 threads, <= 2 for the two-reactor configurations.  Oracle: each observer '
            'invoked exactly once, never both kinds, all observers and result() agree, no deadlock, outcome exists.',
    'note': 'History layer: single-threaded histories (handler atomicity).  Schedule layer: line-granular preemption inside the '
            'ResponseFuture methods named in vt/c14sched.py; connection/pool code runs between scheduling points at its lock operations only.  '
            'Virtual server/clock/executor as described in DESIGN.md section 2.',
    'design_ref': 'C14',
}


NO_DECISION = ('rows', 'void', 'invalid', 'rows_more', 'default', 'set_keyspace', 'unprepared', 'syntax')
PREPARED_QUERY = 'SELECT v FROM ks1.t'


def _timeout_owner(timer):
    """the ResponseFuture whose client-timeout handler this connection timer runs, else None"""
    fn = getattr(timer.callback, 'func', timer.callback)
    return getattr(fn, '__self__', None) if getattr(fn, '__name__', '') == '_on_timeout' else None


def _own_tasks(st, f):
    """labels of the queued executor tasks that are continuations of this future (retry, re-prepare, execute after
    prepare, ...): bound methods of it, directly or through a partial.  Any other queued task (host-down handling, pool
    shutdown, reconnection) can only reach the future through a request of it that is still outstanding."""
    out = []
    for t in st.w.tasks:
        fns = [t[1]] + [a for a in t[2] if callable(a)]
        fns += [getattr(x, 'func', None) for x in fns]
        if any(getattr(x, '__self__', None) is f for x in fns if x is not None):
            out.append(t[4])
    return out


class H(explore.Harness):
    name = 'c14'

    def init(self):
        from vt.reqworld import ReqWorld
        p = self.params
        st = ReqWorld(p)
        st.late = []
        st.pages = 0
        st.prepared = None
        if p.get('prepared'):
            # prepared through the real Session.prepare against the auto server, then the explorer takes over again
            hold, st.server.hold, st.w.manual = st.server.hold, (lambda conn, req: False), False
            st.prepared = st.session.prepare(PREPARED_QUERY)
            st.w.settle()
            st.server.hold, st.w.manual = hold, True
        for i in range(p.get('n_exec', 1)):
            if p.get('use'):
                st.execute('q%d' % i, query='USE %s' % p['use'])
            elif st.prepared is not None:
                st.execute('q%d' % i, statement=st.prepared.bind(()))
            else:
                st.execute('q%d' % i, **({'stmt_kw': {'fetch_size': 2}} if p.get('paged') else {}))
        st.extra = [[] for _ in st.futures]         # observers attached later by an 'attach' event
        st.timed_out = [False for _ in st.futures]  # the client-timeout handler of the current fetch ran (and did not re-arm)
        return st

    def kinds_for(self, req):
        p = self.params
        if req['op'] == 'PREPARE':
            return p.get('prepare_kinds', ['default'])
        if req['op'] == 'QUERY' and req.get('query', '').strip().upper().startswith('USE '):
            return p.get('use_kinds', ['default', 'invalid'])
        return p['kinds']

    def events(self, st):
        p = self.params
        evs = []
        pend = st.pending()
        for i in range(len(pend)):
            for kind in self.kinds_for(pend[i].req):
                if kind in NO_DECISION:
                    evs.append((('respond', i, kind, ''), 0))
                else:
                    for d in p['decisions']:
                        evs.append((('respond', i, kind, d), 0))
            if p.get('faults'):
                # a connection lost under a PREPARE never reaches the retry policy: one event, not one per decision
                for d in (p['decisions'] if pend[i].req['op'] != 'PREPARE' else p['decisions'][:1]):
                    evs.append((('fault', i, d), 0))
        if p.get('drops') and st.w.tasks:
            # the connection an execution was last answered on is lost while its continuation (re-prepare, retry)
            # is still queued on the executor: the continuation finds the pool without a usable connection
            seen = set()
            for fi, f in enumerate(st.futures):
                c = f._connection
                if (c is not None and not c.is_closed and not c.is_defunct and c.vid not in seen
                        and not any(q.conn is c for q in pend)):
                    seen.add(c.vid)
                    evs.append((('drop', fi), 0))
        if st.w.live_timers():
            evs.append((('timer',), 0))
        for i in range(min(len(st.w.tasks), p.get('task_window', 1))):
            evs.append((('task', i), 0))
        if p.get('paged'):
            for fi, f in enumerate(st.futures):
                if f._event.is_set() and f.has_more_pages and st.pages < p.get('max_pages', 1):
                    evs.append((('next_page', fi), 0))
        for fi in range(len(st.futures)):
            if len(st.extra[fi]) < p.get('attach', 0):
                evs.append((('attach', fi), 0))
        return evs

    def apply(self, st, ev):
        if ev[0] == 'respond':
            _, i, kind, d = ev
            if d:
                st.retry.next = (d, None)
            if kind == 'rows_more':
                st.respond(i, 'rows', paging_state=b'ps1')
            elif kind == 'default':
                st.server.answer(st.pending()[i], deliver=True)
            elif kind == 'unprepared':
                st.respond(i, kind, query_id=st.prepared.query_id)
            else:
                st.respond(i, kind)
        elif ev[0] == 'fault':
            _, i, d = ev
            st.retry.next = (d, None)
            p = st.pending()[i]
            # the server side of this connection is gone: its pending requests will never be answered
            for q in list(st.server.pending):
                if q.conn is p.conn:
                    st.server.pending.remove(q)
            p.conn.defunct(OSError(104, 'Connection reset by peer'))
        elif ev[0] == 'drop':
            st.futures[ev[1]]._connection.defunct(OSError(104, 'Connection reset by peer'))
        elif ev[0] == 'timer':
            t = st.w.live_timers()[0]
            owner = _timeout_owner(t)
            st.w.fire_timer(t)
            if owner is not None and not any(_timeout_owner(t2) is owner for t2 in st.w.live_timers()):
                for fi, f in enumerate(st.futures):
                    if f is owner:
                        st.timed_out[fi] = True
        elif ev[0] == 'task':
            st.w.run_task(ev[1])
        elif ev[0] == 'next_page':
            f = st.futures[ev[1]]
            st.pages += 1
            st.timed_out[ev[1]] = False
            # a page fetch is a new execution of the same future; registered callbacks stay registered
            # (documented paging pattern) and must fire once more, for this page
            for o in [st.observers[ev[1]]] + st.extra[ev[1]]:
                o.new_generation()
            f.start_fetching_next_page()
        elif ev[0] == 'attach':
            # the application attaches one more callback/errback pair now, whatever the request's progress
            from vt.reqworld import Observer
            o = Observer(st.futures[ev[1]], st.w, 'late')
            o.generation = st.observers[ev[1]].generation
            st.extra[ev[1]].append(o)
        st.w.deliver_outbox()

    def canon(self, st):
        futs = []
        for fi, (f, o) in enumerate(zip(st.futures, st.observers)):
            futs.append((len(o.results), len(o.errors), f._event.is_set(), type(f._final_exception).__name__,
                         f._query_retries, tuple(sorted(str(k) for k in f._errors)), f._paging_state, f._req_id,
                         f._connection.vid if f._connection is not None else None,
                         tuple((len(x.results), len(x.errors)) for x in st.extra[fi]), st.timed_out[fi],
                         # what is registered decides who hears about the next page: part of the state
                         len(f._callbacks), len(f._errbacks)))
        return (tuple(futs), tuple(st.retry.calls), st.pending_canon(), st.timers_canon(), st.tasks_canon(),
                st.conn_canon(), st.pages)

    def check(self, st, part, hist):
        for fi, (f, o) in enumerate(zip(st.futures, st.observers)):
            if o.results and o.errors:
                part.violation('C14/both-callback-and-errback', 'callbacks and errbacks both ran: %r' % (o.order,),
                               {'params': self.params, 'history': hist})
            elif o.n > 1:
                part.violation('C14/completed-twice/%s' % ('result' if o.results else 'error'),
                               'outcome delivered %d times: %r' % (o.n, o.order), {'params': self.params, 'history': hist})
            done = f._event.is_set()
            if done and o.n == 0:
                part.violation('C14/event-set-without-callback', 'future is done but no callback ran',
                               {'params': self.params, 'history': hist})
            if o.n and not done:
                part.violation('C14/callback-without-event', 'callback ran but result() would still block',
                               {'params': self.params, 'history': hist})
            page = 'first' if o.generation == 0 else 'later'
            # pairs attached by an 'attach' event (before or after the completion of this or an earlier page fetch):
            # once per fetch, never both kinds, the same kind the first pair saw
            for x in st.extra[fi]:
                if x.results and x.errors:
                    part.violation('C14/both-callback-and-errback/late-attached', 'callbacks and errbacks of a pair attached later both ran: %r'
                                   % (x.order,), {'params': self.params, 'history': hist})
                elif x.n > 1:
                    part.violation('C14/completed-twice/late-attached', 'outcome delivered %d times to a pair attached later: %r'
                                   % (x.n, x.order), {'params': self.params, 'history': hist})
                elif done and x.n == 0:
                    part.violation('C14/late-attached-pair-not-invoked/%s-page' % page,
                                   'the %s page fetch is complete (first pair saw %r) but a pair attached by the application '
                                   'in the course of the history was not invoked for it' % (page, o.order),
                                   {'params': self.params, 'history': hist})
                elif x.n and not done:
                    part.violation('C14/callback-without-event/late-attached', 'pair attached later ran but result() would still block',
                                   {'params': self.params, 'history': hist})
                elif x.n == 1 and o.n == 1 and bool(x.results) != bool(o.results):
                    part.violation('C14/observers-disagree', 'first pair saw %r, pair attached later saw %r' % (o.order, x.order),
                                   {'params': self.params, 'history': hist})
            if done and o.n == 1:
                try:
                    f.result()
                    got = 'result'
                except Exception as e:
                    got = 'error'
                    gexc = e
                want = 'result' if o.results else 'error'
                if got != want:
                    part.violation('C14/result()-disagrees', 'callbacks saw %s, result() gives %s' % (want, got),
                                   {'params': self.params, 'history': hist})
                elif got == 'error' and gexc is not o.errors[0]:
                    part.violation('C14/result()-different-error', 'errback saw %r, result() raises %r' % (o.errors[0], gexc),
                                   {'params': self.params, 'history': hist})
                # a pair attached after completion fires exactly once, immediately, with the same outcome
                late = {'r': 0, 'e': 0}
                f.add_callbacks(lambda rows: late.__setitem__('r', late['r'] + 1),
                                lambda exc: late.__setitem__('e', late['e'] + 1))
                if (late['r'], late['e']) != ((1, 0) if want == 'result' else (0, 1)):
                    part.violation('C14/late-attach', 'pair attached after completion ran %r (outcome was %s)' % (late, want),
                                   {'params': self.params, 'history': hist})
            part.outcome((o.n, 'done' if done else 'open', type(f._final_exception).__name__ if done else ''))
            if not done and not st.pending() and not _own_tasks(st, f):
                part.violation('C14/no-outcome-when-all-answered',
                               'every sent request is answered/failed and no task of this request is queued, but the future is '
                               'incomplete (timers: %r, other queued tasks: %r)' % (st.timers_canon(), st.tasks_canon()),
                               {'params': self.params, 'history': hist})
            if not done and st.timed_out[fi]:
                part.violation('C14/no-outcome-after-timeout/%s-page' % page,
                               'the client timeout of this fetch has fired (handler returned without re-arming itself) but the '
                               'future is incomplete; queued tasks %r, unanswered requests %d, timers %r'
                               % (st.tasks_canon(), len(st.pending()), st.timers_canon()), {'params': self.params, 'history': hist})
        if len(hist) >= 3:
            part.mark_nontrivial(repr(self.canon(st)))

    def at_quiescence(self, st, part, hist):
        for f, o in zip(st.futures, st.observers):
            if not f._event.is_set():
                part.violation('C14/no-outcome-at-quiescence', 'nothing left to happen and the future is incomplete',
                               {'params': self.params, 'history': hist})


def configs(ctx):
    base = dict(hosts=3, timeout=10.0, kinds=['rows', 'read_timeout'], decisions=['RETRY', 'RETRY_NEXT_HOST', 'RETHROW', 'IGNORE'],
                faults=True, task_window=1)
    q = [
        ('spec0', dict(base, spec=0), 6),
        ('spec1', dict(base, spec=1, kinds=['rows', 'overloaded'], decisions=['RETRY_NEXT_HOST', 'RETHROW', 'IGNORE']), 6),
        ('spec2', dict(base, spec=2, kinds=['rows', 'overloaded'], decisions=['RETRY_NEXT_HOST', 'RETHROW'], faults=False), 6),
        # speculative delays that do not fit the remaining time (the speculative timer must hand over to the timeout timer)
        ('spec-tight', dict(base, spec=2, spec_delay=0.5, timeout=1.0, kinds=['rows', 'overloaded'], decisions=['RETRY_NEXT_HOST', 'RETHROW'], faults=False), 5),
        ('spec-long', dict(base, spec=1, spec_delay=2.0, timeout=1.0, kinds=['rows'], decisions=['RETHROW'], faults=False), 4),
        # one more callback pair attached at any moment of the history (before / after a page completed, after a failed
        # fetch), up to two further fetches
        ('paged', dict(base, spec=1, paged=True, kinds=['rows_more', 'rows', 'invalid'], decisions=['RETHROW'], faults=False,
                       attach=1, max_pages=2), 7),
        # continuations other than a retry: an application USE (answered by the coordinator, then propagated by the driver
        # with one USE per pool, each answered / refused / lost / never answered) and an EXECUTE of a prepared statement
        # the node does not know (re-prepare on the executor, PREPARE answered, EXECUTE sent again)
        ('use', dict(base, spec=0, use='ks2', hold_use=True, kinds=['rows'], use_kinds=['default', 'invalid', 'overloaded'],
                     decisions=['RETRY_NEXT_HOST', 'RETHROW']), 5),
        ('prepared', dict(base, spec=0, prepared=True, kinds=['rows', 'unprepared', 'overloaded'], prepare_kinds=['default', 'invalid'],
                          decisions=['RETRY_NEXT_HOST', 'RETHROW'], faults=False), 7),
        # a re-prepare that fails, and more than one UNPREPARED answer per request: every host of the plan may answer the
        # EXECUTE with UNPREPARED; the PREPARE is answered, answered with an error, its connection is lost while it is
        # outstanding, or the connection is lost before the re-prepare task runs (the PREPARE cannot be sent)
        ('prepared-fail', dict(base, spec=0, prepared=True, kinds=['rows', 'unprepared'], prepare_kinds=['default', 'invalid'],
                               decisions=['RETRY_NEXT_HOST'], faults=True, drops=True), 7),
        ('prepared-fail-spec', dict(base, spec=1, prepared=True, kinds=['rows', 'unprepared'], prepare_kinds=['default'],
                                    decisions=['RETRY_NEXT_HOST'], faults=True), 6),
    ]
    if ctx.thorough:
        q = [(n, p, d + 2) for n, p, d in q]
        q.append(('two', dict(base, spec=1, n_exec=2, kinds=['rows', 'overloaded'], decisions=['RETRY_NEXT_HOST', 'RETHROW'], faults=False), 7))
    return q


def run(ctx):
    for name, params, depth in configs(ctx):
        explore.bfs(ctx, H, params, max_depth=depth, label='c14-' + name, max_states=400000 if ctx.thorough else 60000)
    cfgs = ctx.rotate(c14sched.configs(ctx.thorough))

    def nthreads(c):
        return 2 + bool(c['timer']) + bool(c['late']) + bool('overloaded' in c['kinds'] or c.get('spec_in_race'))
    if ctx.thorough:
        # one preemption anywhere for every configuration of up to 4 threads (5-thread ones: non-preemptive schedules only,
        # their bound-1 space is > 10^5 executions each), two preemptions for the two-thread ones (two reactors only;
        # bound 2 with three threads is ~4*10^5 executions per configuration)
        jobs = [(c, 1 if nthreads(c) <= 4 else 0) for c in cfgs]
        jobs += [(c, 2) for c in cfgs if nthreads(c) <= 2 and not c.get('spec_in_race')]
    else:
        # every configuration with all non-preemptive schedules (bound 0: every order in which the threads can run
        # to their next blocking point), three key configurations with one preemption anywhere
        key = [c for c in cfgs if (c['kinds'], c['timer'], c['decision']) in (
            (['rows', 'rows'], False, 'RETHROW'), (['rows', 'invalid'], True, 'RETHROW'), (['invalid', 'rows'], True, 'RETHROW'))]
        jobs = [(c, 0) for c in cfgs if c not in key] + [(c, 1) for c in key]
    # two phases so that 16 processes share the work evenly: the root execution of every job, then its subtrees
    roots = ctx.pmap(_explore_root, jobs)
    nexec = 0
    sub = []
    for (c, b), (part, kids) in zip(jobs, roots):
        nexec += part.counters.get('sched_executions', 0)
        ctx.merge(part)
        k = max(1, min(len(kids), 16 if b >= 1 else 1))
        sub += [(c, b, kids[i::k]) for i in range(k) if kids[i::k]]
    for part in ctx.pmap(_explore_sched, sub):
        nexec += part.counters.get('sched_executions', 0)
        ctx.merge(part)
    ctx.count('states', nexec)
    ctx.count('executions', nexec)
    ctx.cov.setdefault('harnesses', {})['c14-sched'] = {'configs': len(cfgs), 'jobs': len(jobs), 'preemption_bounds': sorted(set(b for _, b in jobs)),
                                                         'executions': nexec, 'complete': True}
    ctx.cov['rule'] = ('state = event history replayed on a fresh real Session; non-trivial = distinct canonical state at depth >= 3; '
                       'outcomes = (callbacks run, done?, final exception type); "timeout has fired" = a connection timer whose callback is '
                       'ResponseFuture._on_timeout of this future ran and left no such timer behind; "task of the request" = queued '
                       'executor task whose callable (or a callable argument, or the func of a partial) is a bound method of this future')
    ctx.assume('handlers are atomic with respect to each other (single-threaded histories)')
    ctx.assume('virtual server answers are well-formed protocol v4 frames')


def _explore_root(job):
    params, bound = job
    part = Part()
    s = c14sched.harness(params, [], part)
    part.count('sched_executions')
    part.count('transitions', s.steps)
    return part, [k for k, _ in sched.children(s.trace, 0, bound)]


def _explore_sched(job):
    params, bound, frontier = job
    part = Part()
    while frontier:
        nxt = []
        for prefix in frontier:
            s = c14sched.harness(params, prefix, part)
            part.count('sched_executions')
            part.count('transitions', s.steps)
            nxt.extend(k for k, _ in sched.children(s.trace, len(prefix), bound))
        frontier = nxt
    return part


def replay(ctx, data):
    if 'prefix' in data:
        part = Part()
        c14sched.harness(data['params'], data['prefix'], part)
        for fp, what, _ in part.violations:
            print(fp, '::', what)
        return bool(part.violations)
    part = explore.replay(H, data['params'], [tuple(e) for e in data['history']])
    for fp, what, _ in part.violations:
        print(fp, '::', what)
    return bool(part.violations)
