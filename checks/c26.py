"""C26 Replica sets match Cassandra's replica placement.

Engine N: every small ring (up to isomorphism: hosts, DCs and racks are named in order of first
appearance) x every replication setting x one key per token range, per exact ring token and one
wrapping past the last token is handed to the real `Metadata.rebuild_token_map` +
`Metadata.get_replicas(keyspace, key)`; the answer is compared, as a set and for repeats, with the
independent reference `vt.spec.placement` (Cassandra 4.x SimpleStrategy / NetworkTopologyStrategy).

The per-host token lists are handed over the way the control connection hands them over: the
`tokens set<text>` column of system.local / system.peers, i.e. a `cassandra.util.SortedSet` of
*strings*, ordered as text (which is not token order for decimal tokens of different signs or
widths); SimpleStrategy rings are also fed in ring order and in descending order.  A second family
uses explicitly written small decimal tokens of mixed signs and widths (queried by token).
"""
import itertools

from vt.core import Part, HarnessError
from vt.spec import partitioners as P
from vt.spec import placement as PL

META = {
    'level': 'exploration',
    'engine': 'N',
    'technique': 'exhaustive small-ring enumeration (all token-to-host assignments x DC/rack layouts x replication settings x keys per range) vs Cassandra placement reference',
    'text': 'All rings with <=4 hosts x <=2 tokens per host (<=2 DCs) and <=3 hosts x <=3 tokens (one DC) in quick; thorough adds 2 DCs for the latter, 5 and 6 hosts x 1 token (<=2 DCs), '
            'and single-DC rings of 5 hosts x <=2 tokens and 4 hosts x <=3 tokens; every assignment of the sorted token list to hosts, every layout over <=2 DCs x <=3 '
            'racks, SimpleStrategy rf 1-4 and transient 3/1, 2/1, NetworkTopologyStrategy with every per-DC rf in 0..min(4, nodes+1) (quick) / 0..4 (thorough), also for a DC without '
            'nodes, and transient 3/1, 2/1; keys hashing exactly onto each ring token, between each two tokens, before the first and after the '
            'last token.  Oracle: set(Metadata.get_replicas(ks, key)) == set of the reference (Cassandra 4.x calculateNaturalReplicas) and no '
            'host listed twice.  Murmur3 rings for everything, MD5 and ByteOrdered rings for SimpleStrategy.  Delivery of the ring to '
            'Metadata.rebuild_token_map: every host\'s tokens as the strings of the system tables, in a SortedSet of str (TEXT order, as the '
            'control connection delivers set<text>; the ring tokens are 64-bit / 127-bit key hashes of both signs and 18-19 / 38-39 digits) for every ring; '
            'SimpleStrategy rings also as lists in ring order and in descending order.  Explicit-token family: every subset of 8 written-out decimal '
            'tokens of mixed signs and widths (Murmur3: -100 -10 -9 0 5 10 100 9e18; RandomPartitioner: 5 10 12 100 1e37 5e37 12e37 17e37) x every '
            'assignment to <=3 hosts x <=3 tokens and <=4 hosts x <=2 tokens x the three delivery orders x SimpleStrategy rf 1-3 and NTS 1+1 over two '
            'DCs; queried with TokenMap.get_replicas(ks, token) at every ring token, between neighbours, before the first and after the last.',
    'note': 'The reference is cross-checked against the expectations of tests/unit/test_metadata.py and against a second, 2.x-style '
            'formulation of NetworkTopologyStrategy on 8e4 (quick) / 2.7e5 (thorough) small rings (2.1e6 with python -m vt.spec.placement --full).  For transient replication the driver reports full replicas only; '
            'for NetworkTopologyStrategy only "subset of Cassandra\'s replicas, no repeats" is demanded there.',
    'design_ref': 'C26',
}

SIMPLE = 'org.apache.cassandra.locator.SimpleStrategy'
NTS = 'org.apache.cassandra.locator.NetworkTopologyStrategy'
PARTITIONERS = {
    'murmur3': 'org.apache.cassandra.dht.Murmur3Partitioner',
    'md5': 'org.apache.cassandra.dht.RandomPartitioner',
    'bytes': 'org.apache.cassandra.dht.ByteOrderedPartitioner',
}
NKEYS = 41      # enough for rings of up to 20 tokens


# ------------------------------------------------------------------------------------ generators
def owner_sequences(max_hosts, max_tokens_per_host):
    """All assignments of the sorted token list to hosts, hosts numbered by first appearance
    (restricted growth strings), each host owning 1..max_tokens_per_host tokens."""
    out = []

    def rec(seq, counts):
        if seq:
            out.append(tuple(seq))
        for h in range(min(len(counts) + 1, max_hosts)):
            if h < len(counts):
                if counts[h] >= max_tokens_per_host:
                    continue
                counts[h] += 1
                seq.append(h)
                rec(seq, counts)
                seq.pop()
                counts[h] -= 1
            else:
                counts.append(1)
                seq.append(h)
                rec(seq, counts)
                seq.pop()
                counts.pop()
    rec([], [])
    return out


def _rgs(n, k):
    res = []

    def r(p, m):
        if len(p) == n:
            res.append(tuple(p))
            return
        for v in range(min(m + 1, k - 1) + 1):
            p.append(v)
            r(p, max(m, v))
            p.pop()
    r([], -1)
    return res


def layouts(nhosts, max_dcs=2, max_racks=3):
    """All (dc, rack) assignments of hosts 0..n-1, DCs and racks numbered by first appearance."""
    out = []
    for d in _rgs(nhosts, max_dcs):
        groups = {}
        for h, x in enumerate(d):
            groups.setdefault(x, []).append(h)
        per = [_rgs(len(groups[g]), max_racks) for g in sorted(groups)]
        for combo in itertools.product(*per):
            loc = [None] * nhosts
            for g, c in zip(sorted(groups), combo):
                for h, rk in zip(groups[g], c):
                    loc[h] = ('dc%d' % g, 'r%d' % rk)
            out.append(tuple(loc))
    return out


def simple_settings():
    return [('simple', {'replication_factor': s}) for s in ('1', '2', '3', '4', '3/1', '2/1')]


def nts_settings(nodes_per_dc, full_grid, max_rf=4):
    """nodes_per_dc = (nodes in dc0, nodes in dc1).  Full grid: every rf in 0..4 for both DCs.
    Reduced grid (quick): per DC rf in 0..min(4, nodes + 1) (one step past the node-count cap)."""
    out = []
    n0, n1 = nodes_per_dc
    for a in range((max_rf if full_grid else min(max_rf, n0 + 1)) + 1):
        # a ring without nodes in dc1: a setting for the absent DC must simply not matter
        for b in ((0, 2) if n1 == 0 else range((max_rf if full_grid else min(max_rf, n1 + 1)) + 1)):
            out.append(('nts', {'dc0': str(a), 'dc1': str(b)}))
    for b in ('0', '2'):
        out.append(('nts', {'dc0': '3/1', 'dc1': b}))
    out.append(('nts', {'dc0': '2/1'}))
    out.append(('nts', {'dc1': '3/1', 'dc0': '1'}))
    return out


_keys_cache = {}


def keys_for(tclass):
    """NKEYS keys sorted by their *reference* token; odd positions become ring tokens."""
    if tclass not in _keys_cache:
        raw = [b'key-%d' % i for i in range(NKEYS)]
        fn = {'murmur3': P.murmur3_token, 'md5': P.md5_token, 'bytes': P.bytes_token}[tclass]
        srt = sorted((fn(k), k) for k in raw)
        if len(set(t for t, _ in srt)) != len(srt):
            raise HarnessError('token collision among the fixed keys')
        _keys_cache[tclass] = srt
    return _keys_cache[tclass]


def token_string(tclass, tok):
    return tok.hex() if tclass == 'bytes' else str(tok)


ORDERS = ('text', 'ring', 'desc')


def deliver(strings, order):
    """one host's token strings (given in ring order) in the container / order they are handed to
    rebuild_token_map.  'text' is what the control connection passes on: the deserialised set<text>
    column, a SortedSet of str."""
    if order == 'text':
        from cassandra.util import SortedSet
        return SortedSet(strings)
    if order == 'ring':
        return list(strings)
    if order == 'desc':
        return list(reversed(strings))
    raise HarnessError('unknown delivery order %r' % (order,))


# written-out decimal tokens of mixed signs and widths (text order != token order)
EXPLICIT_POOLS = {
    'murmur3': (-100, -10, -9, 0, 5, 10, 100, 9 * 10 ** 18),
    'md5': (5, 10, 12, 100, 10 ** 37, 5 * 10 ** 37, 12 * 10 ** 37, 17 * 10 ** 37),
}
EXPLICIT_SETTINGS = [('simple', {'replication_factor': '1'}), ('simple', {'replication_factor': '2'}),
                     ('simple', {'replication_factor': '3'}), ('nts', {'dc0': '1', 'dc1': '1'})]


def explicit_queries(tokens):
    """every ring token, an integer strictly between neighbours (where there is one), one before the
    first and one after the last"""
    out = [tokens[0] - 1]
    for i, t in enumerate(tokens):
        if i and (tokens[i - 1] + t) // 2 > tokens[i - 1]:
            out.append((tokens[i - 1] + t) // 2)
        out.append(t)
    out.append(tokens[-1] + 1)
    return out


def explicit_locs(nhosts):
    return tuple(('dc%d' % (i % 2), 'r0') for i in range(nhosts))


# ------------------------------------------------------------------------------------ world
class World(object):
    """real Metadata + token map for one ring"""
    def __init__(self, seq, locs, tclass, settings, order='ring', tokens=None):
        """order: how each host's token strings are delivered (see deliver()).  tokens: explicit
        ascending integer ring tokens instead of the reference tokens of the fixed keys; such a
        world is queried by token (query_tokens), not by key."""
        from cassandra.metadata import Metadata, KeyspaceMetadata
        from cassandra.pool import Host
        from cassandra.policies import SimpleConvictionPolicy
        n = len(seq)
        if tokens is None:
            keys = keys_for(tclass)
            if 2 * n + 1 > len(keys):
                raise HarnessError('ring too long for the key pool')
            ring_tokens = [keys[2 * i + 1][0] for i in range(n)]
            self.query_keys = [keys[i] for i in range(2 * n + 1)]                       # (ref token, key)
            self.query_tokens = None
        else:
            ring_tokens = list(tokens)
            if len(ring_tokens) != n or any(a >= b for a, b in zip(ring_tokens, ring_tokens[1:])):
                raise HarnessError('explicit tokens must be ascending, one per ring position')
            self.query_keys = None
            self.query_tokens = explicit_queries(ring_tokens)
        self.tclass = tclass
        self.order = order
        self.nhosts = max(seq) + 1
        self.names = ['h%d' % i for i in range(self.nhosts)]
        self.hosts = [Host('10.0.0.%d' % (i + 1), SimpleConvictionPolicy, locs[i][0], locs[i][1])
                      for i in range(self.nhosts)]
        self.name_of = dict((h, nm) for h, nm in zip(self.hosts, self.names))
        self.ring = [(ring_tokens[i], self.names[seq[i]]) for i in range(n)]      # reference view
        self.locs = dict((self.names[i], locs[i]) for i in range(self.nhosts))
        per_host = {}
        for i in range(n):
            per_host.setdefault(seq[i], []).append(ring_tokens[i])
        tm = {}
        self.delivery_differs = False       # some host's list is not handed over in token order
        for h in per_host:      # hosts in order of first appearance in the ring
            strings = [token_string(tclass, t) for t in per_host[h]]
            got = deliver(strings, order)
            tm[self.hosts[h]] = got
            if list(got) != strings:
                self.delivery_differs = True
        self.metadata = Metadata()
        for h in self.hosts:
            self.metadata.add_or_return_host(h)
        self.metadata.rebuild_token_map(PARTITIONERS[tclass], tm)
        self.ksnames = []
        for i, (kind, opts) in enumerate(settings):
            name = 'ks%d' % i
            self.metadata.keyspaces[name] = KeyspaceMetadata(name, True, SIMPLE if kind == 'simple' else NTS, dict(opts))
            self.ksnames.append(name)


def reference(kind, opts, ring, locs, token, memo=None, memo_key=None):
    """-> (all replicas in order, set of full replicas, transient?).  The ring walk is computed for
    every key; the placement of a (walk, setting) pair is computed once per world."""
    walk = tuple(PL.ring_walk(ring, token))
    if memo is not None and (walk, memo_key) in memo:
        return memo[(walk, memo_key)]
    if kind == 'simple':
        allr, nfull = PL.simple_strategy_walk(walk, opts['replication_factor'])
        res = allr, set(allr[:nfull]), nfull != len(allr) or '/' in opts['replication_factor']
    else:
        allr, full = PL.network_topology_strategy_walk(walk, locs, opts, detail=True)
        res = allr, full, any('/' in v for v in opts.values())
    if memo is not None:
        memo[(walk, memo_key)] = res
    return res


def judge(part, kind, opts, got_names, allr, full, transient, case):
    """oracle for one get_replicas answer"""
    dup = len(set(got_names)) != len(got_names)
    if dup:
        part.violation('C26/%s/duplicate' % kind,
                       'get_replicas lists a host twice: %r (Cassandra: %r) for %r' % (got_names, allr, case), case)
    got = set(got_names)
    if transient:
        if kind == 'simple':
            if got != full:
                part.violation('C26/simple/transient/full-set', 'transient %r: driver %r, Cassandra full replicas %r of %r for %r' % (
                    opts, got_names, sorted(full), allr, case), case)
        else:
            if not got <= set(allr) or (allr and not got):
                part.violation('C26/nts/transient/not-subset', 'transient %r: driver %r is not a non-empty subset of Cassandra\'s replicas %r for %r' % (
                    opts, got_names, allr, case), case)
            elif got != full:
                part.count('nts_transient_full_set_differs')
        return
    want = set(allr)
    if got != want:
        rel = 'fewer' if len(got) < len(want) else ('more' if len(got) > len(want) else 'other')
        part.violation('C26/%s/set/%s%s' % (kind, rel, '+duplicate' if dup else ''),
                       'replicas differ: driver %r, Cassandra %r for %r' % (got_names, allr, case), case)


def is_nontrivial(kind, opts, w, tok, allr):
    """the answer is not simply 'owners of the next rf tokens (per DC)': a token of an already chosen
    host had to be skipped, or rack awareness / the node-count cap changed the choice"""
    walk = PL.ring_walk(w.ring, tok)
    if kind == 'simple':
        rf = PL.parse_rf(opts['replication_factor'])[0]
        first = walk[:rf]
        return len(set(first)) != len(first)
    naive = []
    per_dc = {}
    for ep in walk:
        dc = w.locs[ep][0]
        rf = PL.parse_rf(opts.get(dc, '0'))[0]
        if per_dc.get(dc, 0) < rf:
            per_dc[dc] = per_dc.get(dc, 0) + 1
            naive.append(ep)
    return len(set(naive)) != len(naive) or set(naive) != set(allr)


def ask(w, ks, ki):
    """the driver's answer for query number ki of world w -> (reference token, key or None, hosts)"""
    if w.query_tokens is None:
        tok, key = w.query_keys[ki]
        return tok, key, w.metadata.get_replicas(ks, key)
    tok = w.query_tokens[ki]
    tm = w.metadata.token_map
    return tok, None, tm.get_replicas(ks, tm.token_class.from_string(str(tok)))


def eval_world(part, seq, locs, tclass, settings, order='text', tokens=None):
    w = World(seq, locs, tclass, settings, order, tokens)
    memo = {}
    nevals = 0
    nq = len(w.query_keys if tokens is None else w.query_tokens)

    def mkcase(ki):
        case = {'seq': list(seq), 'locs': [list(x) for x in locs], 'tclass': tclass,
                'setting': [kind, opts], 'key_index': ki, 'order': order}
        if tokens is not None:
            case['tokens'] = [str(t) for t in tokens]
        return case

    for si, ((kind, opts), ks) in enumerate(zip(settings, w.ksnames)):
        nontrivial = False
        for ki in range(nq):
            nevals += 1
            nmemo = len(memo)
            tok = w.query_keys[ki][0] if tokens is None else w.query_tokens[ki]
            allr, full, transient = reference(kind, opts, w.ring, w.locs, tok, memo, si)
            try:
                _, key, got = ask(w, ks, ki)
                got_names = [w.name_of[h] for h in got]
            except Exception as e:
                case = mkcase(ki)
                part.violation('C26/%s/raises/%s' % (kind, type(e).__name__), 'get_replicas raised %r for %r' % (e, case), case)
                continue
            if got_names != allr:      # fast path: identical lists need no judging
                judge(part, kind, opts, got_names, allr, full, transient, mkcase(ki))
            part.outcome((kind, 'transient' if transient else 'plain', len(got_names)))
            if not nontrivial and len(memo) != nmemo:
                nontrivial = is_nontrivial(kind, opts, w, tok, allr)
            if ki == 1:
                part.sample({'ring': [[str(t), h] for t, h in w.ring], 'locs': w.locs, 'setting': [kind, opts], 'order': order,
                             'key': key if key is not None else 'token %d' % tok, 'driver': got_names, 'cassandra': allr}, limit=2)
        part.count('ring_settings')
        if nontrivial:
            part.count('distinct_nontrivial')
    part.count('rings')
    part.count('rings_order_' + order)
    if w.delivery_differs:
        part.count('rings_delivered_out_of_token_order')
    if tokens is not None:
        part.count('rings_explicit_tokens')
    part.count('evaluations', nevals)


def run_unit(unit):
    part = Part()
    if unit[0] == 'explicit':
        for tclass, seq, tokens in unit[1]:
            for order in ORDERS:
                eval_world(part, seq, explicit_locs(max(seq) + 1), tclass, EXPLICIT_SETTINGS, order, tokens)
        return part
    _, seqs, max_dcs, tclasses, full_grid = unit
    for seq in seqs:
        nh = max(seq) + 1
        if 'murmur3' in tclasses:
            # SimpleStrategy does not look at the layout: once per token assignment (and delivery order)
            for order in ORDERS:
                eval_world(part, seq, layouts(nh, 1, 1)[0], 'murmur3', simple_settings(), order)
            for locs in layouts(nh, max_dcs, 3):
                per_dc = (sum(1 for d, _ in locs if d == 'dc0'), sum(1 for d, _ in locs if d == 'dc1'))
                eval_world(part, seq, locs, 'murmur3', nts_settings(per_dc, full_grid), 'text')
        for tc in tclasses:
            if tc != 'murmur3':
                for order in ORDERS:
                    eval_world(part, seq, layouts(nh, 1, 1)[0], tc, simple_settings()[:3], order)
    return part


def explicit_work():
    """(partitioner, token-to-host assignment, token subset): every subset of the pool x every
    assignment of that many tokens to <=3 hosts x <=3 tokens or <=4 hosts x <=2 tokens"""
    seqs = sorted(set(owner_sequences(3, 3)) | set(owner_sequences(4, 2)))
    work = []
    for tclass in sorted(EXPLICIT_POOLS):
        pool = EXPLICIT_POOLS[tclass]
        for seq in seqs:
            if len(seq) <= len(pool):
                for tokens in itertools.combinations(pool, len(seq)):
                    work.append((tclass, seq, tokens))
    return work


def families(ctx):
    fams = [(4, 2, 2), (3, 3, 1)]
    if ctx.thorough:
        fams = [(4, 2, 2), (3, 3, 2), (5, 1, 2), (6, 1, 2), (5, 2, 1), (4, 3, 1)]
    seen = set()
    work = []
    for mh, mt, max_dcs in fams:
        for seq in owner_sequences(mh, mt):
            if (seq, max_dcs) in seen or (seq, 2) in seen:
                continue
            seen.add((seq, max_dcs))
            work.append((seq, max_dcs))
    return fams, work


def run(ctx):
    P.selftest()
    PL.selftest(light=ctx.quick)
    fams, work = families(ctx)
    work = ctx.rotate(work)
    # cost of a sequence grows steeply with its host count: deal them round-robin into many units
    nunits = ctx.nproc * 8
    units = []
    for md in (1, 2):
        seqs = [s for s, m in work if m == md]
        for i in range(nunits):
            chunk = seqs[i::nunits]
            if chunk:
                units.append(('ring', chunk, md, ('murmur3', 'md5', 'bytes'), ctx.thorough))
    ework = ctx.rotate(explicit_work())
    for i in range(nunits):
        chunk = ework[i::nunits]
        if chunk:
            units.append(('explicit', chunk))
    for part in ctx.pmap(run_unit, units):
        ctx.merge(part)
    ctx.cov['rule'] = ('families (max hosts, max tokens per host, max DCs) = %r: %d token-to-host assignments (restricted growth strings) x all '
                       'layouts over DCs x <=3 racks x settings (SimpleStrategy 6; NTS: per-DC rf grid %s + 4 transient settings, rf in {0,2} for a DC without nodes) x (2*tokens+1) keys; counters: rings = (assignment, '
                       'layout, partitioner) worlds built, ring_settings = worlds x replication settings, evaluations = get_replicas calls compared. '
                       'non-trivial = ring_setting with a key for which the owners of the next rf tokens (per DC) are not the answer: a further token '
                       'of an already chosen host is skipped, or rack awareness / node-count capping changes the choice.  Delivery to rebuild_token_map: '
                       'rings_order_text = worlds whose per-host token strings are a SortedSet of str (all of them once), rings_order_ring / _desc = '
                       'SimpleStrategy worlds fed again as lists in ring / descending order; rings_delivered_out_of_token_order = worlds in which at least '
                       'one host\'s list is not in token order as delivered.  rings_explicit_tokens = %d (partitioner, assignment, token subset) '
                       'combinations of the explicit-token family x 3 delivery orders, queried by token'
                       % (fams, len(work), '0..4 x 0..4' if ctx.thorough else '0..min(4, nodes in DC + 1)', len(ework)))
    ctx.cov['exhaustive'] = True
    ctx.assume('every host has a datacenter and a rack (hosts without location info are not generated)')
    ctx.assume('ring tokens are the reference tokens of fixed keys (only their order matters to placement), or, in the explicit-token '
               'family, written-out integers; the latter are queried through Metadata.token_map.get_replicas(keyspace, token), the call '
               'Metadata.get_replicas(keyspace, key) makes after hashing the key (hashing is C08\'s subject)')
    ctx.assume('the control connection hands rebuild_token_map the deserialised tokens set<text> column: a cassandra.util.SortedSet of str per host')
    ctx.assume('transient replication (N/T): the driver documents that it reports full replicas only; SimpleStrategy is compared '
               'with Cassandra\'s full replicas, NetworkTopologyStrategy only for subset-of-all-replicas and repeats '
               '(counter nts_transient_full_set_differs counts answers that are not exactly Cassandra\'s full replicas)')
    ctx.assume('rings are enumerated up to renaming of hosts, DCs and racks (named by first appearance in ring / host order)')


def replay(ctx, data):
    part = Part()
    kind, opts = data['setting']
    tokens = tuple(int(t) for t in data['tokens']) if data.get('tokens') else None
    w = World(tuple(data['seq']), [tuple(x) for x in data['locs']], data['tclass'], [(kind, opts)],
              data.get('order', 'ring'), tokens)
    tok, key, hosts = ask(w, w.ksnames[0], data['key_index'])
    allr, full, transient = reference(kind, opts, w.ring, w.locs, tok)
    got = [w.name_of[h] for h in hosts]
    print('ring', w.ring, 'locs', w.locs, 'delivery', w.order, 'setting', kind, opts, 'key', key, 'token', tok)
    print('driver', got, 'cassandra', allr)
    judge(part, kind, opts, got, allr, full, transient, data)
    for fp, what, _ in part.violations:
        print(fp, '::', what)
    return bool(part.violations)
