"""C11 Messages pushed concurrently reach the socket whole and in order.

Engine S on the two event-loop reactors that can be imported on this interpreter, each run as the REAL
connection class over a virtual event loop (vt/c11lib.py):

* cassandra.io.asyncioreactor.AsyncioConnection (only `_connect_socket` replaced) on a selector-less
  asyncio.BaseEventLoop: the loop is one virtual thread whose step is one whole ready handle; EVERY function
  defined in cassandra/io/asyncioreactor.py (push, _push_msg, handle_write, handle_read, and any helper the
  loop thread or a pusher runs) is additionally preemptible at every source line, in whichever thread runs it;
  `sock_sendall` answering "at once" or "one loop turn later" is an explored environment choice.
* cassandra.io.twistedreactor.TwistedConnection on a virtual reactor (callFromThread = append + scheduling
  point) with twisted's own transport write buffer over a fake socket that may take only part of a write;
  every function defined in cassandra/io/twistedreactor.py is preemptible at every source line.
asyncio's and twisted's own code is never traced (atomic between the scheduling points named above).

2-3 pusher threads x 1-2 messages each, optionally more messages pushed from the loop thread itself (every
ordered pair -- thorough: triple -- of sizes pushed inside one loop callback, alone and against a pusher), sizes
around out_buffer_size (lowered to 8): every schedule within the preemption bound is executed and the bytes
the fake socket received are judged by an independent oracle on tagged messages.

LARGE-message worlds (large_plan): the connection keeps the driver's own out_buffer_size (4096); one thread pushes
a message of 301 chunks (1.2 MB) -- or 21 chunks behind 250/300 chunks pushed earlier while the peer was taking
nothing -- and another thread (or the loop thread) pushes a message of one or two chunks; the peer is fast, or
slow (every sock_sendall completes one loop turn later, i.e. one chunk per turn; twisted: at most 64 KiB per
doWrite).  Per-execution cost grows with the number of chunks, so here the scheduling points are the hand-over
primitives only (call_soon_threadsafe, every loop turn, thread start/end), in one configuration additionally
the first two executions of every source line of the reactor module; preemption bound 1.
"""
import itertools

from vt import c11lib, sched
from vt.core import HarnessError, Part

META = {
    'level': 'model_checking',
    'engine': 'S',
    'technique': 'stateless schedule exploration (CHESS preemption bounding, complete within the bound) of pusher threads against '
                 'a virtual event-loop thread running the real AsyncioConnection / TwistedConnection write path',
    'text': 'Real AsyncioConnection (push, _push_msg, handle_write and the stock asyncio Task/Queue/Lock/run_coroutine_threadsafe) and '
            'real TwistedConnection (push, connection set-up through twisted endpoints, twisted FileDescriptor write buffer) with '
            'out_buffer_size=8; messages carry (owner, offset) in every byte.  Quick: every ordered pair of sizes from {1,7,8,9,17} '
            'pushed by 2 threads (asyncio: all schedules with <=1 preemption and <=1 delayed sock_sendall, <=2 preemptions for the '
            'smallest configuration; twisted: <=2 preemptions, <=1 short socket write), plus 2 messages per thread, 1-2 pushes from '
            'the loop thread itself (create_task branch) arriving at any moment, pushers starting while the connection\'s watcher '
            'coroutines and OPTIONS push are still queued, and 3 pusher threads.  Pushes made by the loop/reactor thread inside ONE '
            'callback (what a response callback that sends follow-up requests does): every ordered pair of sizes from {1,7,8,9,17}, '
            'i.e. every mix of single-chunk and chunked messages in either order, for both reactors, once with the loop thread '
            'alone and once racing a 9-byte message of a pusher thread.  Thorough: <=2 preemptions for every size pair, <=2 '
            'delayed sendalls, 3 pushers over {1,9,17}^3, 2x2 messages, loop-thread pushes and cold starts over {1,9,17}^2; twisted <=3 '
            'preemptions for every pair; one-callback loop-thread pushes: every ordered size triple over {1,7,8,9,17} alone, every pair '
            'against a pusher of each size in {1,9,17}, every triple over {1,9,17} against a pusher.  '
            'LARGE messages (connection keeps the real out_buffer_size 4096; bound on size: 301 chunks = 1 228 801 bytes per message, '
            '<=322 chunks in flight; any queue/buffer limit above that is out of reach): asyncio, all schedules with <=1 preemption of '
            '(a) a 301-chunk message of one pusher against a 100-byte message of another, peer fast, scheduling points = hand-over '
            'primitives + the first 2 executions of every source line of the reactor module per thread; and with scheduling points '
            'only at the hand-over primitives (call_soon_threadsafe, every loop turn = one ready handle, thread start/end): '
            '(b) the same pair with a SLOW peer (every sock_sendall completes one loop turn later: one chunk per turn, ~300 turns, '
            'the small push arriving at every one of them), (c) 301 chunks against a 2-chunk message, slow peer, (d) a 21-chunk '
            'and a 1-chunk message pushed while 250 chunks of an EARLIER push are still in the write path (peer took nothing until '
            'the explored phase starts, then slow), (e) two 1-chunk messages of one thread behind 300 earlier chunks, (f) the small '
            'message pushed by the loop thread (create_task branch) while a pusher\'s 301-chunk message drains slowly; twisted: 1.2 MB '
            'against 100 bytes, socket takes <=64 KiB per doWrite, <=1 preemption, every callFromThread / reactor call / doWrite and the first 2 executions of every reactor-module line per thread.  Thorough adds: (a) at '
            'bound 2 without line points, (a) against a 2-chunk message, slow peer with 2 turns per chunk, (b) with capped line points, '
            '301 chunks of out_buffer_size 8, (d) with a 2-chunk message / with two earlier messages, the large message pushed by the '
            'loop thread; twisted with a short write and with a reactor-thread push.  Scheduling points (all other configurations): every source line of every function defined in cassandra/io/asyncioreactor.py / '
            'cassandra/io/twistedreactor.py (selected by file, not by name: push, the coroutines _push_msg/handle_write/handle_read and '
            'any hand-over helper run by the loop thread are all split at line granularity, so a pusher can run between two lines of '
            'loop-side driver code, e.g. between a last emptiness test and the clearing of a wake-up flag) in whichever thread '
            'runs it, every loop turn (one ready handle), every call_soon_threadsafe/callFromThread; asyncio/twisted internals are '
            'not traced.  Oracle: the bytes the fake '
            'socket received are a concatenation of the pushed messages, each whole, each exactly once, in an order consistent with '
            'every thread\'s push order, judged at quiescence (loop idle with nothing ready, all threads done): every pushed message must '
            'be on the socket by then, i.e. a message left in a hand-over structure with nobody scheduled to drain it is reported as lost.',
    'note': 'Trusted: asyncio.BaseEventLoop with time/_process_events/_write_to_self/sock_sendall/sock_recv replaced (no selector; '
            'ready handles run FIFO one per step, as _run_once does); twisted reactor replaced by an object implementing '
            'callFromThread/connectTCP/addWriter/removeWriter with mainLoop\'s order (queued thread calls, then doWrite); line '
            'granularity of preemption (DESIGN 3.1); a delayed sock_sendall is modelled as nothing accepted now and everything one loop '
            'turn later; a slow peer is modelled as EVERY sock_sendall completing k loop turns after it was issued (k fixed '
            'per configuration, not a choice), a stalled peer as sock_sendall not completing before the explored phase starts.  '
            'In the LARGE-message configurations the driver code between two hand-over primitives is atomic (no line-level '
            'preemption beyond the first 2 executions of a line where stated).  asyncore and libev reactors cannot be imported on this interpreter; gevent/eventlet are not event-loop '
            'reactors in the sense of the statement and are not installed.',
    'design_ref': 'C11',
}

S = c11lib.SIZES            # (1, 7, 8, 9, 17)
R = c11lib.REAL_CHUNK       # the driver's own out_buffer_size (4096)
BIG = 300 * R + 1           # 301 chunks, 1.2 MB: far more than the reactor's chunk size
SMALL = 100                 # one chunk
TWO = R + 1                 # two chunks
TW_SLOW = 16 * R            # twisted slow peer: at most 64 KiB per doWrite


def _large(msgs, cap=0, **kw):
    """A large-message asyncio world: real out_buffer_size, no delayed-sendall choice (the peer's pace is fixed by
    slow=), line_cap as given (0: scheduling points only at the hand-over primitives)."""
    d = {'reactor': 'asyncio', 'msgs': msgs, 'later': 0, 'chunk': R, 'line_cap': cap, 'horizon': 200000}
    d.update(kw)
    return d


def large_plan(ctx):
    """Messages of hundreds of chunks against a small push of another thread, fast / slow / previously stalled peer."""
    out = []
    G = 'asyncio LARGE '
    out.append((G + '301-chunk message vs 1-chunk message, fast peer, first 2 executions of every reactor-module line + hand-over '
                'points, bound 1', _large([[BIG], [SMALL]], cap=2), 1))
    out.append((G + '301-chunk message vs 1-chunk message, slow peer (1 chunk per loop turn), hand-over points, bound 1',
                _large([[BIG], [SMALL]], slow=1), 1))
    out.append((G + '301-chunk message vs 2-chunk message, slow peer, hand-over points, bound 1',
                _large([[BIG], [TWO]], slow=1), 1))
    out.append((G + '21-chunk message vs 1-chunk message behind 250 earlier chunks (peer stalled, then slow), hand-over points, bound 1',
                _large([[20 * R + 1], [SMALL]], prefill=[250 * R], slow=1), 1))
    out.append((G + 'two 1-chunk messages of one thread behind 300 earlier chunks (peer stalled, then slow), hand-over points, bound 1',
                _large([[SMALL, SMALL + 1]], prefill=[300 * R], slow=1), 1))
    out.append((G + '301-chunk message of a pusher vs 1-chunk push from the loop thread, slow peer, hand-over points, bound 1',
                _large([[BIG]], loop=[SMALL], slow=1), 1))
    if not ctx.quick:
        out.append((G + '301-chunk message vs 1-chunk message, fast peer, hand-over points, bound 2', _large([[BIG], [SMALL]]), 2))
        out.append((G + '301-chunk message vs 2-chunk message, fast peer, first 2 executions of every line, bound 1',
                    _large([[BIG], [TWO]], cap=2), 1))
        out.append((G + '301-chunk message vs 1-chunk message, slow peer (1 chunk per 2 loop turns), hand-over points, bound 1',
                    _large([[BIG], [SMALL]], slow=2), 1))
        out.append((G + '301-chunk message vs 1-chunk message, slow peer, first 2 executions of every line, bound 1',
                    _large([[BIG], [SMALL]], cap=2, slow=1), 1))
        out.append((G + '2401-byte message = 301 chunks of out_buffer_size 8 vs 1-chunk message, slow peer, hand-over points, bound 1',
                    _large([[300 * c11lib.N + 1], [1]], slow=1, chunk=c11lib.N), 1))
        out.append((G + '21-chunk message vs 2-chunk message behind 250 earlier chunks, hand-over points, bound 1',
                    _large([[20 * R + 1], [TWO]], prefill=[250 * R], slow=1), 1))
        out.append((G + '21-chunk message vs 1-chunk message behind two earlier messages of 125 chunks, hand-over points, bound 1',
                    _large([[20 * R + 1], [SMALL]], prefill=[125 * R, 125 * R], slow=1), 1))
        out.append((G + '301-chunk message pushed from the loop thread vs 1-chunk message of a pusher, slow peer, hand-over points, bound 1',
                    _large([[SMALL]], loop=[BIG], slow=1), 1))
    if c11lib.TWISTED_ERROR is None:
        # bound 1 in every large twisted world: a reactor that hands a message over in pieces has hundreds of hand-over
        # points per push here, and the number of schedules with 2 preemptions grows with the square of that
        out.append(('twisted LARGE 1.2 MB message vs 100-byte message, slow peer (<=64 KiB per doWrite), bound 1',
                    {'reactor': 'twisted', 'msgs': [[BIG], [SMALL]], 'partial': 0, 'chunk': R, 'line_cap': 2, 'slow_bytes': TW_SLOW, 'horizon': 200000}, 1))
        if not ctx.quick:
            out.append(('twisted LARGE 1.2 MB message vs 100-byte message, slow peer, <=1 short write, bound 1',
                        {'reactor': 'twisted', 'msgs': [[BIG], [SMALL]], 'partial': 1, 'chunk': R, 'line_cap': 2, 'slow_bytes': TW_SLOW, 'horizon': 200000}, 1))
            out.append(('twisted LARGE 1.2 MB message of a pusher vs 100-byte push from the reactor thread, slow peer, bound 1',
                        {'reactor': 'twisted', 'msgs': [[BIG]], 'loop': [SMALL], 'partial': 0, 'chunk': R, 'line_cap': 2, 'slow_bytes': TW_SLOW,
                         'horizon': 200000}, 1))
    return out


def plan(ctx):
    """[(group, params, preemption bound)] -- every entry is explored completely within its bound."""
    out = []
    pairs = list(itertools.product(S, repeat=2))
    A = 'asyncio'
    if ctx.quick:
        for a, b in pairs:
            out.append(('asyncio 2x1 all size pairs, bound 1, <=1 delayed sendall',
                        {'reactor': A, 'msgs': [[a], [b]], 'later': 1}, 1))
        out.append(('asyncio 2x1 smallest configuration, bound 2, <=1 delayed sendall', {'reactor': A, 'msgs': [[1], [1]], 'later': 1}, 2))
        for m in ([[9, 1], [17]], [[17, 9], [8, 1]]):
            out.append(('asyncio 2 messages per thread, bound 1', {'reactor': A, 'msgs': m, 'later': 1}, 1))
        for m, lp in (([[9]], [17]), ([[1]], [9, 17]), ([[17]], [1, 9])):
            out.append(('asyncio pushes from the loop thread, bound 1', {'reactor': A, 'msgs': m, 'loop': lp, 'later': 1}, 1))
        out.append(('asyncio 2 pushers + a push from the loop thread, bound 1, no delayed sendall',
                    {'reactor': A, 'msgs': [[1], [9]], 'loop': [9], 'later': 0}, 1))
        for a, b in pairs:
            out.append(('asyncio loop thread alone pushes every ordered size pair inside one callback, bound 1, <=1 delayed sendall',
                        {'reactor': A, 'msgs': [], 'loop': [a, b], 'later': 1}, 1))
            out.append(('asyncio 1 pusher + every ordered size pair pushed by the loop thread inside one callback, bound 1, '
                        'no delayed sendall', {'reactor': A, 'msgs': [[9]], 'loop': [a, b], 'later': 0}, 1))
        for m in ([[9], [17]], [[1], [9]]):
            out.append(('asyncio cold start (watchers and OPTIONS still queued), bound 1',
                        {'reactor': A, 'msgs': m, 'later': 1, 'cold': True}, 1))
        out.append(('asyncio 3 pushers, bound 1, no delayed sendall', {'reactor': A, 'msgs': [[1], [1], [1]], 'later': 0}, 1))
        out.append(('asyncio 3 pushers, bound 1, no delayed sendall', {'reactor': A, 'msgs': [[9], [1], [17]], 'later': 0}, 1))
    else:
        three = (1, 9, 17)
        for a, b in pairs:
            out.append(('asyncio 2x1 all size pairs, bound 2, <=1 delayed sendall',
                        {'reactor': A, 'msgs': [[a], [b]], 'later': 1}, 2))
            out.append(('asyncio 2x1 all size pairs, bound 1, <=2 delayed sendalls',
                        {'reactor': A, 'msgs': [[a], [b]], 'later': 2}, 1))
        for a, b, c in itertools.product(three, repeat=3):
            out.append(('asyncio 3 pushers {1,9,17}^3, bound 1, no delayed sendall', {'reactor': A, 'msgs': [[a], [b], [c]], 'later': 0}, 1))
        for m in ([[1], [1], [1]], [[9], [1], [17]], [[17], [17], [9]]):
            out.append(('asyncio 3 pushers, bound 1, <=1 delayed sendall', {'reactor': A, 'msgs': m, 'later': 1}, 1))
        for a, b in itertools.product(three, repeat=2):
            out.append(('asyncio 2x2 messages, bound 1', {'reactor': A, 'msgs': [[a, 9], [b, 17]], 'later': 1}, 1))
            out.append(('asyncio 2 pushers + a push from the loop thread, bound 1',
                        {'reactor': A, 'msgs': [[a], [b]], 'loop': [9], 'later': 1}, 1))
            out.append(('asyncio 1 pusher + 2 pushes from the loop thread, bound 1',
                        {'reactor': A, 'msgs': [[a]], 'loop': [b, 9], 'later': 1}, 1))
            out.append(('asyncio cold start (watchers and OPTIONS still queued), bound 1',
                        {'reactor': A, 'msgs': [[a], [b]], 'later': 1, 'cold': True}, 1))
        for a, b in pairs:
            out.append(('asyncio loop thread alone pushes every ordered size pair inside one callback, bound 2, <=2 delayed sendalls',
                        {'reactor': A, 'msgs': [], 'loop': [a, b], 'later': 2}, 2))
            for p in three:
                out.append(('asyncio 1 pusher {1,9,17} + every ordered size pair pushed by the loop thread inside one callback, '
                            'bound 1, <=1 delayed sendall', {'reactor': A, 'msgs': [[p]], 'loop': [a, b], 'later': 1}, 1))
        for t in itertools.product(S, repeat=3):
            out.append(('asyncio loop thread alone pushes every ordered size triple inside one callback, bound 1, <=2 delayed sendalls',
                        {'reactor': A, 'msgs': [], 'loop': list(t), 'later': 2}, 1))
        for t in itertools.product(three, repeat=3):
            out.append(('asyncio 1 pusher + every ordered triple over {1,9,17} pushed by the loop thread inside one callback, bound 1, '
                        'no delayed sendall', {'reactor': A, 'msgs': [[9]], 'loop': list(t), 'later': 0}, 1))
        out.append(('asyncio 1 pusher + a push from the loop thread, bound 2', {'reactor': A, 'msgs': [[1]], 'loop': [9], 'later': 1}, 2))
        out.append(('asyncio 1 pusher + a push from the loop thread, bound 2', {'reactor': A, 'msgs': [[9]], 'loop': [1], 'later': 1}, 2))
        out.append(('asyncio cold start, bound 2', {'reactor': A, 'msgs': [[1], [1]], 'later': 0, 'cold': True}, 2))
    if c11lib.TWISTED_ERROR is None:
        T = 'twisted'
        if ctx.quick:
            for a, b in pairs:
                out.append(('twisted 2x1 all size pairs, bound 2, <=1 short write',
                            {'reactor': T, 'msgs': [[a], [b]], 'partial': 1}, 2))
            for m in ([[9, 1], [17]], [[17, 9], [8, 1]]):
                out.append(('twisted 2 messages per thread, bound 2', {'reactor': T, 'msgs': m, 'partial': 1}, 2))
            for m, lp in (([[9]], [17]), ([[17]], [1, 9])):
                out.append(('twisted pushes from the reactor thread, bound 2', {'reactor': T, 'msgs': m, 'loop': lp, 'partial': 1}, 2))
            out.append(('twisted 2 pushers + pushes from the reactor thread, bound 1',
                        {'reactor': T, 'msgs': [[1], [9]], 'loop': [17], 'partial': 1}, 1))
            for a, b in pairs:
                out.append(('twisted reactor thread alone pushes every ordered size pair inside one call, bound 2, <=1 short write',
                            {'reactor': T, 'msgs': [], 'loop': [a, b], 'partial': 1}, 2))
                out.append(('twisted 1 pusher + every ordered size pair pushed by the reactor thread inside one call, bound 1, '
                            '<=1 short write', {'reactor': T, 'msgs': [[9]], 'loop': [a, b], 'partial': 1}, 1))
            out.append(('twisted 3 pushers, bound 2, no short write', {'reactor': T, 'msgs': [[9], [1], [17]], 'partial': 0}, 2))
        else:
            for a, b in pairs:
                out.append(('twisted 2x1 all size pairs, bound 3, <=2 short writes',
                            {'reactor': T, 'msgs': [[a], [b]], 'partial': 2}, 3))
            for a, b in itertools.product((1, 9, 17), repeat=2):
                out.append(('twisted 2x2 messages, bound 2', {'reactor': T, 'msgs': [[a, 9], [b, 17]], 'partial': 1}, 2))
                out.append(('twisted 1 pusher + 2 pushes from the reactor thread, bound 2',
                            {'reactor': T, 'msgs': [[a]], 'loop': [b, 9], 'partial': 1}, 2))
                out.append(('twisted 2 pushers + a push from the reactor thread, bound 1',
                            {'reactor': T, 'msgs': [[a], [b]], 'loop': [9], 'partial': 1}, 1))
            for a, b in pairs:
                for p in (1, 9, 17):
                    out.append(('twisted 1 pusher {1,9,17} + every ordered size pair pushed by the reactor thread inside one call, '
                                'bound 2, <=1 short write', {'reactor': T, 'msgs': [[p]], 'loop': [a, b], 'partial': 1}, 2))
            for t in itertools.product(S, repeat=3):
                out.append(('twisted reactor thread alone pushes every ordered size triple inside one call, bound 3, <=2 short writes',
                            {'reactor': T, 'msgs': [], 'loop': list(t), 'partial': 2}, 3))
            for t in itertools.product((1, 9, 17), repeat=3):
                out.append(('twisted 1 pusher + every ordered triple over {1,9,17} pushed by the reactor thread inside one call, '
                            'bound 2, <=1 short write', {'reactor': T, 'msgs': [[9]], 'loop': list(t), 'partial': 1}, 2))
            for a, b, c in itertools.product((1, 9, 17), repeat=3):
                out.append(('twisted 3 pushers {1,9,17}^3, bound 2', {'reactor': T, 'msgs': [[a], [b], [c]], 'partial': 1}, 2))
    return out + large_plan(ctx)


def _short(params):
    d = '%s %r' % (params['reactor'], params['msgs'])
    if params.get('loop'):
        d += '+loop%r' % (params['loop'],)
    if params.get('cold'):
        d += ' cold'
    d += ' later<=%d' % params['later'] if 'later' in params else ' short<=%d' % params.get('partial', 0)
    if params.get('chunk'):
        d += ' out_buffer_size=%d' % params['chunk']
    if params.get('prefill'):
        d += ' earlier%r' % (params['prefill'],)
    if params.get('slow'):
        d += ' slow=%d' % params['slow']
    if params.get('slow_bytes'):
        d += ' <=%dB/doWrite' % params['slow_bytes']
    if params.get('line_cap') is not None:
        d += ' line_cap=%d' % params['line_cap']
    return d


def _execute(params, prefix, part):
    before = len(part.violations)
    s = c11lib.run_any(params, prefix, part)
    if len(part.violations) > before:
        # a violation is believed only if the recorded choice list reproduces it in a fresh world
        again = Part()
        s2 = c11lib.run_any(params, s.choices(), again)
        want = sorted(fp for fp, _, _ in part.violations[before:])
        got = sorted(fp for fp, _, _ in again.violations)
        if s2.choices() != s.choices() or any(fp not in got for fp in want):
            raise HarnessError('C11: a violating execution did not replay identically: %r %r: %r then %r' % (
                params, s.choices(), want, got))
    part.count('executions')
    part.count('transitions', s.steps)
    part.count('choice_points', len(s.trace))
    return s


def _roots(args):
    """Run the default execution of each configuration; return its one-deviation children."""
    part = Part()
    kids = []
    for idx, params, bound in args:
        s = _execute(params, [], part)
        part.count('cfg%d' % idx)
        for k, _ in sched.children(s.trace, 0, bound):
            kids.append((idx, k))
    return part, kids


def _subtrees(args):
    """Explore completely the subtree below each given prefix (depth first; a subtree is disjoint from its
    siblings because children() only deviates after the prefix)."""
    cfgs, items = args
    part = Part()
    for idx, prefix in items:
        params, bound = cfgs[idx]
        stack = [prefix]
        while stack:
            p = stack.pop()
            s = _execute(params, p, part)
            part.count('cfg%d' % idx)
            stack.extend(k for k, _ in sched.children(s.trace, len(p), bound))
    return part


def run(ctx):
    if not c11lib.selftest():
        raise HarnessError('C11 oracle self-test failed')
    entries = plan(ctx)
    for _, params, _ in entries:
        c11lib.programs_of(params)      # large messages are built once, here, and inherited by the forked workers
    order = ctx.rotate(list(range(len(entries))))
    cfgs = dict((i, (entries[i][1], entries[i][2])) for i in order)
    n = max(1, ctx.nproc)
    rootjobs = [[(i, entries[i][1], entries[i][2]) for i in order[k::n]] for k in range(n) if order[k::n]]
    kids = []
    for part, ks in ctx.pmap(_roots, rootjobs):
        ctx.merge(part)
        kids.extend(ks)
    # deal the subtrees round-robin, the ones of bound-2 configurations (the big ones) first
    kids.sort(key=lambda k: (-cfgs[k[0]][1], order.index(k[0])))
    nchunks = max(1, n * 12)
    jobs = [(cfgs, kids[k::nchunks]) for k in range(nchunks) if kids[k::nchunks]]
    samples = {}
    for part in ctx.pmap(_subtrees, jobs):
        for x in part.samples:
            samples.setdefault(tuple(x.pop('kind')), x)
        del part.samples[:]
        ctx.merge(part)
    by_reactor = {}
    for key in sorted(samples, key=lambda k: (not k[4], not k[1], not k[2], k[3])):     # one per kind of configuration
        by_reactor.setdefault(key[0], []).append(samples[key])
    for xs in itertools.zip_longest(*[by_reactor[r] for r in sorted(by_reactor)]):
        for x in xs:
            if x is not None:
                ctx.sample(x, limit=6)
    per_group, per_cfg = {}, []
    for i, (group, params, bound) in enumerate(entries):
        g = per_group.setdefault(group, {'configurations': 0, 'executions': 0, 'preemption_bound': bound})
        nexec = ctx.counters.pop('cfg%d' % i, 0)
        g['configurations'] += 1
        g['executions'] += nexec
        per_cfg.append('%s bound %d: %d executions' % (_short(params), bound, nexec))
    ctx.cov['groups'] = per_group
    ctx.cov['configurations'] = per_cfg
    ctx.count('states', ctx.counters.get('executions', 0))
    ctx.count('distinct_nontrivial', ctx.counters.get('executions_with_overlapping_pushes', 0))
    ctx.cov['out_buffer_size'] = c11lib.N
    ctx.cov['out_buffer_size_large_message_configurations'] = R
    ctx.cov['largest_message_bytes'] = BIG
    ctx.cov['line_granular_files'] = list(c11lib.ASYNCIO_FOCUS_FILES) + list(getattr(c11lib, 'TWISTED_FOCUS_FILES', ()))
    ctx.cov['rule'] = ('evaluations = executions = distinct (configuration, schedule, environment script) triples, every one within the '
                       'group\'s preemption bound, all run to quiescence; states = executions (stateless search); non-trivial = '
                       'execution in which two messages of different threads were in flight together (each push() entered before the '
                       'other message\'s last byte reached the socket; executions in which the loop thread alone pushes are therefore never '
                       'counted as non-trivial, see the counters executions_with_*_inside_one_loop_callback); outcomes = reactor + order of whole messages on the socket')
    ctx.cov['exhaustive'] = True
    ctx.assume('line-level atomicity of CPython statements (DESIGN.md 3.1); preemption bounds as listed per group')
    ctx.assume('a sock_sendall that cannot complete at once completes one loop turn later, whole (no other coroutine of the driver '
               'writes to the socket); at most 1 (thorough: 2) such answers per execution')
    ctx.assume('the virtual loops run ready callbacks FIFO like BaseEventLoop._run_once / ReactorBase.runUntilCurrent')
    ctx.assume('large-message configurations: message size <= 301 chunks of the real out_buffer_size (%d bytes), <=322 chunks in '
               'flight; scheduling points only at call_soon_threadsafe / loop turn / thread start and end (plus, where stated, the first '
               '2 executions of every reactor-module line per thread); slow peer = every sock_sendall completes exactly k loop turns '
               'later (k = 1; thorough also 2), twisted: <=%d bytes per doWrite; a stalled peer resumes when the explored phase starts'
               % (R, TW_SLOW))
    if c11lib.TWISTED_ERROR is not None:
        ctx.assume('twisted reactor NOT covered: cassandra.io.twistedreactor cannot be imported here (%s)' % c11lib.TWISTED_ERROR)
    else:
        ctx.assume('twisted: pushes happen on an established connection (push() before connectionMade has no transport and is '
                   'outside the statement); a short socket write takes half of the buffered bytes, at most 1 (thorough: 2) per execution')


def replay(ctx, data):
    part = Part()
    c11lib.run_any(data['params'], data['prefix'], part)
    for fp, what, _ in part.violations:
        print(fp, '::', what)
    return bool(part.violations)
