"""C11 Messages pushed concurrently reach the socket whole and in order.

Engine S on the REAL cassandra.io.asyncioreactor.AsyncioConnection (only _connect_socket is
replaced, by a fake socket) over a virtual asyncio event loop: the loop is one virtual thread that
runs one ready handle per step, pusher threads call push() concurrently, sock_sendall completes at
once or one loop turn later (data choice).  All schedules within the preemption bound.
"""
import asyncio
import itertools
import logging
from asyncio import events

from vt import sched, vthreading
from vt.world import vworld       # noqa: F401
from vt.core import Part

import cassandra.connection as conn_mod
import cassandra.io.asyncioreactor as ar

META = {
    'level': 'model_checking',
    'engine': 'S',
    'technique': 'stateless schedule exploration (preemption-bounded) of pusher threads against a virtual asyncio loop running the real AsyncioConnection coroutines',
    'text': 'Real AsyncioConnection (push, _push_msg, handle_write, asyncio.Queue/Lock/Task machinery of the stdlib) with '
            'out_buffer_size lowered to 8: 2 pusher threads (thorough: 3) x 1-2 messages each with sizes from {1, 7, 8, 9, 17}, plus a '
            'variant pushing from the loop thread itself; scheduling points at every line of push(), at every loop turn and at '
            'every call_soon_threadsafe; sock_sendall finishing immediately or one turn later is an explored environment answer.  '
            'Oracle: bytes handed to the socket = the handshake OPTIONS frame followed by every pushed message exactly once, each '
            'contiguous, in an order consistent with each thread\'s push order.',
    'note': 'The event loop is asyncio.BaseEventLoop with time/_process_events/_write_to_self/sock_* replaced; Task, Queue, Lock, '
            'run_coroutine_threadsafe are the stock ones.  Only the asyncio reactor is exercised here (twisted writes each message with '
            'one callFromThread(transport.write, data), which cannot split a message).',
    'design_ref': 'C11',
}

logging.getLogger('asyncio').setLevel(logging.CRITICAL)


class FakeSocket(object):
    def __init__(self):
        self.sent = []

    def setblocking(self, b):
        pass

    def fileno(self):
        return 99

    def close(self):
        pass


class VLoop(asyncio.BaseEventLoop):
    def __init__(self, s):
        asyncio.BaseEventLoop.__init__(self)
        self._vs = s
        self._vtime = 0.0

    def time(self):
        return self._vtime

    def _process_events(self, event_list):
        pass

    def _write_to_self(self):
        self._vs.point('call_soon_threadsafe')

    async def sock_sendall(self, sock, data):
        if self._vs.choose(2, 'sendall-later'):
            await asyncio.sleep(0)
        sock.sent.append(bytes(data))

    async def sock_recv(self, sock, n):
        return await self.create_future()      # the server stays silent

    def remove_reader(self, fd):
        pass

    def remove_writer(self, fd):
        pass


class LoopThreadStub(object):
    ident = None


class VAsyncioConnection(ar.AsyncioConnection):
    out_buffer_size = 8

    def _connect_socket(self):
        self._socket = FakeSocket()


FOCUS = [ar.AsyncioConnection.push.__code__]


def _dispose(loop):
    """Cancel what is still pending (the read/write watchers wait for ever) and let the
    cancellations run, so that nothing is left for the garbage collector to complain about."""
    loop._vs = _NoSched()
    events._set_running_loop(loop)
    try:
        for task in asyncio.all_tasks(loop):
            task.cancel()
        guard = 0
        while loop._ready and guard < 1000:
            h = loop._ready.popleft()
            if not h._cancelled:
                h._run()
            guard += 1
    except Exception:
        pass
    finally:
        events._set_running_loop(None)
        try:
            loop.close()
        except Exception:
            pass


class _NoSched(object):
    def point(self, *a):
        pass

    def choose(self, n, label='', cost=0):
        return 0


def harness(params, prefix, part):
    s = sched.Scheduler(prefix, focus=FOCUS, horizon=6000)
    loop = VLoop(s)
    stub = LoopThreadStub()
    saved = (ar.AsyncioConnection._loop, ar.AsyncioConnection._loop_thread,
             conn_mod.RLock, conn_mod.Event, conn_mod.Condition)
    ar.AsyncioConnection._loop = loop
    ar.AsyncioConnection._loop_thread = stub
    VAsyncioConnection._loop, VAsyncioConnection._loop_thread = loop, stub
    conn_mod.RLock, conn_mod.Event, conn_mod.Condition = vthreading.VRLock, vthreading.VEvent, vthreading.VCondition
    msgs = params['msgs']          # list per thread of message sizes
    payload = {}
    k = 0
    for ti, sizes in enumerate(msgs):
        for mi, n in enumerate(sizes):
            payload[(ti, mi)] = bytes([65 + k]) * n
            k += 1
    state = {'done': 0}
    c = None
    try:
        c = VAsyncioConnection('10.0.0.1', protocol_version=4)
        handshake = b''.join(c._v_first) if hasattr(c, '_v_first') else None

        def pusher(ti):
            def body():
                try:
                    for mi in range(len(msgs[ti])):
                        c.push(payload[(ti, mi)])
                finally:
                    state['done'] += 1
            return body

        npush = len([m for m in msgs if m])
        from_loop = params.get('from_loop')

        def loop_body():
            import threading
            stub.ident = threading.get_ident()
            events._set_running_loop(loop)
            try:
                if from_loop:
                    loop.call_soon(c.push, b'L' * from_loop)
                idle = 0
                while True:
                    if loop._ready:
                        h = loop._ready.popleft()
                        if not h._cancelled:
                            h._run()
                        s.point('loop-turn')
                    elif state['done'] >= npush:
                        break
                    else:
                        s.block(lambda: bool(loop._ready) or state['done'] >= npush, None, 'loop idle')
            finally:
                events._set_running_loop(None)

        s.spawn(loop_body, 'loop')
        for ti in range(len(msgs)):
            if msgs[ti]:
                s.spawn(pusher(ti), 'pusher%d' % ti)
        s.run()
    finally:
        _dispose(loop)
        (ar.AsyncioConnection._loop, ar.AsyncioConnection._loop_thread,
         conn_mod.RLock, conn_mod.Event, conn_mod.Condition) = saved
    data = {'params': params, 'prefix': s.choices()}
    if s.failure:
        part.violation('C11/%s' % s.failure[0], s.failure[1], data)
        return s
    for t in s.threads:
        if t.exc is not None:
            part.violation('C11/thread-exception/%s' % type(t.exc).__name__, '%r in %s' % (t.exc, t.name), data)
            return s
    wire_bytes = b''.join(c._socket.sent)
    expected = list(payload.values()) + ([b'L' * params['from_loop']] if params.get('from_loop') else [])
    # strip the OPTIONS frame the constructor pushed (9-byte v4 header, empty body)
    body = wire_bytes
    opt = None
    if len(body) >= 9 and body[0] == 0x04 and body[4] == 0x05:
        opt, body = body[:9], body[9:]
    part.outcome(('options' if opt else 'no-options', len(body), sum(len(e) for e in expected)))
    if opt is None:
        part.violation('C11/handshake-not-written', 'the OPTIONS frame never reached the socket (socket got %r)' % (wire_bytes[:40],), data)
    # parse body as a sequence of whole messages (each message is a run of one distinct byte)
    pos = 0
    seen = []
    ok = True
    while pos < len(body):
        b = body[pos]
        cand = [m for m in expected if m and m[0] == b]
        if not cand:
            ok = False
            break
        m = cand[0]
        if body[pos:pos + len(m)] != m:
            ok = False
            break
        seen.append(m)
        pos += len(m)
    if not ok:
        part.violation('C11/message-split-or-interleaved', 'socket bytes %r are not a concatenation of whole messages %r' % (body, expected), data)
    else:
        missing = [m for m in expected if m not in seen]
        dup = [m for m in seen if seen.count(m) > 1]
        if missing:
            part.violation('C11/message-missing', 'messages never written: %r (socket %r)' % (missing, body), data)
        if dup:
            part.violation('C11/message-duplicated', 'messages written twice: %r' % (dup,), data)
        for ti, sizes in enumerate(msgs):
            idx = [seen.index(payload[(ti, mi)]) for mi in range(len(sizes)) if payload[(ti, mi)] in seen]
            if idx != sorted(idx):
                part.violation('C11/thread-order', 'thread %d messages written out of order: %r' % (ti, body), data)
    if any(p.chosen for p in s.trace):
        part.mark_nontrivial(repr((params, s.choices())))
    part.sample({'params': params, 'choices': s.choices(), 'socket': body.decode('latin1')}, limit=1)
    return s


def configs(ctx):
    sizes = [1, 7, 8, 9, 17]
    out = []
    for a, b in itertools.product(sizes, repeat=2):
        out.append({'msgs': [[a], [b]]})
    for a in (1, 9, 17):
        for b in (8, 9):
            out.append({'msgs': [[a, b], [17]]})
            out.append({'msgs': [[a], [b]], 'from_loop': 9})
    if ctx.thorough:
        for a, b, c in itertools.product((1, 9, 17), repeat=3):
            out.append({'msgs': [[a], [b], [c]]})
        for a, b in itertools.product(sizes, repeat=2):
            out.append({'msgs': [[a, 9], [b, 17]]})
    return out


def _chunk(args):
    cfgs, bound = args
    part = Part()
    for params in cfgs:
        frontier = [[]]
        while frontier:
            nxt = []
            for prefix in frontier:
                s = harness(params, prefix, part)
                part.count('executions')
                part.count('transitions', s.steps)
                nxt.extend(k for k, _ in sched.children(s.trace, len(prefix), bound))
            frontier = nxt
    return part


def run(ctx):
    bound = 1 if ctx.quick else 2
    cfgs = ctx.rotate(configs(ctx))
    n = ctx.nproc * 2
    for part in ctx.pmap(_chunk, [(cfgs[i::n], bound) for i in range(n) if cfgs[i::n]]):
        ctx.merge(part)
    ctx.count('states', ctx.counters.get('executions', 0))
    ctx.cov['preemption_bound'] = bound
    ctx.cov['rule'] = ('message-size configurations x every schedule within the preemption bound x every sendall-completion script; '
                       'non-trivial = execution with a non-default choice')
    ctx.cov['exhaustive'] = True
    ctx.assume('the asyncio reactor is the event-loop reactor usable on this interpreter besides twisted; asyncore/libev cannot be imported')


def replay(ctx, data):
    part = Part()
    harness(data['params'], data['prefix'], part)
    for fp, what, _ in part.violations:
        print(fp, '::', what)
    return bool(part.violations)
