"""C42 Node-list refreshes make cluster metadata mirror the system tables.

Engine E: breadth-first search over sequences of system.local / system.peers(_v2) snapshots served
by the virtual node to a real Cluster (control connection, session, pools); every snapshot is
followed by ControlConnection.refresh_node_list_and_token_map().  After every refresh the real
Metadata, the notifications seen by a registered HostStateListener, the calls seen by a recording
load-balancing policy, the query plans and distances of real DCAwareRoundRobinPolicy / TokenAwarePolicy
instances and the token map are compared with the reference vt/spec/nodelist.py.
"""
import uuid

from vt import explore
from vt.world import vworld   # noqa: F401  imported here so that forked workers inherit the loaded driver
from vt.world.vworld import World, VServer, HostSpec
from vt.spec import nodelist, partitioners

META = {
    'level': 'model_checking',
    'engine': 'E',
    'technique': 'explicit-state BFS over sequences of system-table snapshots on a real Cluster/ControlConnection/Metadata over the virtual node, canonical-state dedup, reference mirror',
    'text': 'All sequences of up to 3 snapshots; a snapshot is a system.local row (base / other datacenter / other rack / other tokens) plus up to 3 '
            '(quick) / 5 (thorough) peer rows, each peer row one of {valid, other datacenter, other rack, other tokens, other native port, no address, no '
            'host_id, no data_center, no rack (these four keep their non-empty tokens), null tokens, empty token set, no host_id and null tokens, no '
            'data_center and empty token set, no rack and null tokens} (per configuration a stated subset for the second and third peer), optionally '
            'a second row with the endpoint of another peer or of the control node; every row that must be ignored is served both for an endpoint that '
            'is a known host at that moment and for a new one (counters ignored_rows/...); '
            'system.peers_v2 and system.peers dialects, token metadata on and off.  After each refresh: known hosts = control node + valid distinct '
            'peers; host datacenter/rack/host_id as in the rows; listener on_add once per new host and on_remove once per vanished host, none else; '
            'for a known host whose datacenter or rack changed (at the first, second or third refresh; control node and peers) a recording '
            'load-balancing policy saw on_down while the host still showed its old location, then on_up with the new one; three real location-keyed '
            'policies attached to the profile manager before the first refresh - DCAwareRoundRobinPolicy(local dc1) using all remote hosts, the same '
            'using none, and TokenAwarePolicy over the first - are judged after every refresh against the snapshot: distance() of every known host '
            '(LOCAL in dc1, else REMOTE / IGNORED) and their query plans (a full round-robin turn + 1; for the token-aware one a statement per probe '
            'routing key): every host the policy uses exactly once, nothing else (no vanished host, no host twice), dc1 hosts before the others, '
            'the dc1 primary replica first; '
            'token map owners and get_replicas() (SimpleStrategy rf=1 keyspace) equal the ring of the last snapshot.',
    'note': 'Every peer address accepts connections.  A peers row whose address column is null but whose `peer` column is set is not generated '
            '(the driver documents a fall-back to `peer`; the statement does not say).  Rows sharing an endpoint agree on location and tokens.',
    'design_ref': 'C42',
}

CONTROL = 1
LOCAL_DC = 'dc1'
# real location-keyed policies attached next to the recording one: (profile name, remote hosts used?, token aware?)
DC_POLICIES = [('dcaware', True, False), ('dcaware-local-only', False, False), ('tokenaware-dcaware', True, True)]
REMOTE_USED = 8      # used_hosts_per_remote_dc of the policies that use remote hosts: more than the hosts that exist
PROBES = [b'a', b'b', b'c', b'd', b'e', b'f', b'g', b'h']
# a kind 'x&y' applies both changes to the row.  no_host_id / no_dc / no_rack alone keep their (non-empty) tokens
ROW_KINDS = ['valid', 'dc2', 'r2', 'tokB', 'port2', 'no_addr', 'no_host_id', 'no_dc', 'no_rack', 'null_tokens', 'empty_tokens',
             'no_host_id&null_tokens', 'no_dc&empty_tokens', 'no_rack&null_tokens']
TOKEN_KINDS = ('tokB', 'null_tokens', 'empty_tokens')


def token_kind(kind):
    return any(k in TOKEN_KINDS for k in kind.split('&'))


def addr(i):
    return '10.0.0.%d' % i


def ep(i, port=9042):
    return (addr(i), port)


def hkey(host):
    return (host.endpoint.address, host.endpoint.port)


def nsort(items):
    """deterministic order for values observed on the driver: a host that was wrongly accepted may carry None
    where a valid one has a string (address, datacenter, rack, host_id), which plain tuple comparison rejects"""
    return sorted(items, key=repr)


def tokens(i, variant):
    base = -8000000000000000000 + i * 2500000000000000000
    if variant == 'A':
        return [str(base), str(base + 1000000000000000000)]
    return [str(base + 400000000000000000), str(base + 1400000000000000000)]


def host_id(i, dup=False):
    return uuid.UUID(int=(0x2000 if dup else 0x1000) + i)


def local_row(kind):
    r = {'key': 'local', 'host_id': host_id(CONTROL), 'cluster_name': 'vcluster', 'data_center': 'dc1', 'rack': 'r1',
         'partitioner': 'org.apache.cassandra.dht.Murmur3Partitioner', 'release_version': '4.0.0',
         'schema_version': uuid.UUID(int=0xabc), 'rpc_address': addr(CONTROL), 'broadcast_address': addr(CONTROL),
         'listen_address': addr(CONTROL), 'tokens': tokens(CONTROL, 'A')}
    if kind == 'dc2':
        r['data_center'] = 'dc2'
    elif kind == 'r2':
        r['rack'] = 'r2'
    elif kind == 'tokB':
        r['tokens'] = tokens(CONTROL, 'B')
    return r


def peer_row(desc, v2):
    i, kind = desc
    dup = kind == 'dup'
    r = {'peer': addr(i) if not dup else '10.0.1.%d' % i, 'host_id': host_id(i, dup), 'data_center': 'dc1', 'rack': 'r1',
         'release_version': '4.0.0', 'schema_version': uuid.UUID(int=0xabc), 'tokens': tokens(i, 'A')}
    col = 'native_address' if v2 else 'rpc_address'
    r[col] = addr(i)
    if v2:
        r['peer_port'] = 7000
        r['native_port'] = 9042
    for k in kind.split('&'):
        if k == 'dc2':
            r['data_center'] = 'dc2'
        elif k == 'r2':
            r['rack'] = 'r2'
        elif k == 'tokB':
            r['tokens'] = tokens(i, 'B')
        elif k == 'port2':       # the node now listens on another native port: a different endpoint (peers_v2 only)
            r['native_port'] = 9043
        elif k == 'no_addr':
            r[col] = None
            r['peer'] = None
        elif k == 'no_host_id':
            r['host_id'] = None
        elif k == 'no_dc':
            r['data_center'] = None
        elif k == 'no_rack':
            r['rack'] = None
        elif k == 'null_tokens':
            r['tokens'] = None
        elif k == 'empty_tokens':
            r['tokens'] = []
        elif k not in ('valid', 'dup'):
            raise ValueError(kind)
    return r


class St(object):
    def __init__(self, params):
        from cassandra.cluster import ExecutionProfile, EXEC_PROFILE_DEFAULT
        from cassandra.policies import RoundRobinPolicy, HostStateListener, DCAwareRoundRobinPolicy, TokenAwarePolicy
        from cassandra.metadata import KeyspaceMetadata
        self.p = params
        self.v2 = params['v2']
        self.need_tokens = params['tokens']
        st = self
        self.rows = []
        self.local = local_row('base')
        self.snapshot = ('base', ())
        self.lbp_events = []
        self.listener_events = []

        class RecLBP(RoundRobinPolicy):
            def on_up(self, host):
                st.lbp_events.append(('up', hkey(host), host.datacenter, host.rack))
                RoundRobinPolicy.on_up(self, host)

            def on_down(self, host):
                st.lbp_events.append(('down', hkey(host), host.datacenter, host.rack))
                RoundRobinPolicy.on_down(self, host)

            def on_add(self, host):
                st.lbp_events.append(('add', hkey(host), host.datacenter, host.rack))
                RoundRobinPolicy.on_add(self, host)

            def on_remove(self, host):
                st.lbp_events.append(('remove', hkey(host), host.datacenter, host.rack))
                RoundRobinPolicy.on_remove(self, host)

        class RecListener(HostStateListener):
            def on_up(self, host):
                st.listener_events.append(('up', hkey(host)))

            def on_down(self, host):
                st.listener_events.append(('down', hkey(host)))

            def on_add(self, host):
                st.listener_events.append(('add', hkey(host)))

            def on_remove(self, host):
                st.listener_events.append(('remove', hkey(host)))

        self.server = VServer([HostSpec(addr(i)) for i in range(1, 8)], peers_v2=self.v2)
        self.server.peer_rows_override = lambda conn: [dict(r) for r in st.rows]
        self.server.local_row_override = lambda conn: dict(st.local)
        self.w = World(self.server)
        self.w.__enter__()
        try:
            self.lbp = RecLBP()
            self.dc_policies = {}
            profiles = {EXEC_PROFILE_DEFAULT: ExecutionProfile(load_balancing_policy=self.lbp)}
            for name, remote_used, token_aware in DC_POLICIES:
                pol = DCAwareRoundRobinPolicy(local_dc=LOCAL_DC, used_hosts_per_remote_dc=REMOTE_USED if remote_used else 0)
                if token_aware:
                    pol = TokenAwarePolicy(pol)
                self.dc_policies[name] = pol
                profiles[name] = ExecutionProfile(load_balancing_policy=pol)
            self.cluster = self.w.make_cluster(
                contact_points=[addr(CONTROL)], token_metadata_enabled=self.need_tokens, execution_profiles=profiles)
            self.cluster.register_listener(RecListener())
            self.session = self.cluster.connect(wait_for_all_pools=True)
            self.w.settle()
            self.cluster.metadata.keyspaces['ks'] = KeyspaceMetadata('ks', True, 'SimpleStrategy', {'replication_factor': '1'})
            self.prev_ref = None
            self.ref = nodelist.mirror(ep(CONTROL), self.local, self.rows, self.need_tokens)
            self.refresh_ok = True
            self.changed = 'nothing'
            self.diverged_at = None
        except BaseException:
            self.w.__exit__()
            raise

    def close(self):
        try:
            self.cluster.shutdown()
        finally:
            self.w.__exit__()


def snapshots(params):
    """the alphabet: every snapshot as plain data (local kind, ((peer index, row kind), ...))"""
    import itertools
    kinds = [k for k in (params.get('only') or ROW_KINDS) if (params['tokens'] or not token_kind(k)) and (params['v2'] or k != 'port2')]
    peers = params['peers']
    simple = ['valid', 'dc2'] + (['tokB'] if params['tokens'] else [])
    local_kinds = [k for k in params.get('local_kinds', ['dc2', 'r2', 'tokB']) if params['tokens'] or k != 'tokB']
    out = []
    rest = [k for k in (params.get('only_rest') or kinds) if k in kinds]
    per_peer = [[None] + (kinds if i == 0 else rest) for i in range(len(peers))]
    for combo in itertools.product(*per_peer):
        rows = tuple((p, k) for p, k in zip(peers, combo) if k is not None)
        out.append(('base', rows))
        if all(k is None or k in simple for k in combo):
            for lk in local_kinds:
                out.append((lk, rows))
            if not params.get('dups', True):
                continue
            # a second row for an endpoint that is already described: another peer's, or the control node's
            for tgt in [CONTROL] + [p for p, k in zip(peers, combo) if k is not None]:
                out.append(('base', rows + ((tgt, 'dup'),)))
                if params.get('dup_first'):
                    out.append(('base', ((tgt, 'dup'),) + rows))
            if params.get('two_dups') and len(rows) >= 1:
                out.append(('base', rows + ((CONTROL, 'dup'), (rows[0][0], 'dup'))))
    return out


class H(explore.Harness):
    name = 'c42'

    def init(self):
        return St(self.params)

    def events(self, st):
        return [(('snap', lk, rows), 0) for lk, rows in snapshots(self.params)]

    def apply(self, st, ev):
        _, lk, rows = ev
        rows = tuple(tuple(r) for r in rows)
        st.snapshot = (lk, rows)
        st.local = local_row(lk)
        st.rows = [peer_row(d, st.v2) for d in rows]
        st.lbp_events = []
        st.listener_events = []
        st.prev_ref = st.ref
        st.ref = nodelist.mirror(ep(CONTROL), st.local, st.rows, st.need_tokens)
        st.refresh_ok = st.cluster.control_connection.refresh_node_list_and_token_map()
        st.w.pump()
        # what changed (for fingerprints); a token map that went stale stays attributed to the refresh at which it diverged
        ref, prev = st.ref, st.prev_ref
        both = set(ref) & set(prev)
        if set(ref) != set(prev):
            chg = 'membership'
        elif any(ref[a]['tokens'] != prev[a]['tokens'] for a in both):
            chg = 'tokens-only'
        elif any((ref[a]['dc'], ref[a]['rack']) != (prev[a]['dc'], prev[a]['rack']) for a in both):
            chg = 'location-only'
        else:
            chg = 'nothing'
        st.changed = chg
        if st.need_tokens:
            if self._owners(st) == nodelist.owners(ref):
                st.diverged_at = None
            elif st.diverged_at is None:
                st.diverged_at = chg

    # ---- observation
    def _hosts(self, st):
        return dict((hkey(h), h) for h in st.cluster.metadata.all_hosts())

    def _owners(self, st):
        tm = st.cluster.metadata.token_map
        if tm is None:
            return None
        return dict((str(t.value), hkey(h)) for t, h in tm.token_to_host_owner.items())

    def canon(self, st):
        hosts = tuple(nsort((a, h.datacenter, h.rack, str(h.host_id), h.is_up) for a, h in self._hosts(st).items()))
        own = self._owners(st)
        ref = tuple(nsort((a, r['dc'], r['rack'], tuple(sorted(r['tokens'] or ()))) for a, r in st.ref.items()))
        pools = tuple(nsort(hkey(h) for h in st.session._pools))
        live = tuple(nsort(hkey(h) for h in st.lbp._live_hosts))
        # what the location-keyed policies believe: hosts planned (as a multiset) and their distances
        views = tuple((name, tuple(nsort(hkey(h) for h in st.dc_policies[name].make_query_plan())),
                       tuple(nsort((a, st.dc_policies[name].distance(h)) for a, h in self._hosts(st).items())))
                      for name, _, _ in DC_POLICIES)
        return (hosts, tuple(nsort(own.items())) if own is not None else None, ref, pools, live, views,
                st.cluster.control_connection._uses_peers_v2)

    def check(self, st, part, hist):
        if not hist:
            return
        data = {'params': self.params, 'history': hist}
        lk, rows = st.snapshot
        kinds_of = {}
        for i, k in rows:
            kinds_of.setdefault((None if 'no_addr' in k.split('&') else addr(i), 9043 if 'port2' in k.split('&') else 9042), []).append(k)
        kinds_of.setdefault(ep(CONTROL), []).insert(0, 'local-' + lk)
        dialect = 'peers_v2' if st.v2 else 'peers'

        def cls(a):
            return '+'.join(kinds_of.get(a, ['absent']))
        ctxt = '[%s, tokens %s; snapshot local=%s rows=%r; previous hosts %r]' % (
            dialect, 'on' if st.need_tokens else 'off', lk, list(rows), nsort(st.prev_ref))
        part.outcome((len(st.ref), len(set(st.ref) - set(st.prev_ref)), len(set(st.prev_ref) - set(st.ref))))
        # where the rows that must be ignored were served: for an endpoint that was a known host before the refresh, or a new one
        for (i, k), row in zip(rows, st.rows):
            if not nodelist.valid(row, st.need_tokens):
                e = nodelist.endpoint_of(row)
                part.count('ignored_rows/tokens-%s/%s/%s' % ('on' if st.need_tokens else 'off', k,
                                                             'no-address' if e[0] is None else 'known-host' if e in st.prev_ref else 'new-host'))
        if len(hist) >= 2:
            part.sample(dict(data, hosts_expected=nsort(st.ref), hosts_before=nsort(st.prev_ref)), limit=2)
        if not st.refresh_ok:
            part.violation('C42/refresh-raised', 'refresh_node_list_and_token_map() returned False %s' % ctxt, data)
            return
        hosts = self._hosts(st)
        ref, prev = st.ref, st.prev_ref
        for a in nsort(set(hosts) - set(ref)):
            part.violation('C42/hosts/unexpected-host/%s' % cls(a), 'host %s is known but no valid distinct row describes it %s' % (a, ctxt), data)
        for a in nsort(set(ref) - set(hosts)):
            part.violation('C42/hosts/missing-host/%s' % cls(a), 'host %s has a valid row but is not known %s' % (a, ctxt), data)
        for a in nsort(set(ref) & set(hosts)):
            h, r = hosts[a], ref[a]
            if not r.get('ambiguous') and (h.datacenter, h.rack) != (r['dc'], r['rack']):
                part.violation('C42/host-attributes/location/%s' % cls(a), 'host %s has location %r, rows say %r %s'
                               % (a, (h.datacenter, h.rack), (r['dc'], r['rack']), ctxt), data)
            if h.host_id not in r['host_ids']:
                part.violation('C42/host-attributes/host_id/%s' % cls(a), 'host %s has host_id %r, rows say %r %s'
                               % (a, h.host_id, sorted(map(str, r['host_ids'])), ctxt), data)
        # announcements
        adds = [a for op, a in st.listener_events if op == 'add']
        removes = [a for op, a in st.listener_events if op == 'remove']
        for a in nsort(set(adds) | (set(ref) - set(prev))):
            want = 1 if (a in ref and a not in prev) else 0
            if adds.count(a) != want:
                part.violation('C42/listener/on_add/%s/%s' % ('missing' if adds.count(a) < want else 'spurious', cls(a)),
                               'listener saw on_add(%s) %d times, expected %d %s' % (a, adds.count(a), want, ctxt), data)
        for a in nsort(set(removes) | (set(prev) - set(ref))):
            want = 1 if (a in prev and a not in ref) else 0
            if removes.count(a) != want:
                part.violation('C42/listener/on_remove/%s/%s' % ('missing' if removes.count(a) < want else 'spurious', cls(a)),
                               'listener saw on_remove(%s) %d times, expected %d %s' % (a, removes.count(a), want, ctxt), data)
        # location changes reach the load-balancing policy
        for a in nsort(set(ref) & set(prev)):
            new, old = (ref[a]['dc'], ref[a]['rack']), (prev[a]['dc'], prev[a]['rack'])
            if new == old or ref[a].get('ambiguous'):
                continue
            what = '+'.join(w for w, i in (('dc', 0), ('rack', 1)) if new[i] != old[i])
            part.count('location_changes_of_known_hosts/%s/%s/refresh-%d' % ('control-node' if a == ep(CONTROL) else 'peer', what, len(hist)))
            evs = [(op, dc, rack) for op, x, dc, rack in st.lbp_events if x == a]
            downs = [i for i, e in enumerate(evs) if e[0] in ('down', 'remove')]
            ups = [i for i, e in enumerate(evs) if e[0] in ('up', 'add') and (e[1], e[2]) == new]
            if not downs or not ups or min(downs) > max(ups):
                part.violation('C42/lbp/location-change-not-delivered/%s' % cls(a),
                               'host %s moved %r -> %r but the policy saw %r %s' % (a, old, new, evs, ctxt), data)
            elif not prev[a].get('ambiguous') and not any((evs[i][1], evs[i][2]) == old and i < max(ups) for i in downs):
                # a policy that files hosts by location can only take the host out of its old place if the host still shows it
                part.violation('C42/lbp/host-relocated-before-on_down/%s/%s' % (what, cls(a)),
                               'host %s moved %r -> %r: the policy was never told on_down while the host still showed its old location, it saw %r %s'
                               % (a, old, new, evs, ctxt), data)
        # token map
        if st.need_tokens:
            own = self._owners(st)
            want = nodelist.owners(ref)
            chg = st.diverged_at or st.changed
            if own != want:
                diff = nsort(set((own or {}).items()) ^ set(want.items()))
                part.violation('C42/token-map/owners/stale-since-refresh-that-changed=%s' % chg,
                               'token map differs from the ring of the last snapshot in %r (diverged at a refresh that changed: %s; this refresh changed: %s) %s'
                               % (diff[:6], chg, st.changed, ctxt), data)
            else:
                for key in PROBES:
                    got = [hkey(h) for h in st.cluster.metadata.get_replicas('ks', key)]
                    exp = nodelist.primary_owner(ref, partitioners.murmur3_token(key))
                    part.count('replica_probes')
                    if got != [exp]:
                        part.violation('C42/token-map/get_replicas/changed=%s' % chg,
                                       'get_replicas(ks rf=1, %r) = %r, ring of the last snapshot says %r %s' % (key, got, exp, ctxt), data)
                        break
        self._judge_dc_policies(st, part, hosts, ctxt, data)
        if any(k != 'valid' for _, k in rows) or lk != 'base':
            part.mark_nontrivial(repr((self.canon(st), lk, rows)))


    def _judge_dc_policies(self, st, part, hosts, ctxt, data):
        """real DCAwareRoundRobinPolicy instances (one under TokenAwarePolicy) that were attached before the first refresh:
        after every refresh their query plans and distances must describe the hosts of the last snapshot"""
        from cassandra.policies import HostDistance
        from cassandra.query import SimpleStatement
        from vt.core import HarnessError
        ref = st.ref
        names = {HostDistance.LOCAL: 'LOCAL', HostDistance.REMOTE: 'REMOTE', HostDistance.IGNORED: 'IGNORED'}
        if set(hosts) != set(ref):
            return          # reported above; the policies cannot be right about hosts the metadata is wrong about
        not_up = [a for a, h in hosts.items() if not h.is_up]
        if not_up:
            raise HarnessError('hosts %r are not marked up although every address accepts connections' % (not_up,))
        moved = sorted(a for a in set(ref) & set(st.prev_ref) if ref[a]['dc'] != st.prev_ref[a]['dc'])
        how = 'after-dc-change' if moved else 'no-dc-change'
        token_map_ok = st.need_tokens and self._owners(st) == nodelist.owners(ref)
        for name, remote_used, token_aware in DC_POLICIES:
            pol = st.dc_policies[name]
            for a in nsort(ref):
                want = nodelist.expected_distance(ref, a, LOCAL_DC, remote_used)
                got = names[pol.distance(hosts[a])]
                part.count('policy_distances_judged')
                if want is not None and got != want:
                    part.violation('C42/lbp/%s/distance/%s-instead-of-%s/%s' % (name, got, want, how),
                                   '%s: distance(%s) is %s, the host is in datacenter %r (local datacenter %r): expected %s %s'
                                   % (name, a, got, ref[a]['dc'], LOCAL_DC, want, ctxt), data)
            plans = []
            if token_aware:
                for key in PROBES:
                    first = None
                    if token_map_ok:
                        owner = nodelist.primary_owner(ref, partitioners.murmur3_token(key))
                        if nodelist.expected_distance(ref, owner, LOCAL_DC, remote_used) == 'LOCAL':
                            first = owner
                    stmt = SimpleStatement('SELECT v FROM ks.t WHERE k = ?', routing_key=key, keyspace='ks')
                    plans.append(([hkey(h) for h in pol.make_query_plan('ks', stmt)], first, 'routing key %r' % key))
            else:
                for _ in range(len(ref) + 1):        # one more than a full turn of the round robin
                    plans.append(([hkey(h) for h in pol.make_query_plan()], None, 'no routing key'))
            for plan, first, label in plans:
                part.count('policy_plans_judged')
                for clause, text in nodelist.judge_plan(plan, ref, LOCAL_DC, remote_used, first):
                    part.violation('C42/lbp/%s/query-plan/%s/%s' % (name, clause, how),
                                   '%s: query plan %r (%s): %s; hosts of the last snapshot by datacenter: %r; datacenter changed for %r %s'
                                   % (name, plan, label, text, nsort((a, r['dc']) for a, r in ref.items()), moved, ctxt), data)


def configs(ctx):
    """'only' restricts the row kinds of every peer, 'only_rest' those of the peers after the first"""
    mid = ['valid', 'dc2', 'tokB', 'port2', 'no_rack', 'null_tokens']
    single = [k for k in ROW_KINDS if '&' not in k]
    if ctx.quick:
        return [
            ('v2-tokens', dict(v2=True, tokens=True, peers=[2, 3], only_rest=['valid', 'dc2', 'tokB', 'no_rack']), 2),
            ('v1-tokens', dict(v2=False, tokens=True, peers=[2, 3], only=['valid', 'tokB', 'no_addr', 'no_host_id', 'null_tokens', 'no_host_id&null_tokens'],
                           local_kinds=['tokB']), 2),
            ('v2-notokens', dict(v2=True, tokens=False, peers=[2, 3], only_rest=['valid', 'dc2', 'no_dc']), 2),
            ('v2-tokens-3peers', dict(v2=True, tokens=True, peers=[2, 3, 4], only=['valid', 'dc2', 'no_rack'], local_kinds=[], dups=False), 2),
            ('v2-tokens-3snapshots', dict(v2=True, tokens=True, peers=[2, 3], only=['valid', 'tokB', 'no_dc'], local_kinds=['tokB', 'dc2'], dups=False), 3),
        ]
    return [
        ('v2-tokens-2peers', dict(v2=True, tokens=True, peers=[2, 3], only_rest=single, two_dups=True, dup_first=True), 3),
        ('v2-tokens', dict(v2=True, tokens=True, peers=[2, 3, 4], only=mid, two_dups=True), 3),
        ('v1-tokens-2peers', dict(v2=False, tokens=True, peers=[2, 3], only_rest=single, two_dups=True, dup_first=True), 3),
        ('v1-tokens', dict(v2=False, tokens=True, peers=[2, 3, 4], only=['valid', 'dc2', 'tokB', 'no_addr', 'no_host_id', 'empty_tokens'], dups=False), 3),
        ('v2-notokens', dict(v2=True, tokens=False, peers=[2, 3, 4], only=['valid', 'dc2', 'r2', 'port2', 'no_dc', 'no_host_id'], two_dups=True), 3),
        ('v1-notokens', dict(v2=False, tokens=False, peers=[2, 3], two_dups=True, dup_first=True), 3),
    ]


def run(ctx):
    assert nodelist.selftest()
    for name, params, depth in configs(ctx):
        explore.bfs(ctx, H, params, max_depth=depth, label='c42-' + name)
    ctx.cov['rule'] = ('state = snapshot history replayed on a fresh real Cluster; one transition = one served snapshot + one refresh; '
                       'non-trivial = transition whose snapshot contains an invalid/changed/duplicate row or a changed local row, per distinct resulting state; '
                       'outcomes = (hosts expected, hosts added, hosts removed); location_changes_of_known_hosts/<who>/<what>/refresh-<n> = transitions in '
                       'which a host known before the refresh reported another datacenter/rack; policy_plans_judged / policy_distances_judged = query plans / '
                       'distances of the real datacenter-aware policies compared with the snapshot; the canonical state includes what those policies plan')
    ctx.assume('every address that appears in a valid peers row accepts connections (pool creation succeeds)')
    ctx.assume('a peers row whose rpc_address/native_address is null while `peer` is set is not generated: the driver documents a fall-back to `peer`, the statement does not decide')
    ctx.assume('rows that share an endpoint agree on datacenter, rack and tokens (which row wins is not specified)')
    ctx.assume('the system.local row is always complete')
    ctx.assume('the datacenter-aware policies are given local_dc explicitly; used_hosts_per_remote_dc is 0 or larger than the number of hosts '
               '(which remote hosts a smaller limit selects is not decided by the statement)')


def replay(ctx, data):
    hist = [('snap', e[1], tuple(tuple(r) for r in e[2])) for e in data['history']]
    part = explore.replay(H, data['params'], hist)
    for fp, what, _ in part.violations:
        print(fp, '::', what)
    return bool(part.violations)
