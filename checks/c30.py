"""C30 Prepared-statement binding and routing keys are consistent.

Engine N: real `PreparedStatement` / `BoundStatement` objects are built for every bind-metadata
shape (1-4 columns of int/text/blob/uuid, partition key = every non-empty ordered choice of <=3
positions), and bound positionally and by name with every combination of value / None /
UNSET_VALUE / missing / extra, on protocol versions 3, 4 and 5.  A second family of shapes has a column
name that is the target of several bind markers (k,c,c / v,k,v / k,k ...): the single dict value must reach
every marker of that name, exactly as the positional bind that repeats it.  The outcome is compared with a
small reference model of the rules in the statement of C30, the serialized values with independent
serializers, the routing key with Cassandra's composite partition-key encoding and its Murmur3 token
with the reference partitioner.  `PreparedStatement.from_message` is driven separately for how it
derives the routing-key indexes (from the v4 pk_indexes, or from the table metadata before v4).
"""
import itertools
import struct
import uuid

from vt.core import Part, HarnessError
from vt.spec import partitioners as P

META = {
    'level': 'exploration',
    'engine': 'N',
    'technique': 'bounded-exhaustive enumeration of bind metadata x value lists/dicts x protocol versions vs reference binding model and composite-key encoding',
    'text': 'Bind metadata of 1-4 markers with pairwise distinct column names (types int/text/blob/uuid: all type vectors for <=2 columns, 8 rotations for 3-4 columns in quick, all 4^n in '
            'thorough) x partition key = every non-empty ordered selection of <=3 positions x 3 value variants (boundary ints, empty/non-ASCII text, '
            'empty/300-byte blobs) x protocol 3/4/5 x positional binds of every length 0..n+1 with every value/None/UNSET pattern x named binds with '
            'every value/None/UNSET/absent pattern.  Oracle: positional == named; UNSET (explicit or implied by a missing value) only on v4+, never '
            'in a partition-key position; extra positional values rejected; values equal independently serialized bytes in bind-marker order; '
            'routing_key == single component raw or <len16><bytes><0> per component in partition-key order; Murmur3Token.from_key(routing_key) == '
            'reference token of the reference row key.  Repeated marker names: bind metadata of 2-4 markers in which a column name is the target of '
            'two or more markers (every set partition of the marker positions with a block >=2: adjacent / non-adjacent repeats, key and non-key '
            'columns, partition-key position = any marker of the column; one type per name, all type vectors for <=2 names, 8 rotations for 3 in '
            'quick) x 3 value variants x protocol 3/4/5 x every named pattern value/None/UNSET/absent per distinct name, each compared with the '
            'reference model (every marker of a name gets the one dict value) and with the positional bind that gives every marker what its name '
            'got (quick: exactly those positional patterns; thorough: all positional patterns).  from_message (both families): routing-key indexes from pk_indexes (v4+) and from the right table\'s '
            'partition key (v3).',
    'note': 'None bound to a partition-key column and (v3) a short positional list that does not reach a partition-key column are outside the '
            'statement and are not judged. Serializers for the four types are re-implemented in the check (struct / utf-8 / raw / uuid.bytes).',
    'design_ref': 'C30',
}

V, N, U, A = 'value', 'none', 'unset', 'absent'
TYPE_NAMES = ['int', 'text', 'blob', 'uuid']
VALUES = {
    'int': [0, -1, 2147483647],
    'text': ['', 'a', u'é€'],
    'blob': [b'', b'\x00\xff', b'k' * 300],
    'uuid': [uuid.UUID(int=0), uuid.UUID('00112233-4455-6677-8899-aabbccddeeff'), uuid.UUID(int=(1 << 128) - 1)],
}


def ref_serialize(tname, value):
    if tname == 'int':
        return struct.pack('>i', value)
    if tname == 'text':
        return value.encode('utf-8')
    if tname == 'blob':
        return bytes(value)
    if tname == 'uuid':
        return value.bytes
    raise HarnessError(tname)


def driver_types():
    from cassandra import cqltypes
    return {'int': cqltypes.Int32Type, 'text': cqltypes.UTF8Type, 'blob': cqltypes.BytesType, 'uuid': cqltypes.UUIDType}


# ------------------------------------------------------------------------------------ shapes
def type_vectors(n, full):
    if n <= 2 or full:
        return list(itertools.product(TYPE_NAMES, repeat=n))
    out = []
    for r in range(4):
        rot = TYPE_NAMES[r:] + TYPE_NAMES[:r]
        out.append(tuple(rot[:n]))
        out.append(tuple(list(reversed(rot))[:n]))
    return sorted(set(out))


def pk_choices(n):
    out = []
    for k in range(1, min(3, n) + 1):
        out.extend(itertools.permutations(range(n), k))
    return out


def repeated_name_patterns(n):
    """every assignment of column names to n bind markers in which at least one name is the target of two or more
    markers, up to renaming: restricted-growth strings of length n with fewer than n distinct letters (set partitions
    of the marker positions other than the all-singletons one) -- adjacent and non-adjacent repeats, 2-n markers per name"""
    out = []

    def grow(prefix, used):
        if len(prefix) == n:
            if used < n:
                out.append(tuple(prefix))
            return
        for x in range(used + 1):
            grow(prefix + [x], max(used, x + 1))
    grow([], 0)
    return out


def pk_choices_distinct_names(n, nameidx):
    """partition-key positions as in pk_choices, but a partition-key column is one component: no two chosen positions
    carry the same name (the chosen position may be any of the markers of a repeated key column)"""
    return [pk for pk in pk_choices(n) if len(set(nameidx[i] for i in pk)) == len(pk)]


# ------------------------------------------------------------------------------------ reference model
def model(form, states, n, pk, proto, nameidx=None):
    """-> ('reject', reason) | ('ok', [per column: V|N|U]) | ('either', prefix) for the v3 short positional list.
    A named pattern has one state per distinct column name; every marker of that name gets it."""
    pkset = set(pk)
    if form == 'named' and nameidx is not None:
        states = [states[nameidx[i]] for i in range(n)]
    if form == 'positional':
        L = len(states)
        if L > n:
            return ('reject', 'extra')
        if proto < 4:
            if U in states:
                return ('reject', 'unset-before-v4')
            if L < n:
                return ('either', list(states))
            return ('ok', list(states))
        full = list(states) + [U] * (n - L)
        for i in range(n):
            if full[i] == U and i in pkset:
                return ('reject', 'unset-in-pk-' + ('explicit' if i < L else 'implied'))
        return ('ok', full)
    # named
    if proto < 4:
        if A in states:
            return ('reject', 'missing-before-v4')
        if U in states:
            return ('reject', 'unset-before-v4')
        return ('ok', list(states))
    full = [U if s == A else s for s in states]
    for i in range(n):
        if full[i] == U and i in pkset:
            return ('reject', 'unset-in-pk-' + ('explicit' if states[i] == U else 'implied'))
    return ('ok', full)


# ------------------------------------------------------------------------------------ driver side
class Shape(object):
    def __init__(self, types, pk, proto, variant, names=None):
        """types: per bind marker; names: per bind marker the index of its column name (None: all distinct)"""
        from cassandra.protocol import ColumnMetadata
        from cassandra.query import PreparedStatement
        self.types, self.pk, self.proto, self.variant = types, tuple(pk), proto, variant
        self.n = len(types)
        self.nameidx = tuple(names) if names is not None else tuple(range(self.n))
        if len(self.nameidx) != self.n or sorted(set(self.nameidx)) != list(range(max(self.nameidx) + 1)):
            raise HarnessError('bad name pattern %r for %d markers' % (self.nameidx, self.n))
        self.d = max(self.nameidx) + 1                     # distinct column names
        self.repeated = self.d < self.n
        self.first_pos = [self.nameidx.index(j) for j in range(self.d)]
        if any(types[i] != types[self.first_pos[self.nameidx[i]]] for i in range(self.n)):
            raise HarnessError('markers of one column with different types: %r %r' % (types, self.nameidx))
        dt = driver_types()
        self.names = ['c%d' % j for j in self.nameidx]
        self.col_meta = [ColumnMetadata('ks', 't', self.names[i], dt[types[i]]) for i in range(self.n)]
        self.prepared = PreparedStatement(column_metadata=self.col_meta, query_id=b'id', routing_key_indexes=list(pk),
                                          query='q', keyspace='ks', protocol_version=proto,
                                          result_metadata=None, result_metadata_id=None)
        self.values = [VALUES[t][variant] for t in types]
        self.ref_bytes = [ref_serialize(t, v) for t, v in zip(types, self.values)]

    def arg(self, i, state, unset):
        return self.values[i] if state == V else (None if state == N else unset)


def observe(shape, form, states, unset):
    """bind through the driver -> ('reject', ExcName) | ('ok', normalised values, bound statement)"""
    if form == 'positional':
        args = [shape.arg(i, s, unset) if i < shape.n else (b'extra' if s == V else (None if s == N else unset))
                for i, s in enumerate(states)]
    else:
        # one dict entry per distinct column name (states are per name)
        args = dict(('c%d' % j, shape.arg(shape.first_pos[j], s, unset)) for j, s in enumerate(states) if s != A)
    try:
        bs = shape.prepared.bind(args)
    except Exception as e:
        return ('reject', type(e).__name__, None)
    out = []
    for v in bs.values:
        if v is unset:
            out.append(U)
        elif v is None:
            out.append(N)
        else:
            out.append(v)
    return ('ok', out, bs)


def case_of(shape, form, states):
    case = {'types': list(shape.types), 'pk': list(shape.pk), 'proto': shape.proto, 'variant': shape.variant,
            'form': form, 'states': list(states)}
    if shape.repeated:
        case['names'] = list(shape.nameidx)       # marker i binds column c<names[i]>; named states are per column name
    return case


def expected_values(shape, sts):
    return [shape.ref_bytes[i] if s == V else s for i, s in enumerate(sts)]


def judge_bind(part, shape, form, states, unset, M3):
    """returns the observation (for the equivalence clause)"""
    n, pk, proto = shape.n, shape.pk, shape.proto
    want = model(form, states, n, pk, proto, shape.nameidx)
    obs = observe(shape, form, states, unset)
    part.count('evaluations')
    part.count('binds')
    tag = ''
    if shape.repeated:                     # input class: a column name that is the target of several bind markers
        tag = '/repeated-name'
        part.count('repeated_name_binds')
    era = 'v3' if proto < 4 else 'v4+'
    if obs[0] == 'reject':
        part.outcome((form, era, 'reject', want[0] if want[0] != 'ok' else 'ok!'))
        if want[0] == 'ok':
            cls = 'all-values' if all(s == V for s in states) else '+'.join(sorted(set(s for s in states if s != V)))
            part.violation('C30/%s/%s/rejected-valid/%s%s' % (form, era, cls, tag),
                           'bind raised %s for a bind the statement allows (expected %r): %r' % (obs[1], want[1], case_of(shape, form, states)),
                           case_of(shape, form, states))
        return obs
    vals, bs = obs[1], obs[2]
    part.outcome((form, era, 'ok', want[0]))
    if want[0] == 'reject':
        part.violation('C30/%s/%s/accepted/%s%s' % (form, era, want[1], tag),
                       'bind accepted (%r) what must be rejected (%s): %r' % (vals, want[1], case_of(shape, form, states)), case_of(shape, form, states))
        return obs
    if want[0] == 'either':
        # v3, short positional list: must not invent UNSET; what it keeps must be the serialized prefix
        if U in vals:
            part.violation('C30/positional/v3/missing-became-unset' + tag, 'v3 short list produced UNSET: %r for %r' % (vals, case_of(shape, form, states)),
                           case_of(shape, form, states))
        elif vals != expected_values(shape, want[1]):
            part.violation('C30/positional/v3/values' + tag, 'values %r, expected prefix %r for %r' % (vals, expected_values(shape, want[1]), case_of(shape, form, states)),
                           case_of(shape, form, states))
        exp_states = want[1]
    else:
        exp = expected_values(shape, want[1])
        exp_states = want[1]
        if vals != exp:
            if len(vals) == len(exp) and sorted(map(repr, vals)) == sorted(map(repr, exp)):
                cls = 'order'
            elif len(vals) != len(exp):
                cls = 'length'
            else:
                bad = [i for i in range(len(exp)) if vals[i] != exp[i]]
                i = bad[0]
                if exp[i] == U or vals[i] == U:
                    cls = 'unset-placement'
                elif exp[i] == N or vals[i] == N:
                    cls = 'none-placement'
                else:
                    cls = 'serialization/' + shape.types[i]
            part.violation('C30/%s/%s/values/%s%s' % (form, era, cls, tag), 'values %r, expected %r for %r' % (vals, exp, case_of(shape, form, states)),
                           case_of(shape, form, states))
            return obs
    # ---- routing key
    if all(i < len(exp_states) and exp_states[i] == V for i in pk):
        comps = [shape.ref_bytes[i] for i in pk]
        want_rk = P.composite_key(comps)
        kind = 'single' if len(pk) == 1 else 'composite'
        part.count('routing_keys')
        try:
            rk = bs.routing_key
        except Exception as e:
            part.violation('C30/routing_key/%s/raises/%s%s' % (kind, type(e).__name__, tag), 'routing_key raised %r for %r' % (e, case_of(shape, form, states)),
                           case_of(shape, form, states))
            return obs
        if rk != want_rk:
            if len(pk) > 1 and isinstance(rk, bytes) and sorted(comps) != comps and rk == P.composite_key(sorted(comps)):
                cls = 'component-order'
            elif len(pk) > 1 and isinstance(rk, bytes) and len(rk) == len(want_rk) - len(pk):
                cls = 'no-end-of-component'
            else:
                cls = 'bytes'
            part.violation('C30/routing_key/%s/%s%s' % (kind, cls, tag), 'routing_key %r, Cassandra partition key %r for %r' % (rk, want_rk, case_of(shape, form, states)),
                           case_of(shape, form, states))
        elif want_rk:
            tok = M3.from_key(rk).value
            if tok != P.murmur3_token(want_rk):
                part.violation('C30/routing_key/token', 'token %r of routing_key, reference token %r of row key %r for %r' % (
                    tok, P.murmur3_token(want_rk), want_rk, case_of(shape, form, states)), case_of(shape, form, states))
        if len(pk) > 1 or any(len(c) == 0 or len(c) > 255 for c in comps):
            part.count('nontrivial_routing_keys')
    else:
        part.count('routing_key_not_judged')
    return obs


def twin_of(states, shape):
    """the named pattern (one state per distinct column name) a positional pattern must be equivalent to
    (None: no such claim; with a repeated name only if all its markers are given the same thing)"""
    n, L = shape.n, len(states)
    if L > n or (L < n and shape.proto < 4):
        return None
    full = tuple(states) + (A,) * (n - L)
    twin = tuple(full[p] for p in shape.first_pos)
    if any(full[i] != twin[shape.nameidx[i]] for i in range(n)):
        return None
    return twin


def positional_twins(named_states, shape):
    """the positional patterns that say the same as a named pattern: every marker gets what its name got;
    absent names must be a suffix of the markers (v4+) to be expressible as a short list"""
    full = [named_states[j] for j in shape.nameidx]
    if A not in full:
        return [tuple(full)]
    k = full.index(A)
    if shape.proto >= 4 and all(s == A for s in full[k:]):
        return [tuple(full[:k])]
    return []


def check_equivalence(part, shape, states, obs, other):
    part.count('equivalences')
    if shape.repeated:
        part.count('repeated_name_equivalences')
    same = (obs[0] == other[0]) and (obs[0] == 'reject' or obs[1] == other[1])
    if same and obs[0] == 'ok':
        try:
            same = obs[2].routing_key == other[2].routing_key
        except Exception:
            same = True      # judged by the routing-key clause
    if not same:
        part.violation('C30/equivalence/%s%s' % ('full' if len(states) == shape.n else 'missing-trailing', '/repeated-name' if shape.repeated else ''),
                       'positional %r gives %r, named gives %r for %r' % (states, obs[:2], other[:2], case_of(shape, 'positional', states)),
                       case_of(shape, 'positional', states))


def positional_patterns(n):
    for L in range(0, n + 2):
        extra = [()] if L <= n else [(V,), (U,), (N,)]
        for head in itertools.product((V, N, U), repeat=min(L, n)):
            for ex in extra:
                yield head + ex


def eval_shape(part, types, pk, proto, variant, names=None, all_positional=True, only=None):
    from cassandra.query import UNSET_VALUE
    from cassandra.metadata import Murmur3Token
    shape = Shape(types, pk, proto, variant, names)
    n = shape.n
    if only is not None:                      # replay of one recorded bind
        form, states = only[0], tuple(only[1])
        obs = judge_bind(part, shape, form, states, UNSET_VALUE, Murmur3Token)
        if form == 'positional':
            twin = twin_of(states, shape)
            if twin is not None:
                check_equivalence(part, shape, states, obs, observe(shape, 'named', twin, UNSET_VALUE))
        return
    named_obs = {}
    derived = []
    for states in itertools.product((V, N, U, A), repeat=shape.d):
        named_obs[states] = judge_bind(part, shape, 'named', states, UNSET_VALUE, Murmur3Token)
        if any(s != V for s in states):
            part.count('distinct_nontrivial')
        if not all_positional:
            derived.extend(positional_twins(states, shape))
    # positional side: every pattern, or (repeated names, quick tier) exactly those that have a named twin
    for states in (positional_patterns(n) if all_positional else derived):
        obs = judge_bind(part, shape, 'positional', states, UNSET_VALUE, Murmur3Token)
        if len(states) != n or any(s != V for s in states):
            part.count('distinct_nontrivial')
        twin = twin_of(states, shape)
        if twin is not None:
            check_equivalence(part, shape, states, obs, named_obs[twin])
        elif not all_positional:
            raise HarnessError('derived positional pattern without twin: %r %r' % (states, shape.nameidx))
    part.count('shapes')
    if shape.repeated:
        part.count('repeated_name_shapes')
        if proto == 4 and variant == 1:
            part.sample({'types': list(types), 'names': shape.names, 'pk': list(pk), 'proto': proto,
                         'named': dict(('c%d' % j, repr(shape.values[shape.first_pos[j]])) for j in range(shape.d)),
                         'positional': [repr(v) for v in shape.values]}, limit=2)
    if proto == 4 and variant == 1 and len(pk) > 1:
        part.sample({'types': list(types), 'pk': list(pk), 'proto': proto, 'values': [repr(v) for v in shape.values],
                     'routing_key': P.composite_key([shape.ref_bytes[i] for i in pk])}, limit=1)


# ------------------------------------------------------------------------------------ from_message
def eval_from_message(part, types, pk, variant, nameidx=None):
    """how PreparedStatement.from_message finds the routing-key indexes (nameidx: name pattern with repeats)"""
    import cassandra.metadata as md
    from cassandra.protocol import ColumnMetadata
    from cassandra.query import PreparedStatement
    from cassandra.metadata import Murmur3Token
    n = len(types)
    dt = driver_types()
    nameidx = tuple(nameidx) if nameidx is not None else tuple(range(n))
    tag = '/repeated-name' if len(set(nameidx)) < n else ''
    names = ['c%d' % j for j in nameidx]
    col_meta = [ColumnMetadata('ks', 't', names[i], dt[types[i]]) for i in range(n)]
    values = [VALUES[t][variant] for t in types]          # same type => same value: markers of one name get one value
    ref_bytes = [ref_serialize(t, v) for t, v in zip(types, values)]
    pk_names = set(names[i] for i in pk)

    def table(ks, name, pk_names):
        t = md.TableMetadata(ks, name)
        t.partition_key = [md.ColumnMetadata(t, nm, 'blob') for nm in pk_names]
        return t
    # the right table, a sibling table and a same-named table in another keyspace with other partition keys
    others = [names[(pk[0] + k) % n] for k in range(1, n) if names[(pk[0] + k) % n] != names[pk[0]]]
    other_pk = [others[0]] if others else ['zz']
    meta = md.Metadata()
    ks = md.KeyspaceMetadata('ks', True, 'SimpleStrategy', {'replication_factor': '1'})
    ks.tables = {'a_first': table('ks', 'a_first', other_pk), 't': table('ks', 't', [names[i] for i in pk]),
                 't2': table('ks', 't2', list(reversed(other_pk)))}
    ks2 = md.KeyspaceMetadata('ks2', True, 'SimpleStrategy', {'replication_factor': '1'})
    ks2.tables = {'t': table('ks2', 't', other_pk)}
    meta.keyspaces = {'ks2': ks2, 'ks': ks}
    want_rk = P.composite_key([ref_bytes[i] for i in pk])

    def build(proto, pk_indexes, cmeta):
        return PreparedStatement.from_message(b'id', col_meta, pk_indexes, cmeta, 'q', 'ks', proto, None, None)
    variants = [('v4-pk_indexes', 4, list(pk), meta, list(pk)),
                ('v5-pk_indexes', 5, list(pk), md.Metadata(), list(pk)),
                ('v3-table-metadata', 3, None, meta, list(pk)),
                ('v3-table-metadata', 3, [], meta, list(pk))]
    # a partition-key column that is not bound: no routing key can be computed
    ks_inc = md.KeyspaceMetadata('ks', True, 'SimpleStrategy', {'replication_factor': '1'})
    ks_inc.tables = {'t': table('ks', 't', [names[i] for i in pk] + ['not_bound'])}
    meta_inc = md.Metadata()
    meta_inc.keyspaces = {'ks': ks_inc}
    variants.append(('v3-incomplete-partition-key', 3, None, meta_inc, None))
    # table unknown to the metadata
    variants.append(('v3-unknown-table', 3, None, md.Metadata(), None))
    for label, proto, pki, cmeta, want_idx in variants:
        case = {'from_message': label, 'types': list(types), 'pk': list(pk), 'variant': variant}
        if tag:
            case['names'] = list(nameidx)
            label += tag
        part.count('evaluations')
        part.count('from_message_cases')
        try:
            ps = build(proto, pki, cmeta)
            bs = ps.bind(values)
            rk = bs.routing_key
        except Exception as e:
            part.violation('C30/from_message/%s/raises/%s' % (label, type(e).__name__), 'raised %r for %r' % (e, case), case)
            continue
        part.outcome(('from_message', label, rk is None))
        if want_idx is None:
            if rk is not None:
                part.violation('C30/from_message/%s/routing-key-from-partial-information' % label,
                               'routing_key %r although the partition key is not fully known/bound, for %r' % (rk, case), case)
            continue
        if rk != want_rk:
            part.violation('C30/from_message/%s/routing_key' % label, 'routing_key_indexes %r -> routing_key %r, expected indexes %r -> %r for %r' % (
                ps.routing_key_indexes, rk, want_idx, want_rk, case), case)
        elif want_rk and Murmur3Token.from_key(rk).value != P.murmur3_token(want_rk):
            part.violation('C30/routing_key/token', 'token mismatch for %r' % (case,), case)
        # UNSET must be refused for exactly the partition-key positions
        if proto >= 4:
            for nm in sorted(set(names)):
                d = dict((names[j], values[j]) for j in range(n) if names[j] != nm)
                part.count('evaluations')
                try:
                    ps.bind(d)
                    refused = False
                except Exception:
                    refused = True
                if refused != (nm in pk_names):
                    part.violation('C30/from_message/%s/unset-%s' % (label, 'accepted-in-pk' if nm in pk_names else 'refused-outside-pk'),
                                   'missing value for column %s: refused=%r, partition key %r, for %r' % (nm, refused, list(pk), case), case)


def run_unit(unit):
    part = Part()
    for types, pk, names, all_positional in unit:
        for variant in range(3):
            for proto in (3, 4, 5):
                eval_shape(part, types, pk, proto, variant, names, all_positional)
            eval_from_message(part, types, pk, variant, names)
    return part


def repeated_shapes(full):
    """(per-marker types, pk positions, name pattern) for 2-4 markers with a repeated column name"""
    out = []
    for n in range(2, 5):
        for nameidx in repeated_name_patterns(n):
            d = max(nameidx) + 1
            for tv in type_vectors(d, full):              # one type per distinct column name
                types = tuple(tv[j] for j in nameidx)
                for pk in pk_choices_distinct_names(n, nameidx):
                    out.append((types, pk, nameidx))
    return out


def run(ctx):
    P.selftest()
    shapes = []
    for n in range(1, 5):
        for tv in type_vectors(n, ctx.thorough):
            for pk in pk_choices(n):
                shapes.append((tv, pk, None, True))
    ndistinct = len(shapes)
    rep = repeated_shapes(ctx.thorough)
    shapes.extend((types, pk, nameidx, ctx.thorough) for types, pk, nameidx in rep)
    ctx.count('repeated_name_patterns', len(set(s[2] for s in rep)))
    shapes = ctx.rotate(shapes)
    nunits = ctx.nproc * 6
    units = [shapes[i::nunits] for i in range(nunits)]
    for part in ctx.pmap(run_unit, [u for u in units if u]):
        ctx.merge(part)
    ctx.cov['rule'] = ('%d shapes with pairwise distinct marker names (type vector x ordered partition-key positions) x 3 value variants x protocols '
                       '3,4,5; per shape every named pattern '
                       'in {value,None,UNSET,absent}^n and every positional pattern in {value,None,UNSET}^L, L=0..n, plus one extra element '
                       '(value/UNSET/None).  %d shapes with a repeated marker name (%d name patterns = all set partitions of 2-4 marker positions '
                       'with a block of >=2 markers; one type per distinct name; partition-key positions with pairwise distinct names): every '
                       'named pattern in {value,None,UNSET,absent}^(distinct names) and %s.  Counters: binds, equivalences (positional vs named '
                       'pairs), repeated_name_shapes / repeated_name_binds / repeated_name_equivalences (the part of shapes / binds / equivalences '
                       'with a repeated name), routing_keys (compared), '
                       'nontrivial_routing_keys (composite, or with an empty / >255-byte component), from_message_cases. non-trivial bind = pattern '
                       'that is not "all values, full length"' % (
                           ndistinct, len(rep), len(set(s[2] for s in rep)),
                           'every positional pattern as above' if ctx.thorough else
                           'the positional patterns that say the same as a named one (each marker gets what its name got; absent names only as a '
                           'trailing run of markers on v4+)'))
    ctx.cov['exhaustive'] = True
    ctx.assume('None bound to a partition-key column: Cassandra rejects such a row; the routing key is not judged (counter routing_key_not_judged)')
    ctx.assume('protocol v3, positional list shorter than the bind markers: the statement only says such values do not become UNSET; '
               'rejecting or keeping the serialized prefix are both accepted, and the routing key is judged only if every partition-key '
               'position is present')
    ctx.assume('protocol v3, named bind with a missing name: must be rejected (there is no way to express it)')
    ctx.assume('extra keys in a named bind are not generated (the statement speaks of extra positional values only)')
    ctx.assume('"rejected" = bind raises any exception')
    ctx.assume('a column name that is the target of several bind markers (WHERE c>=? AND c<=?, SET v=? .. IF v=?): the one dict value is bound to '
               'every marker of that name, i.e. the same as the positional bind that repeats the value; all markers of one name have one type; '
               'a partition-key column contributes one routing-key position (any one of its markers)')


def replay(ctx, data):
    part = Part()
    if 'from_message' in data:
        eval_from_message(part, tuple(data['types']), tuple(data['pk']), data['variant'], data.get('names'))
    else:
        eval_shape(part, tuple(data['types']), tuple(data['pk']), data['proto'], data['variant'],
                   names=data.get('names'), only=(data['form'], data['states']))
    for fp, what, _ in part.violations:
        print(fp, '::', what[:600])
    return bool(part.violations)
