"""C34 Date, time and time-UUID helpers convert consistently.

Engine N.  Date: every day of the enumerated years is converted int <-> datetime.date <-> 'yyyy-mm-dd'
through cassandra.util.Date and compared with an independent civil-calendar routine.  Time: nanosecond
values at every unit boundary +-1 and an evenly spaced grid are converted ns <-> datetime.time <-> string
and compared with integer arithmetic; every constructor input outside one day must be refused.
Time-UUIDs: instants at microsecond resolution around the representable boundaries x node x clock_seq
values at the signed/unsigned byte boundaries; the embedded timestamp must be the instant, decoding must
give the instant back, and min/max UUIDs must bound every UUID of the instant under Cassandra's
TimeUUIDType comparator (re-implemented here).
"""
import datetime
import os
import time as _time
import uuid
from fractions import Fraction

from vt.core import Part, HarnessError

META = {
    'level': 'exploration',
    'engine': 'N',
    'technique': 'bounded-exhaustive enumeration of days / nanosecond values / instants x uuid fields vs integer-arithmetic references',
    'text': 'Date: every day of years 1-9999 (thorough) or all days of 40 boundary years plus the first of every month of every '
            'other year (quick) through Date(int|date|datetime|str), .date(), str(), ==, seconds; Time: unit-boundary '
            'nanosecond values +-1 and an evenly spaced grid through Time(int|time|str), .time(), str(), components, plus '
            'out-of-range ints and strings which must be refused; time-UUIDs: microsecond instants around 1582, 1970, 2038, '
            '2106, 2242, 2255 (2^53 us) and the 60-bit limit (5236) given as datetime and as float seconds x 5 node x 8 clock_seq '
            'values: timestamp field, version/variant/node/clock fields, datetime_from_uuid1, unix_time_from_uuid1, and '
            'min_uuid <= u <= max_uuid under the Cassandra comparator; datetime_from_timestamp over boundary seconds.',
    'note': 'Cassandra TimeUUIDType.compareCustom is re-implemented from memory (timestamp with reordered msb, then the 8 low '
            'bytes compared as signed bytes); calendar reference is an own days<->civil routine cross-checked against datetime. '
            'The process runs with TZ=UTC-11:30 so that any use of local time shows.',
    'design_ref': 'C34',
}

NS_DAY = 86400 * 10 ** 9
UUID_EPOCH_TICKS = 0x01b21dd213814000          # 100-ns ticks from 1582-10-15 to 1970-01-01 (RFC 4122)


# ------------------------------------------------------------------------------------------ references
def days_from_civil(y, m, d):
    """days since 1970-01-01 in the proleptic Gregorian calendar (integer arithmetic)"""
    y -= m <= 2
    era = y // 400
    yoe = y - era * 400
    doy = (153 * (m + (-3 if m > 2 else 9)) + 2) // 5 + d - 1
    doe = yoe * 365 + yoe // 4 - yoe // 100 + doy
    return era * 146097 + doe - 719468


def civil_from_days(z):
    z += 719468
    era = z // 146097
    doe = z - era * 146097
    yoe = (doe - doe // 1460 + doe // 36524 - doe // 146096) // 365
    y = yoe + era * 400
    doy = doe - (365 * yoe + yoe // 4 - yoe // 100)
    mp = (5 * doy + 2) // 153
    d = doy - (153 * mp + 2) // 5 + 1
    m = mp + (3 if mp < 10 else -9)
    return (y + (m <= 2), m, d)


def is_leap(y):
    return y % 4 == 0 and (y % 100 != 0 or y % 400 == 0)


MDAYS = [31, 28, 31, 30, 31, 30, 31, 31, 30, 31, 30, 31]


def cassandra_timeuuid_compare(a, b):
    """org.apache.cassandra.db.marshal.TimeUUIDType.compareCustom for two 16-byte values:
    msb reordered to (time_hi_and_version, time_mid, time_low) and compared as signed longs; if equal the
    least significant 8 bytes are compared byte by byte as SIGNED bytes."""
    def reorder(msb):
        v = ((msb << 48) | ((msb << 16) & 0xFFFF00000000) | (msb >> 32)) & 0xFFFFFFFFFFFFFFFF
        return v - (1 << 64) if v >= (1 << 63) else v
    ma, mb = reorder(int.from_bytes(a[:8], 'big')), reorder(int.from_bytes(b[:8], 'big'))
    if ma != mb:
        return -1 if ma < mb else 1
    sa = [x - 256 if x > 127 else x for x in a[8:]]
    sb = [x - 256 if x > 127 else x for x in b[8:]]
    return (sa > sb) - (sa < sb)


def selftest():
    e = datetime.date(1970, 1, 1).toordinal()
    for y in (1, 4, 100, 400, 1582, 1600, 1900, 1969, 1970, 1972, 2000, 2038, 2100, 9999):
        for m in range(1, 13):
            for d in (1, 28, MDAYS[m - 1] + (m == 2 and is_leap(y))):
                n = days_from_civil(y, m, d)
                assert n == datetime.date(y, m, d).toordinal() - e, (y, m, d)
                assert civil_from_days(n) == (y, m, d)
    assert days_from_civil(1970, 1, 1) == 0 and days_from_civil(2000, 2, 29) == 11016
    # RFC 4122: the tick count of the unix epoch
    assert (datetime.date(1970, 1, 1).toordinal() - datetime.date(1582, 10, 15).toordinal()) * 86400 * 10 ** 7 == UUID_EPOCH_TICKS
    U = uuid.UUID
    c = cassandra_timeuuid_compare
    # timestamp first (time_low is the least significant part although it is stored first)
    assert c(U('ffffffff-0000-1000-8000-000000000000').bytes, U('00000000-0001-1000-8000-000000000000').bytes) < 0
    assert c(U('00000000-ffff-1000-8000-000000000000').bytes, U('00000000-0000-1001-8000-000000000000').bytes) < 0
    # signed bytes in the low half: 0x80 < 0xff < 0x00 < 0x7f
    lo = [U('00000000-0000-1000-8080-808080808080'), U('00000000-0000-1000-80ff-808080808080'),
          U('00000000-0000-1000-8000-808080808080'), U('00000000-0000-1000-807f-808080808080'),
          U('00000000-0000-1000-bf7f-7f7f7f7f7f7f')]
    for i in range(len(lo) - 1):
        assert c(lo[i].bytes, lo[i + 1].bytes) < 0 and c(lo[i + 1].bytes, lo[i].bytes) > 0, i
    assert c(lo[0].bytes, lo[0].bytes) == 0
    return True


def set_tz():
    os.environ['TZ'] = 'VRF+11:30'
    _time.tzset()
    if _time.timezone != 11 * 3600 + 1800:
        raise HarnessError('could not switch the process time zone')


# ------------------------------------------------------------------------------------------ Date
BOUNDARY_YEARS = [1, 2, 3, 4, 5, 99, 100, 101, 399, 400, 401, 999, 1000, 1001, 1581, 1582, 1583, 1600, 1699, 1700, 1899,
                  1900, 1901, 1968, 1969, 1970, 1971, 1972, 1999, 2000, 2001, 2037, 2038, 2039, 2100, 2242, 2400, 9997,
                  9998, 9999]


def date_chunk(arg):
    years, full = arg
    set_tz()
    from cassandra.util import Date
    part = Part()
    bset = set(BOUNDARY_YEARS)
    for y in years:
        allday = full or y in bset
        for m in range(1, 13):
            last = MDAYS[m - 1] + (1 if m == 2 and is_leap(y) else 0)
            for d in (range(1, last + 1) if allday else (1,)):
                n = days_from_civil(y, m, d)
                check_date(part, Date, n, y, m, d)
    return part


def check_date(part, Date, n, y, m, d, only=None):
    part.count('evaluations')
    s = '%04d-%02d-%02d' % (y, m, d)
    pyd = datetime.date(y, m, d)
    case = {'part': 'date', 'days': n, 'ymd': [y, m, d]}

    def bad(clause, what):
        part.violation('C34/date/%s' % clause, '%s [day %d = %s]' % (what, n, s), case)

    try:
        a = Date(n)
        if a.days_from_epoch != n:
            bad('int/days_from_epoch', 'Date(%d).days_from_epoch = %r' % (n, a.days_from_epoch))
        r = a.date()
        if r != pyd or type(r) is not datetime.date:
            bad('int-to-date', 'Date(%d).date() = %r' % (n, r))
        r = str(a)
        if r != s:
            bad('int-to-string', 'str(Date(%d)) = %r' % (n, r))
        if a.seconds != n * 86400:
            bad('seconds', 'Date(%d).seconds = %r' % (n, a.seconds))
        b = Date(pyd)
        if b.days_from_epoch != n:
            bad('date-to-int', 'Date(%r).days_from_epoch = %r' % (pyd, b.days_from_epoch))
        c = Date(s)
        if c.days_from_epoch != n:
            bad('string-to-int', 'Date(%r).days_from_epoch = %r' % (s, c.days_from_epoch))
        e = Date(datetime.datetime(y, m, d, 23, 59, 59, 999999))
        if e.days_from_epoch != n:
            bad('datetime-to-int', 'Date(datetime %s 23:59:59.999999).days_from_epoch = %r' % (s, e.days_from_epoch))
        if not (a == b and b == c and a == pyd and a == n and hash(a) == hash(b)) or a != c or a < b or b < a:
            bad('equality', 'Date(int), Date(date), Date(str) are not equal / ordered consistently')
        if y < 9999 or (m, d) != (12, 31):
            nxt = Date(n + 1)
            if not (a < nxt) or nxt == a:
                bad('ordering', 'Date(n) < Date(n+1) fails')
    except Exception as ex:
        bad('raises/%s' % type(ex).__name__, 'raised %r' % (ex,))
    part.outcome(('date', 'leap-feb29' if (m, d) == (2, 29) else 'pre-1970' if n < 0 else 'post-1970'))
    if (m, d) == (2, 29):
        part.sample({'date': s, 'days_from_epoch': n, 'str(Date(n))': str(Date(n))}, limit=1)
    if n % 146097 in (0, 1) or (m, d) in ((2, 29), (12, 31), (1, 1), (3, 1)) or y < 1000:
        part.mark_nontrivial('d%d' % n)


def date_outside(part):
    """outside datetime's range only the day count is defined (documented fall-back: str() prints the offset)"""
    from cassandra.util import Date
    for n in (-2 ** 31, -719163, days_from_civil(1, 1, 1) - 1, days_from_civil(9999, 12, 31) + 1, 2 ** 31 - 1):
        part.count('evaluations')
        a = Date(n)
        if a.days_from_epoch != n or str(a) != str(n) or not (a == Date(n)):
            part.violation('C34/date/outside-datetime-range', 'Date(%d): days %r str %r' % (n, a.days_from_epoch, str(a)),
                           {'part': 'date_outside', 'days': n})
        try:
            a.date()
            part.violation('C34/date/outside-datetime-range', 'Date(%d).date() did not raise' % n, {'part': 'date_outside', 'days': n})
        except ValueError:
            pass
        part.outcome(('date', 'outside'))


# ------------------------------------------------------------------------------------------ Time
def time_values(grid):
    vals = set()
    units = [1, 10 ** 3, 10 ** 6, 10 ** 9, 60 * 10 ** 9, 3600 * 10 ** 9]
    for u in units:
        for k in (0, 1, 2, 9, 10, 11, 12, 13, 23, 24, 25, 59, 60, 61, 99, 100, 999, 1000, 1439, 1440, 86399, 86400):
            for dlt in (-1, 0, 1):
                vals.add(k * u + dlt)
    step = NS_DAY // grid + 1
    v = 0
    while v < NS_DAY:
        vals.add(v)
        v += step
    vals |= {NS_DAY - 1, NS_DAY, NS_DAY + 1, -1, -NS_DAY, 2 * NS_DAY, 2 ** 63 - 1, -2 ** 63}
    return sorted(vals)


BAD_TIME_STRINGS = ['24:00:00', '23:59:60', '23:59:61', '23:60:00', '25:00:00', '24:00:00.000000000', '23:59:60.5',
                    '23:59:59.9999999999', '23:59:59.99999999999', '00:00:00.-1', '-1:00:00', '-00:00:01', '00:00:00.-000000001',
                    '99:99:99', '1:2', '', 'abc', '00:00:00.', '12:00:00.x']


def time_chunk(vals):
    set_tz()
    from cassandra.util import Time
    part = Part()
    for v in vals:
        check_time(part, Time, v)
    return part


def fmt_time(v):
    return '%02d:%02d:%02d.%09d' % (v // (3600 * 10 ** 9), v // (60 * 10 ** 9) % 60, v // 10 ** 9 % 60, v % 10 ** 9)


def check_time(part, Time, v):
    part.count('evaluations')
    case = {'part': 'time', 'ns': v}
    if not (0 <= v < NS_DAY):
        try:
            t = Time(v)
        except Exception:
            part.outcome(('time', 'int-refused'))
            return
        part.mark_nontrivial('t%d' % v)
        part.violation('C34/time/accepts-out-of-range/int-%s' % ('negative' if v < 0 else 'day-or-more'),
                       'Time(%d) accepted (nanosecond_time=%r, str=%s)' % (v, t.nanosecond_time, t), case)
        return

    def bad(clause, what):
        part.violation('C34/time/%s' % clause, '%s [ns %d]' % (what, v), case)

    h, mi, s, ns = v // (3600 * 10 ** 9), v // (60 * 10 ** 9) % 60, v // 10 ** 9 % 60, v % 10 ** 9
    try:
        t = Time(v)
        if t.nanosecond_time != v:
            bad('int/nanosecond_time', 'Time(%d).nanosecond_time = %r' % (v, t.nanosecond_time))
        if (t.hour, t.minute, t.second, t.nanosecond) != (h, mi, s, ns):
            bad('components', 'components %r' % ((t.hour, t.minute, t.second, t.nanosecond),))
        text = str(t)
        if text != fmt_time(v):
            bad('int-to-string', 'str(Time(%d)) = %r' % (v, text))
        forms = [fmt_time(v)]
        frac = '%09d' % ns
        if ns == 0:
            forms.append(fmt_time(v)[:8])
        stripped = frac.rstrip('0')
        if stripped and stripped != frac:
            forms.append(fmt_time(v)[:9] + stripped)
        for f in forms:
            r = Time(f)
            if r.nanosecond_time != v:
                bad('string-to-int', 'Time(%r).nanosecond_time = %r' % (f, r.nanosecond_time))
        pt = t.time()
        want = datetime.time(h, mi, s, ns // 1000)
        if pt != want or pt.tzinfo is not None:
            bad('int-to-time', 'Time(%d).time() = %r' % (v, pt))
        back = Time(want)
        if back.nanosecond_time != v - v % 1000:
            bad('time-to-int', 'Time(%r).nanosecond_time = %r' % (want, back.nanosecond_time))
        if v % 1000 == 0 and not (back == t and t == want and hash(back) == hash(t)):
            bad('equality', 'Time(int) != Time(datetime.time)')
        if v % 1000 and (t == want):
            bad('equality', 'Time with sub-microsecond part equals the truncated datetime.time')
        if v + 1 < NS_DAY and not (t < Time(v + 1)):
            bad('ordering', 'Time(v) < Time(v+1) fails')
    except Exception as ex:
        bad('raises/%s' % type(ex).__name__, 'raised %r' % (ex,))
    part.outcome(('time', 'sub-us' if v % 1000 else 'whole-us'))
    if v % 1000 and v > 10 ** 12:
        part.sample({'ns': v, 'str(Time(ns))': str(Time(v))}, limit=1)
    if v % 1000 or v % 10 ** 9 == 0 or v < 1000:
        part.mark_nontrivial('t%d' % v)


def check_time_string(part, Time, text):
    part.count('evaluations')
    try:
        t = Time(text)
    except Exception:
        part.outcome(('time', 'string-refused'))
        return
    part.mark_nontrivial('ts' + text)
    if not (0 <= t.nanosecond_time < NS_DAY):
        part.violation('C34/time/accepts-out-of-range/string', 'Time(%r) accepted with nanosecond_time=%r' % (text, t.nanosecond_time),
                       {'part': 'time_string', 'text': text})
    else:
        part.outcome(('time', 'odd-string-accepted-in-range'))


# ------------------------------------------------------------------------------------------ time-UUIDs
NODES = [0, 0x7f7f7f7f7f7f, 0x808080808080, 0xffffffffffff, 0x0102030405ff]
CLOCKS = [0, 0x7f, 0x80, 0xff, 0x2000, 0x3f7f, 0x3f80, 0x3fff]
EPOCH = datetime.datetime(1970, 1, 1)
# microseconds since 1970 of the bases
US_BASES = [
    ('uuid-epoch-1582', -UUID_EPOCH_TICKS // 10, 'after'),
    ('unix-epoch-1970', 0, 'both'),
    ('2001', 10 ** 15, 'both'),
    ('2038', 2 ** 31 * 10 ** 6, 'both'),
    ('2106', 2 ** 32 * 10 ** 6, 'both'),
    ('2242', 2 ** 33 * 10 ** 6, 'both'),
    ('2255-2^53us', 2 ** 53, 'both'),
    ('5236-60bit-limit', (2 ** 60 - UUID_EPOCH_TICKS) // 10, 'before'),
]


def uuid_chunk(arg):
    name, base, side, span = arg
    set_tz()
    import cassandra.util as cu
    part = Part()
    offs = list(range(0, span + 1)) + [10 ** 3, 10 ** 6 - 1, 10 ** 6, 10 ** 6 + 1, 3600 * 10 ** 6 + 7]
    us_list = []
    for o in offs:
        if side in ('after', 'both'):
            us_list.append(base + o)
        if side in ('before', 'both') and o:
            us_list.append(base - o)
        if side == 'before' and not o:
            us_list.append(base - 1)
    for us in sorted(set(us_list)):
        check_uuid_instant(part, cu, name, us)
    return part


def check_uuid_instant(part, cu, name, us, only=None):
    """us: the instant, whole microseconds since 1970 (UTC)."""
    ticks = us * 10 + UUID_EPOCH_TICKS
    if not (0 <= ticks < 2 ** 60):
        raise HarnessError('instant outside the 60-bit range')
    dt = EPOCH + datetime.timedelta(microseconds=us)
    aware = dt.replace(tzinfo=datetime.timezone.utc).astimezone(datetime.timezone(datetime.timedelta(hours=5, minutes=30)))
    fl = us / 1e6                                  # the float the user would pass for this instant
    fl_exact_us = Fraction(fl) * 10 ** 6
    inputs = [('datetime', dt), ('aware-datetime', aware)]
    if abs(us) < 2 ** 32 * 10 ** 6:
        # beyond +-2^32 s the spacing of floats exceeds 1 us: a float cannot denote a microsecond instant there
        inputs.append(('float', fl))
    if us % 10 ** 6 == 0:
        inputs.append(('int', us // 10 ** 6))
    lo_hi = {}
    for form, arg in inputs:
        if only and form != only:
            continue
        case = {'part': 'uuid', 'base': name, 'us': us, 'form': form}
        exact = form != 'float'
        flagged = []

        def bad(clause, what, case=case, form=form, flagged=flagged):
            flagged.append(clause)
            part.violation('C34/uuid/%s/%s' % (clause, 'float-seconds' if form == 'float' else 'datetime' if 'datetime' in form else form),
                           '%s [instant %s = %d us, given as %s %r]' % (what, dt.isoformat(), us, form, arg), case)
        try:
            lo, hi = cu.min_uuid_from_time(arg), cu.max_uuid_from_time(arg)
            for which, x in (('min', lo), ('max', hi)):
                if exact and x.time != ticks:
                    bad('timestamp-field', '%s_uuid_from_time timestamp is off by %d ticks of 100 ns' % (which, x.time - ticks))
            if cassandra_timeuuid_compare(lo.bytes, hi.bytes) >= 0:
                bad('bounds', 'min_uuid is not below max_uuid')
            if cassandra_timeuuid_compare(cu.LOWEST_TIME_UUID.bytes, lo.bytes) > 0 or \
                    cassandra_timeuuid_compare(hi.bytes, cu.HIGHEST_TIME_UUID.bytes) > 0:
                bad('bounds', 'LOWEST/HIGHEST_TIME_UUID do not bound min/max')
            for node in NODES:
                for clock in CLOCKS:
                    part.count('evaluations')
                    u = cu.uuid_from_time(arg, node, clock)
                    if u.version != 1 or u.variant != uuid.RFC_4122 or u.node != node or u.clock_seq != clock:
                        bad('fields', 'uuid_from_time(.., %#x, %#x) = %s has version %r node %#x clock %#x' % (
                            node, clock, u, u.version, u.node, u.clock_seq))
                    if exact:
                        if u.time != ticks:
                            bad('timestamp-field', 'uuid_from_time timestamp is off by %d ticks of 100 ns' % (u.time - ticks))
                    else:
                        err = abs(Fraction(u.time - UUID_EPOCH_TICKS, 10) - fl_exact_us)
                        if err >= 1:
                            bad('timestamp-field', 'uuid_from_time timestamp is %.1f us away from the instant' % float(err))
                    if u.time != lo.time or u.time != hi.time:
                        bad('bounds', 'min/max uuid carry another timestamp than uuid_from_time for the same argument')
                    if cassandra_timeuuid_compare(lo.bytes, u.bytes) > 0:
                        bad('bounds', 'min_uuid %s sorts after %s' % (lo, u))
                    if cassandra_timeuuid_compare(u.bytes, hi.bytes) > 0:
                        bad('bounds', 'max_uuid %s sorts before %s' % (hi, u))
            # decoding (independent of node/clock): from a uuid that certainly carries the instant
            part.count('evaluations')
            good = uuid.UUID(fields=(ticks & 0xffffffff, (ticks >> 32) & 0xffff, (ticks >> 48) & 0x0fff, 0x80, 0, 1), version=1)
            if exact:
                got = cu.datetime_from_uuid1(good)
                if got != dt or got.tzinfo is not None:
                    bad('decode-datetime', 'datetime_from_uuid1 of the uuid of the instant = %s' % got.isoformat())
                rt = cu.datetime_from_uuid1(cu.uuid_from_time(arg, 1, 0))
                if rt != dt and not flagged:          # otherwise a consequence of the two clauses above
                    bad('round-trip', 'datetime_from_uuid1(uuid_from_time(x)) = %s' % rt.isoformat())
                ut = cu.unix_time_from_uuid1(good)
                ex = Fraction(us, 10 ** 6)
                tol = max(Fraction(1, 10 ** 6), Fraction(abs(ut)) * Fraction(1, 2 ** 52))
                if not isinstance(ut, float) or abs(Fraction(ut) - ex) >= tol:
                    bad('decode-unix-time', 'unix_time_from_uuid1 = %r, exact %s' % (ut, float(ex)))
            else:
                rt = cu.datetime_from_uuid1(cu.uuid_from_time(arg, 1, 0))
                d_us = Fraction((rt - EPOCH) // datetime.timedelta(microseconds=1))
                if abs(d_us - fl_exact_us) >= 1 and not flagged:
                    bad('round-trip', 'datetime_from_uuid1(uuid_from_time(x)) = %s, %.1f us away' % (rt.isoformat(), float(abs(d_us - fl_exact_us))))
            lo_hi[form] = (lo, hi)
        except HarnessError:
            raise
        except Exception as ex:
            bad('raises/%s' % type(ex).__name__, 'raised %r' % (ex,))
    part.outcome(('uuid', name))
    part.mark_nontrivial('u%d' % us)
    if 'datetime' in lo_hi:
        part.sample({'instant': dt.isoformat(), 'min_uuid': str(lo_hi['datetime'][0]), 'max_uuid': str(lo_hi['datetime'][1])}, limit=1)
    return lo_hi


def ts_chunk(_):
    set_tz()
    import cassandra.util as cu
    part = Part()
    secs = set()
    for y in (1, 2, 1582, 1677, 1900, 1901, 1969, 1970, 1971, 2038, 2106, 2242, 5236, 9999):
        b = days_from_civil(y, 1, 1) * 86400
        for o in (0, 1, 86399, 86400, 365 * 86400 - 1):
            secs.add(b + o)
    secs |= {-2 ** 31, 2 ** 31, -2 ** 31 - 1, 2 ** 32, -1, -62135596800, 253402300799}
    for s in sorted(secs):
        part.count('evaluations')
        y, m, d = civil_from_days(s // 86400)
        want = datetime.datetime(y, m, d, s % 86400 // 3600, s % 3600 // 60, s % 60)
        for form, arg in (('int', s), ('float', float(s))):
            try:
                got = cu.datetime_from_timestamp(arg)
            except Exception as ex:
                got = ex
            if got != want:
                part.violation('C34/datetime_from_timestamp/whole-seconds', 'datetime_from_timestamp(%r) = %r, expected %s' % (
                    arg, got, want.isoformat()), {'part': 'ts', 'seconds': s, 'form': form})
        part.outcome(('ts', 'neg' if s < 0 else 'pos'))
        part.mark_nontrivial('s%d' % s)
    for fl in (0.5, -0.5, 1e-6, -1e-6, 0.000001, 1.999999, -1.999999, 1e9 + 0.123456, -1e9 - 0.123456, 2 ** 31 + 0.25):
        part.count('evaluations')
        got = cu.datetime_from_timestamp(fl)
        d_us = Fraction((got - EPOCH) // datetime.timedelta(microseconds=1))
        if abs(d_us - Fraction(fl) * 10 ** 6) > Fraction(1, 2):
            part.violation('C34/datetime_from_timestamp/fraction', 'datetime_from_timestamp(%r) = %s' % (fl, got.isoformat()),
                           {'part': 'ts', 'seconds': fl, 'form': 'float'})
    for s in (253402300800, -62135596801):
        part.count('evaluations')
        try:
            got = cu.datetime_from_timestamp(s)
            part.violation('C34/datetime_from_timestamp/out-of-range', 'datetime_from_timestamp(%r) = %r' % (s, got),
                           {'part': 'ts', 'seconds': s, 'form': 'int'})
        except (OverflowError, ValueError):
            part.outcome(('ts', 'out-of-range-refused'))
    return part


def misc_chunk(_):
    set_tz()
    from cassandra.util import Time
    part = Part()
    date_outside(part)
    for text in BAD_TIME_STRINGS:
        check_time_string(part, Time, text)
    return part


def dispatch(task):
    kind, arg = task
    return {'date': date_chunk, 'time': time_chunk, 'uuid': uuid_chunk, 'ts': ts_chunk, 'misc': misc_chunk}[kind](arg)


def run(ctx):
    if not selftest():
        raise HarnessError('selftest')
    full = ctx.thorough
    years = list(range(1, 10000))
    nchunk = 64
    tasks = [('date', (years[i::nchunk], full)) for i in range(nchunk)]
    grid = 10 ** 5
    tv = time_values(grid)
    tasks += [('time', tv[i::16]) for i in range(16)]
    span = 60 if ctx.quick else 3000
    tasks += [('uuid', (n, b, side, span)) for n, b, side in US_BASES]
    tasks += [('ts', None), ('misc', None)]
    tasks = ctx.rotate(tasks)
    for part in ctx.pmap(dispatch, tasks):
        ctx.merge(part)
    ctx.cov['rule'] = ('dates: %s; times: %d nanosecond values (unit boundaries +-1, grid of %d, out-of-range ints) + %d malformed/out-of-range '
                       'strings; uuids: %d bases x +-0..%d us (+5 far offsets) x {datetime, aware datetime, float, int} x %d nodes x %d clock_seqs; '
                       'non-trivial = leap/boundary days and years<1000, sub-microsecond or unit-boundary times, every uuid instant'
                       % ('every day of years 1-9999' if full else 'all days of %d boundary years + the 1st of every month of the other years' % len(BOUNDARY_YEARS),
                          len(tv), grid, len(BAD_TIME_STRINGS), len(US_BASES), span, len(NODES), len(CLOCKS)))
    ctx.cov['exhaustive'] = True
    ctx.assume('Cassandra orders time-UUIDs as TimeUUIDType.compareCustom of 3.x/4.x: 60-bit timestamp first, then the low 8 bytes as signed bytes')
    ctx.assume('"to the microsecond": a datetime argument (microsecond resolution, naive = UTC) must give exactly its tick count and decode to '
               'exactly itself; a float-seconds argument must land within 1 us of the real number the float denotes; '
               'unix_time_from_uuid1 returns a float and is held to max(1 us, 1 ulp)')
    ctx.assume('instants are within the 60-bit range of a version-1 uuid (1582-10-15 .. 5236-03-31)')
    ctx.assume('any constructor input that Time() accepts must denote a time in [0, 24 h); refusing may be any exception')


def replay(ctx, d):
    set_tz()
    import cassandra.util as cu
    part = Part()
    k = d['part']
    if k == 'date':
        check_date(part, cu.Date, d['days'], *d['ymd'])
    elif k == 'date_outside':
        date_outside(part)
    elif k == 'time':
        check_time(part, cu.Time, d['ns'])
    elif k == 'time_string':
        check_time_string(part, cu.Time, d['text'])
    elif k == 'uuid':
        check_uuid_instant(part, cu, d['base'], d['us'], d['form'])
    else:
        part = ts_chunk(None)
    for fp, what, _ in part.violations:
        print(fp, '::', what)
    return bool(part.violations)
