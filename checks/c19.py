"""C19 Unknown prepared statements are transparently re-prepared.

Every combination of protocol version, session keyspace, answer to the re-PREPARE and answer to the
re-sent EXECUTE is played on a real Session (prepared through Session.prepare); the frames the node
received and the outcome are compared with the statement of the property; every case is repeated with
stream id 0 handed to each frame of the exchange in turn.  A second layer keeps two attempts of one
request outstanding (speculative execution) and enumerates every order of answers and executor tasks:
the PREPARE must go to the node that answered UNPREPARED.
"""
import itertools

from vt import reqworld
from vt.world import wire
from vt.core import Part, HarnessError

META = {
    'level': 'model_checking',
    'engine': 'E',
    'technique': 'exhaustive enumeration of re-prepare histories on the real Session/ResponseFuture vs a reference of the expected frame sequence',
    'text': 'EXECUTE answered UNPREPARED, then the PREPARE answered by {same id, different id, error, connection lost, unexpected '
            'message}, then the re-sent EXECUTE answered by {rows, UNPREPARED again (second round), error}; protocol v4 and v5, with and without a '
            'per-statement keyspace (v5: carried by PREPARE; v4: recorded on the statement object), session keyspace absent / equal / different; executor task order fixed; '
            'every such case once with fresh stream ids and once for each frame of the expected exchange with stream id 0 handed to that frame (the state of a '
            'connection whose id queue has wrapped). '
            'Expected: PREPARE with identical query text (and the keyspace on v5) on the same node, then the original EXECUTE on that '
            'node, each exactly once; on id mismatch (which is how a changed session keyspace shows) the request fails with that error and no further frame is sent for it.  '
            'Speculative-execution layer: two nodes, one speculative attempt, each node has or has not lost the statement (a node answers '
            'UNPREPARED until it has been sent the PREPARE), protocol v4 and v5; every interleaving of {speculative timer fires, a node answers a held frame, '
            'a queued executor task runs (any queued task, not only the oldest)} is enumerated to quiescence: a PREPARE may only go to a node that '
            'answered UNPREPARED (never more PREPAREs than UNPREPARED answers per node), every node that answered UNPREPARED while the request was open gets one, '
            'an EXECUTE is repeated on a node only after that node answered PREPARED, the request ends with rows and completes once.',
    'note': 'A second UNPREPARED round is followed once more.  Connection loss during the re-prepare lets the request move to the next '
            'node; only the frames on the first node are judged in that case.  In the speculative layer the PREPARE is always answered with the same id '
            '(the other answers are covered by the single-attempt cases) and the client timeout does not fire.',
    'design_ref': 'C19',
}

QUERY = 'SELECT v FROM t WHERE k=?'
QID = b'qid-AAAA'
PREP_ANSWERS = ['same_id', 'different_id', 'error', 'lost', 'unexpected']
EXEC_ANSWERS = ['rows', 'unprepared_again', 'error']


def prepared_body(v, qid):
    return wire.result_prepared(qid, [('k', wire.T_INT)], [('v', wire.T_INT)], v, pk_indexes=(0,), ks='ks1', table='t')


def play(pv, session_ks, prep, exe, stmt_ks=None, id0=None):
    st = reqworld.ReqWorld(dict(hosts=2, protocol_version=pv, timeout=50.0, keyspace=None))
    try:
        srv = st.server
        # setup phase: everything automatic, PREPARE answered with our id
        srv.hold = lambda c, r: False
        st.w.manual = False

        def on_req(server, conn, stream, req):
            if req['op'] == 'PREPARE':
                return wire.OP_RESULT, prepared_body(req['version'], QID)
            return None
        srv.on_request = on_req
        if session_ks:
            st.session.set_keyspace(session_ks)
        if stmt_ks and pv >= 5:
            ps = st.session.prepare(QUERY, keyspace=stmt_ks)
        else:
            ps = st.session.prepare(QUERY)
            if stmt_ks:
                # below v5 the PREPARE cannot carry a keyspace; a statement object that records the keyspace it
                # was prepared in (public attribute PreparedStatement.keyspace) is what the driver's
                # "session keyspace no longer matches" guard compares with the connection's keyspace
                ps.keyspace = stmt_ks
        st.w.settle()
        srv.on_request = None
        srv.hold = st._hold
        st.w.manual = True
        mark = len(srv.received)
        if id0 is not None:
            # the id0-th frame sent on each connection from now on gets stream id 0
            st.place_id0(id0)
        f = st.session.execute_async(ps.bind([1]))
        from vt.reqworld import Observer
        obs = Observer(f, st.w)

        def drain():
            g = 0
            while st.w.tasks and g < 50:
                st.w.run_task(0)
                st.w.deliver_outbox()
                g += 1

        def answer_first(kind, **kw):
            pend = st.pending()
            if not pend:
                return False
            st.respond(0, kind, **kw)
            drain()
            return True

        rounds = 0
        answer_first('unprepared', query_id=QID)
        while rounds < 2:
            rounds += 1
            pend = st.pending()
            if not pend or pend[0].req['op'] != 'PREPARE':
                break
            p = pend[0]
            if prep == 'same_id' or rounds > 1:
                srv.respond(p, wire.OP_RESULT, prepared_body(pv, QID), deliver=True)
            elif prep == 'different_id':
                srv.respond(p, wire.OP_RESULT, prepared_body(pv, b'qid-BBBB'), deliver=True)
            elif prep == 'error':
                srv.respond(p, wire.OP_ERROR, wire.error(wire.ERR_INVALID, 'no such table'), deliver=True)
            elif prep == 'unexpected':
                srv.respond(p, wire.OP_RESULT, wire.result_void(), deliver=True)
            elif prep == 'lost':
                for q in list(srv.pending):
                    if q.conn is p.conn:
                        srv.pending.remove(q)
                p.conn.defunct(OSError(104, 'reset'))
            drain()
            pend = st.pending()
            if not pend or pend[0].req['op'] != 'EXECUTE':
                break
            if exe == 'unprepared_again' and rounds == 1:
                answer_first('unprepared', query_id=QID)
                continue
            answer_first('rows' if exe in ('rows', 'unprepared_again') else 'invalid')
            break
        drain()
        frames, streams = [], []
        for vid, stream, req in srv.received[mark:]:
            addr = st.w.conns[vid].endpoint.address
            if req['op'] in ('PREPARE', 'EXECUTE'):
                frames.append((addr, req['op'], req.get('query'), req.get('keyspace'), req.get('query_id')))
                streams.append(stream)
        if not f._event.is_set():
            out = 'open'
        elif f._final_exception is not None:
            out = type(f._final_exception).__name__
        else:
            out = 'rows'
        return frames, out, obs.n, len(st.pending()), streams
    finally:
        st.close()


def reference(pv, session_ks, prep, exe, stmt_ks=None):
    """Expected frames on the first node and outcome, from the statement.  A per-statement keyspace
    exists only where the protocol carries it (v5: Session.prepare(keyspace=...)); there it must be
    repeated in the PREPARE.  Without one, a changed session keyspace shows as a different id."""
    h = '10.0.0.1'
    ex = (h, 'EXECUTE', None, None, QID)
    pr = (h, 'PREPARE', QUERY, stmt_ks if pv >= 5 else None, None)
    frames = [ex]
    if pv < 5 and stmt_ks and session_ks != stmt_ks:
        # the protocol cannot carry the keyspace and the session is no longer in the statement's keyspace:
        # fails with that error, nothing further is sent
        return frames, 'ValueError'
    frames.append(pr)
    if prep == 'different_id':
        return frames, 'DriverException'
    if prep == 'error':
        return frames, 'InvalidRequest'
    if prep == 'unexpected':
        return frames, 'ConnectionException'
    if prep == 'lost':
        return frames, None           # moves on to the next node: outcome not judged here
    frames.append(ex)
    if exe == 'unprepared_again':
        frames += [pr, ex]
        return frames, 'rows'
    return frames, 'rows' if exe == 'rows' else 'InvalidRequest'


def judge_linear(part, case_t, evidence=True):
    """-> [(fingerprint, what, case)] for one single-attempt case"""
    pv, sks, prep, exe, stks, id0 = case_t
    frames, out, ncb, left, streams = play(pv, sks, prep, exe, stks, id0)
    ref_frames, ref_out = reference(pv, sks, prep, exe, stks)
    case = {'pv': pv, 'session_keyspace': sks, 'prepare_answer': prep, 'execute_answer': exe, 'statement_keyspace': stks, 'id0': id0}
    first = [fr for fr in frames if fr[0] == '10.0.0.1']
    if evidence:
        part.count('evaluations')
        part.outcome((out, len(first)))
        part.mark_nontrivial(repr((pv, sks, prep, exe, stks, id0)))
        part.sample(dict(case, frames=[list(map(str, fr)) for fr in frames], outcome=out), limit=2)
    if id0 is not None:
        if evidence:
            part.count('stream_id_0_cases')
        # the harness must really have put stream id 0 on the frame it names
        if id0 < len(first) and first == ref_frames[:len(first)]:
            on_first = [sid for fr, sid in zip(frames, streams) if fr[0] == '10.0.0.1']
            if on_first[id0] != 0:
                raise HarnessError('frame %d of %r went out with stream id %r, not 0' % (id0, case, on_first[id0]))
            if evidence:
                part.count('frames_sent_with_stream_id_0')
    v = []
    if first != ref_frames:
        if len(first) > len(ref_frames) and first[:len(ref_frames)] == ref_frames:
            kind = 'sent-after-failure' if ref_out not in ('rows', None) else 'extra-frame'
            if ref_out == 'ValueError':
                kind = 'sent-despite-keyspace-mismatch'
        elif [fr[1] for fr in first] == [fr[1] for fr in ref_frames]:
            kind = 'prepare-content'
        else:
            kind = 'sequence'
        v.append(('C19/frames/%s/%s' % (kind, prep), 'node saw %r, expected %r for %r' % (first, ref_frames, case), case))
    if ref_out is not None and out != ref_out:
        v.append(('C19/outcome/%s' % ref_out, 'outcome %r, expected %r for %r' % (out, ref_out, case), case))
    other = [fr for fr in frames if fr[0] != '10.0.0.1']
    if ref_out not in ('rows', None) and other:
        v.append(('C19/frames/other-node-after-failure/%s' % prep, 'frames went to another node after the request had failed: %r for %r' % (frames, case), case))
    if ref_out == 'rows' and other:
        v.append(('C19/frames/other-node-although-reprepared/%s' % prep,
                  'the node was re-prepared and got the EXECUTE again, yet frames also went to another node: %r for %r' % (frames, case), case))
    if ncb > 1:
        v.append(('C19/completed-twice', 'callbacks ran %d times for %r' % (ncb, case), case))
    return v


def run_chunk(cases):
    part = Part()
    for case_t in cases:
        if case_t[0] == 'spec':
            spec_subtree(part, *case_t[1:])
            continue
        v = judge_linear(part, case_t)
        if v and case_t[5] is not None:
            # a failure that the same case shows with fresh stream ids too keeps its plain fingerprint
            plain = set(fp for fp, _, _ in judge_linear(part, case_t[:5] + (None,), evidence=False))
            v = [(fp if fp in plain else fp + '/stream-id-0', what, case) for fp, what, case in v]
        for fp, what, case in v:
            part.violation(fp, what, case)
    return part


# ---------------------------------------------------------------------------------------------------------------
# speculative executions: two attempts of one request outstanding, responses and executor tasks in every order
A, B = '10.0.0.1', '10.0.0.2'
SPEC_SCRIPTS = ['UU', 'UR', 'RU', 'RR']      # has node A / node B lost the statement (U) or not (R)
ROOT_WIDTHS = (2, 2, 2)                      # the first three choices are split over the workers
MAX_STEPS = 40


def spec_history(pv, script, prefix):
    """Run one history: choices beyond `prefix` are 0.  -> (taken, widths, log, outcome) or None when prefix names a
    choice that does not exist.  log = chronological [('send', node, op, query) | ('answer', node, kind, request open?)]"""
    st = reqworld.ReqWorld(dict(hosts=2, protocol_version=pv, timeout=50.0, keyspace=None, spec=1, spec_delay=1.0))
    try:
        srv, w = st.server, st.w
        srv.hold = lambda c, r: False
        w.manual = False
        srv.on_request = lambda server, conn, stream, req: \
            (wire.OP_RESULT, prepared_body(req['version'], QID)) if req['op'] == 'PREPARE' else None
        ps = st.session.prepare(QUERY)
        ps.is_idempotent = True          # speculative executions are only made for idempotent statements
        w.settle()
        srv.on_request = None
        srv.hold = st._hold
        w.manual = True
        seen = len(srv.received)
        knows = {A: script[0] == 'R', B: script[1] == 'R'}
        f = st.session.execute_async(ps.bind([1]))
        obs = reqworld.Observer(f, w)
        log, taken, widths = [], [], []

        def note_sent():
            nonlocal seen
            for vid, stream, req in srv.received[seen:]:
                log.append(('send', w.conns[vid].endpoint.address, req['op'], req.get('query')))
            seen = len(srv.received)
        note_sent()
        while True:
            spec = [t for t in w.live_timers() if 'speculative' in (getattr(t.callback, '__name__', '') or '')]
            pend = st.pending()
            evs = [('spec',)] * bool(spec) + [('answer', i) for i in range(len(pend))] + [('task', i) for i in range(len(w.tasks))]
            if not evs:
                break
            if len(taken) >= MAX_STEPS:
                return taken, widths, log, 'no-quiescence', obs.n
            c = prefix[len(taken)] if len(taken) < len(prefix) else 0
            if c >= len(evs):
                return None
            widths.append(len(evs))
            taken.append(c)
            ev = evs[c]
            if ev[0] == 'spec':
                log.append(('spec',))
                w.fire_timer(spec[0])
            elif ev[0] == 'task':
                log.append(('task', w.tasks[ev[1]][4]))
                w.run_task(ev[1])
            else:
                p = pend[ev[1]]
                node = p.conn.endpoint.address
                is_open = not f._event.is_set()
                if p.req['op'] == 'PREPARE':
                    knows[node] = True
                    log.append(('answer', node, 'PREPARED', is_open))
                    srv.respond(p, wire.OP_RESULT, prepared_body(pv, QID), deliver=True)
                elif knows[node]:
                    log.append(('answer', node, 'ROWS', is_open))
                    st.respond(ev[1], 'rows')
                else:
                    log.append(('answer', node, 'UNPREPARED', is_open))
                    st.respond(ev[1], 'unprepared', query_id=QID)
            w.deliver_outbox()
            note_sent()
        if len(prefix) > len(taken) and any(prefix[len(taken):]):
            return None
        if not f._event.is_set():
            out = 'open'
        elif f._final_exception is not None:
            out = type(f._final_exception).__name__
        else:
            out = 'rows'
        return taken, widths, log, out, obs.n
    finally:
        st.close()


def judge_spec(part, case, log, out, ncb):
    sent = {A: {'PREPARE': 0, 'EXECUTE': 0}, B: {'PREPARE': 0, 'EXECUTE': 0}}
    got = {A: {'UNPREPARED': 0, 'PREPARED': 0, 'ROWS': 0, 'open-UNPREPARED': 0}, B: {'UNPREPARED': 0, 'PREPARED': 0, 'ROWS': 0, 'open-UNPREPARED': 0}}
    name = {A: 'A', B: 'B'}
    for e in log:
        if e[0] == 'answer':
            got[e[1]][e[2]] += 1
            if e[2] == 'UNPREPARED' and e[3]:
                got[e[1]]['open-UNPREPARED'] += 1
        elif e[0] == 'send' and e[2] in ('PREPARE', 'EXECUTE'):
            node = e[1]
            sent[node][e[2]] += 1
            if e[2] == 'PREPARE':
                if e[3] != QUERY:
                    part.violation('C19/spec/prepare-content', 'PREPARE carried %r for %r: %r' % (e[3], case, log), case)
                if sent[node]['PREPARE'] > got[node]['UNPREPARED']:
                    part.violation('C19/spec/prepare-to-node-that-did-not-answer-unprepared',
                                   'PREPARE number %d went to node %s, which had answered UNPREPARED %d times; %r: %r'
                                   % (sent[node]['PREPARE'], name[node], got[node]['UNPREPARED'], case, log), case)
            elif sent[node]['EXECUTE'] > 1 + got[node]['PREPARED']:
                part.violation('C19/spec/execute-repeated-without-prepared',
                               'EXECUTE number %d went to node %s, which had answered PREPARED %d times; %r: %r'
                               % (sent[node]['EXECUTE'], name[node], got[node]['PREPARED'], case, log), case)
    for node in (A, B):
        if sent[node]['PREPARE'] < got[node]['open-UNPREPARED']:
            part.violation('C19/spec/unprepared-node-not-prepared',
                           'node %s answered UNPREPARED %d times while the request was open and was sent %d PREPAREs; %r: %r'
                           % (name[node], got[node]['open-UNPREPARED'], sent[node]['PREPARE'], case, log), case)
    if out != 'rows':
        part.violation('C19/spec/outcome', 'outcome %r, expected rows for %r: %r' % (out, case, log), case)
    if ncb > 1:
        part.violation('C19/spec/completed-twice', 'callbacks ran %d times for %r' % (ncb, case), case)


def spec_subtree(part, pv, script, root):
    """Every history of `script` whose first choices are `root` (depth-first over choice prefixes, one run per history)."""
    stack = [list(root)]
    while stack:
        prefix = stack.pop()
        r = spec_history(pv, script, prefix)
        if r is None:
            if len(prefix) > len(root):
                raise HarnessError('choice prefix %r of %r does not replay' % (prefix, script))
            continue
        taken, widths, log, out, ncb = r
        for i, wd in enumerate(widths[:len(ROOT_WIDTHS)]):
            if wd > ROOT_WIDTHS[i]:
                raise HarnessError('step %d of %r offers %d events, the split over workers assumes <= %d' % (i, taken, wd, ROOT_WIDTHS[i]))
        part.count('evaluations')
        part.count('spec_histories')
        part.count('spec_steps', len(taken))
        case = {'spec': True, 'pv': pv, 'script': script, 'choices': list(taken)}
        both = sum(1 for e in log if e[0] == 'spec')
        reordered = any(e[0] == 'task' for e in log) and both
        part.outcome(('spec', script, out, 'two-attempts' if both else 'one-attempt'))
        if reordered:
            part.mark_nontrivial(repr(('spec', pv, script, tuple(taken))))
        if script == 'UU' and both:
            part.sample(dict(case, log=[list(map(str, e)) for e in log], outcome=out), limit=1)
        judge_spec(part, case, log, out, ncb)
        for i in range(max(len(prefix), len(root)), len(widths)):
            for c in range(1, widths[i]):
                stack.append(taken[:i] + [c])


def run(ctx):
    cases = []
    for pv in (4, 5):
        for sks in (None, 'ks1', 'ks2'):
            for p in PREP_ANSWERS:
                for e in EXEC_ANSWERS:
                    for k in (None, 'ks1'):
                        nframes = len(reference(pv, sks, p, e, k)[0])
                        cases += [(pv, sks, p, e, k, id0) for id0 in [None] + list(range(nframes))]
    linear = len(cases)
    for pv in (4, 5):
        for script in SPEC_SCRIPTS:
            cases += [('spec', pv, script, root) for root in itertools.product(*[range(n) for n in ROOT_WIDTHS])]
    cases = ctx.rotate(cases)
    n = min(len(cases), ctx.nproc * 4)
    for part in ctx.pmap(run_chunk, [cases[i::n] for i in range(n) if cases[i::n]]):
        ctx.merge(part)
    ctx.count('states', linear + ctx.counters.get('spec_histories', 0))
    ctx.count('transitions', linear * 4 + ctx.counters.get('spec_steps', 0))
    ctx.cov['rule'] = ('protocol version x session keyspace x PREPARE answer x EXECUTE answer x position of stream id 0 enumerated completely '
                       '(every case is non-trivial); speculative layer: every maximal interleaving of timer / answers / executor tasks for '
                       'each of the four lost-statement scripts (counter spec_histories), non-trivial = both attempts outstanding and at '
                       'least one executor task run')
    ctx.cov['exhaustive'] = True


def replay(ctx, data):
    if data.get('spec'):
        part = Part()
        r = spec_history(data['pv'], data['script'], data['choices'])
        if r is None:
            raise HarnessError('recorded choices %r do not replay' % (data['choices'],))
        judge_spec(part, data, r[2], r[3], r[4])
    else:
        part = run_chunk([(data['pv'], data['session_keyspace'], data['prepare_answer'], data['execute_answer'], data.get('statement_keyspace'),
                           data.get('id0'))])
    for fp, what, _ in part.violations:
        print(fp, '::', what)
    return bool(part.violations)
