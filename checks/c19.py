"""C19 Unknown prepared statements are transparently re-prepared.

Every combination of protocol version, session keyspace, answer to the re-PREPARE and answer to the
re-sent EXECUTE is played on a real Session (prepared through Session.prepare); the frames the node
received and the outcome are compared with the statement of the property.
"""
import itertools

from vt import reqworld
from vt.world import wire
from vt.core import Part

META = {
    'level': 'model_checking',
    'engine': 'E',
    'technique': 'exhaustive enumeration of re-prepare histories on the real Session/ResponseFuture vs a reference of the expected frame sequence',
    'text': 'EXECUTE answered UNPREPARED, then the PREPARE answered by {same id, different id, error, connection lost, unexpected '
            'message}, then the re-sent EXECUTE answered by {rows, UNPREPARED again (second round), error}; protocol v4 and v5, with and without a '
            'per-statement keyspace (v5: carried by PREPARE; v4: recorded on the statement object), session keyspace absent / equal / different; executor task order fixed. '
            'Expected: PREPARE with identical query text (and the keyspace on v5) on the same node, then the original EXECUTE on that '
            'node; on id mismatch (which is how a changed session keyspace shows) the request fails with that error and no further frame is sent for it.',
    'note': 'A second UNPREPARED round is followed once more.  Connection loss during the re-prepare lets the request move to the next '
            'node; only the frames on the first node are judged in that case.',
    'design_ref': 'C19',
}

QUERY = 'SELECT v FROM t WHERE k=?'
QID = b'qid-AAAA'
PREP_ANSWERS = ['same_id', 'different_id', 'error', 'lost', 'unexpected']
EXEC_ANSWERS = ['rows', 'unprepared_again', 'error']


def prepared_body(v, qid):
    return wire.result_prepared(qid, [('k', wire.T_INT)], [('v', wire.T_INT)], v, pk_indexes=(0,), ks='ks1', table='t')


def play(pv, session_ks, prep, exe, stmt_ks=None):
    st = reqworld.ReqWorld(dict(hosts=2, protocol_version=pv, timeout=50.0, keyspace=None))
    try:
        srv = st.server
        # setup phase: everything automatic, PREPARE answered with our id
        srv.hold = lambda c, r: False
        st.w.manual = False

        def on_req(server, conn, stream, req):
            if req['op'] == 'PREPARE':
                return wire.OP_RESULT, prepared_body(req['version'], QID)
            return None
        srv.on_request = on_req
        if session_ks:
            st.session.set_keyspace(session_ks)
        if stmt_ks and pv >= 5:
            ps = st.session.prepare(QUERY, keyspace=stmt_ks)
        else:
            ps = st.session.prepare(QUERY)
            if stmt_ks:
                # below v5 the PREPARE cannot carry a keyspace; a statement object that records the keyspace it
                # was prepared in (public attribute PreparedStatement.keyspace) is what the driver's
                # "session keyspace no longer matches" guard compares with the connection's keyspace
                ps.keyspace = stmt_ks
        st.w.settle()
        srv.on_request = None
        srv.hold = st._hold
        st.w.manual = True
        mark = len(srv.received)
        f = st.session.execute_async(ps.bind([1]))
        from vt.reqworld import Observer
        obs = Observer(f, st.w)

        def drain():
            g = 0
            while st.w.tasks and g < 50:
                st.w.run_task(0)
                st.w.deliver_outbox()
                g += 1

        def answer_first(kind, **kw):
            pend = st.pending()
            if not pend:
                return False
            st.respond(0, kind, **kw)
            drain()
            return True

        rounds = 0
        answer_first('unprepared', query_id=QID)
        while rounds < 2:
            rounds += 1
            pend = st.pending()
            if not pend or pend[0].req['op'] != 'PREPARE':
                break
            p = pend[0]
            if prep == 'same_id' or rounds > 1:
                srv.respond(p, wire.OP_RESULT, prepared_body(pv, QID), deliver=True)
            elif prep == 'different_id':
                srv.respond(p, wire.OP_RESULT, prepared_body(pv, b'qid-BBBB'), deliver=True)
            elif prep == 'error':
                srv.respond(p, wire.OP_ERROR, wire.error(wire.ERR_INVALID, 'no such table'), deliver=True)
            elif prep == 'unexpected':
                srv.respond(p, wire.OP_RESULT, wire.result_void(), deliver=True)
            elif prep == 'lost':
                for q in list(srv.pending):
                    if q.conn is p.conn:
                        srv.pending.remove(q)
                p.conn.defunct(OSError(104, 'reset'))
            drain()
            pend = st.pending()
            if not pend or pend[0].req['op'] != 'EXECUTE':
                break
            if exe == 'unprepared_again' and rounds == 1:
                answer_first('unprepared', query_id=QID)
                continue
            answer_first('rows' if exe in ('rows', 'unprepared_again') else 'invalid')
            break
        drain()
        frames = []
        for vid, stream, req in srv.received[mark:]:
            addr = st.w.conns[vid].endpoint.address
            if req['op'] in ('PREPARE', 'EXECUTE'):
                frames.append((addr, req['op'], req.get('query'), req.get('keyspace'), req.get('query_id')))
        if not f._event.is_set():
            out = 'open'
        elif f._final_exception is not None:
            out = type(f._final_exception).__name__
        else:
            out = 'rows'
        return frames, out, obs.n, len(st.pending())
    finally:
        st.close()


def reference(pv, session_ks, prep, exe, stmt_ks=None):
    """Expected frames on the first node and outcome, from the statement.  A per-statement keyspace
    exists only where the protocol carries it (v5: Session.prepare(keyspace=...)); there it must be
    repeated in the PREPARE.  Without one, a changed session keyspace shows as a different id."""
    h = '10.0.0.1'
    ex = (h, 'EXECUTE', None, None, QID)
    pr = (h, 'PREPARE', QUERY, stmt_ks if pv >= 5 else None, None)
    frames = [ex]
    if pv < 5 and stmt_ks and session_ks != stmt_ks:
        # the protocol cannot carry the keyspace and the session is no longer in the statement's keyspace:
        # fails with that error, nothing further is sent
        return frames, 'ValueError'
    frames.append(pr)
    if prep == 'different_id':
        return frames, 'DriverException'
    if prep == 'error':
        return frames, 'InvalidRequest'
    if prep == 'unexpected':
        return frames, 'ConnectionException'
    if prep == 'lost':
        return frames, None           # moves on to the next node: outcome not judged here
    frames.append(ex)
    if exe == 'unprepared_again':
        frames += [pr, ex]
        return frames, 'rows'
    return frames, 'rows' if exe == 'rows' else 'InvalidRequest'


def run_chunk(cases):
    part = Part()
    for pv, sks, prep, exe, stks in cases:
        part.count('evaluations')
        frames, out, ncb, left = play(pv, sks, prep, exe, stks)
        ref_frames, ref_out = reference(pv, sks, prep, exe, stks)
        case = {'pv': pv, 'session_keyspace': sks, 'prepare_answer': prep, 'execute_answer': exe, 'statement_keyspace': stks}
        first = [fr for fr in frames if fr[0] == '10.0.0.1']
        part.outcome((out, len(first)))
        part.mark_nontrivial(repr((pv, sks, prep, exe, stks)))
        part.sample(dict(case, frames=[list(map(str, fr)) for fr in frames], outcome=out), limit=2)
        if first != ref_frames:
            if len(first) > len(ref_frames) and first[:len(ref_frames)] == ref_frames:
                kind = 'sent-after-failure' if ref_out not in ('rows', None) else 'extra-frame'
                if ref_out == 'ValueError':
                    kind = 'sent-despite-keyspace-mismatch'
            elif [fr[1] for fr in first] == [fr[1] for fr in ref_frames]:
                kind = 'prepare-content'
            else:
                kind = 'sequence'
            part.violation('C19/frames/%s/%s' % (kind, prep), 'node saw %r, expected %r for %r' % (first, ref_frames, case), case)
        if ref_out is not None and out != ref_out:
            part.violation('C19/outcome/%s' % ref_out, 'outcome %r, expected %r for %r' % (out, ref_out, case), case)
        if ref_out not in ('rows', None) and [fr for fr in frames if fr[0] != '10.0.0.1']:
            part.violation('C19/frames/other-node-after-failure/%s' % prep, 'frames went to another node after the request had failed: %r for %r' % (frames, case), case)
        if ncb > 1:
            part.violation('C19/completed-twice', 'callbacks ran %d times for %r' % (ncb, case), case)
    return part


def run(ctx):
    cases = [(pv, sks, p, e, k) for pv in (4, 5) for sks in (None, 'ks1', 'ks2') for p in PREP_ANSWERS for e in EXEC_ANSWERS
             for k in (None, 'ks1')]
    cases = ctx.rotate(cases)
    n = min(len(cases), ctx.nproc * 2)
    for part in ctx.pmap(run_chunk, [cases[i::n] for i in range(n) if cases[i::n]]):
        ctx.merge(part)
    ctx.count('states', len(cases))
    ctx.count('transitions', len(cases) * 4)
    ctx.cov['rule'] = 'protocol version x session keyspace x PREPARE answer x EXECUTE answer enumerated completely; every case is non-trivial'
    ctx.cov['exhaustive'] = True


def replay(ctx, data):
    part = run_chunk([(data['pv'], data['session_keyspace'], data['prepare_answer'], data['execute_answer'], data.get('statement_keyspace'))])
    for fp, what, _ in part.violations:
        print(fp, '::', what)
    return bool(part.violations)
