"""C03 Request frames conform to the native protocol specification.

Engine N.  Every request kind x protocol version {1,2,3,4,5,6,DSE_V1,DSE_V2} x the cross product
of the options the session layer can ask for is turned into a message *by the session layer
itself* (QUERY / EXECUTE / BATCH go through the real ``Session._create_response_future`` with a
stub session object, PREPARE and the connection-level messages are built the way
``Session.prepare`` / ``Connection`` build them), encoded with
``ProtocolHandler.encode_message(msg, stream_id, protocol_version, compressor, allow_beta)`` exactly
as ``Connection.send_msg`` does, and read back with the independent strict parser
``vt.spec.frames.parse_request``.  The parsed fields must equal the requested ones; options the
version cannot carry must make the driver raise.
"""
import gc
import itertools
import re

from vt.core import Part, HarnessError
from vt.spec import frames as F

META = {
    'level': 'exploration',
    'engine': 'N',
    'technique': 'bounded-exhaustive enumeration of request kinds x versions x option cross product, read back by an independent strict spec parser',
    'text': 'Every request kind (STARTUP, OPTIONS, AUTH_RESPONSE, CREDENTIALS, QUERY, PREPARE, EXECUTE, BATCH, REGISTER, '
            'REVISE_REQUEST) x protocol versions 1-6, DSE_V1, DSE_V2 x the cross product of statement/profile/session options '
            '(values incl. null and unset, page size, paging state, serial consistency, client timestamp, keyspace, continuous '
            'paging, custom payload from statement and execute(), tracing, compression, beta flag, stream id) is built through '
            'the real session-layer code, encoded as Connection.send_msg does and parsed by vt.spec.frames.parse_request '
            '(header length = body length, no trailing bytes, flag widths and fields per version); parsed fields must equal the '
            'request, and combinations a version cannot carry must raise. The alphabets contain the present-but-falsy value of every '
            'option (client timestamp 0, fetch size 0, paging state b"", keyspace "", consistency ANY (0), serial consistency ANY '
            '(0) on the statement, empty bound-values list, empty payload from execute() and from the statement, stream id 0, empty '
            'batch, empty token / credentials / query text). Two layers per tier. quick: main = full product of the body options '
            'without the interior symbols (timestamp 0, fetch sizes 0 and 1, paging state b"", consistency / serial ANY, empty query, '
            '16-byte id) x a star of frame options (default, each value alone incl. the empty statement payload, all together; '
            'without stream ids 1 and 128 and the two-entry payload); edge = full product of the complete body alphabets x default '
            'frame options (cases of the main layer not repeated); must-reject cases only where the remaining body options form a '
            'star. thorough: main = full product of the body options without fetch size 0, paging state b"", consistency / serial '
            'ANY x full product of the frame options without the empty statement payload; edge = full product of the complete '
            'body alphabets x a star of the complete frame options.',
    'note': 'Trusted base: vt/spec/frames.py (written from the protocol specifications; DSE_V1/V2 layouts from DataStax\'s public '
            'notes). The session object handed to Session._create_response_future is a stub carrying only the attributes that '
            'method reads. Compression uses a stand-in codec (the compressor is a parameter of encode_message).',
    'design_ref': 'C03',
}

MAXINT = 2 ** 31 - 1
MAXLONG = 2 ** 63 - 1


# ------------------------------------------------------------------------------------------------
# symbolic option values (a case is a dict of axis -> symbol, JSON-native so it can be replayed)
QUERIES = {'plain': 'SELECT 1', 'utf8': 'SELECT "é€\U0001F600" FROM t', 'empty': ''}
PAYLOAD_EXEC = {'none': None, 'empty': {}, 'one': {'k': b'v'}, 'two': {'a': b'', 'b': b'\x00\xff'}}
PAYLOAD_STMT = {'none': None, 'empty': {}, 'one': {'s': b'1', 'k': b'stmt'}}
FETCH = {'default': 5000, 'none': None, 'one': 1, 'zero': 0, 'max': MAXINT}
TS = {'off': None, 'one': 1, 'zero': 0, 'max': MAXLONG, 'neg': -1}
KS = {'none': None, 'ks': 'ks', 'empty': ''}
PAGING_STATE = {'none': None, 'empty': b'', 'some': b'\x00\xffstate'}
SERIAL = {'none': None, 'stmt': 8, 'any': 0, 'profile': 9}     # 'any': ConsistencyLevel.ANY (0) given to the statement
CL = {'default': 10, 'any': 0, 'quorum': 4}
CONT = {'none': None, 'rows': ('rows', 2, 3, 4), 'bytes': ('bytes', 0, 0, 2)}
QID = {'short': b'\x01', 'md5': bytes(range(16))}
VALUES = {                      # bound python values -> expected wire values
    'zero': ((), []),
    'one': ((b'\x00\x01',), [b'\x00\x01']),
    'emptybytes': ((b'',), [b'']),
    'null': ((None,), [None]),
    'unset': (('UNSET',), [F.UNSET]),
    'mixed': ((b'a', None, 'UNSET', b''), [b'a', None, F.UNSET, b'']),
}
BATCHES = {                     # statements of a batch: ('str', text) | ('simple', text) | ('prep', qid, values-symbol)
    'none': [],
    'str': [('str', 'INSERT 1')],
    'prep': [('prep', 'short', 'one')],
    'simple+prepnull': [('simple', 'UPDATE é'), ('prep', 'md5', 'null')],
    'prepzero+str': [('prep', 'short', 'zero'), ('str', '')],
    'prepunset': [('prep', 'short', 'unset')],
    'prepmixed+simple': [('prep', 'md5', 'mixed'), ('simple', 'DELETE 1')],
}
BATCH_TYPES = {'logged': 0, 'unlogged': 1, 'counter': 2}
STARTUP_OPTS = {'plain': {}, 'lz4': {'COMPRESSION': 'lz4'}, 'snappy+nocompact': {'COMPRESSION': 'snappy', 'NO_COMPACT': 'true'}}
CQLV = {'3.0.0': '3.0.0', '3.4.5': '3.4.5'}
AUTH_TOKENS = {'emptystr': '', 'emptybytes': b'', 'plain': b'\x00user\x00pass', 'str': '\x00usér\x00päss'}
CREDS = {'userpass': {'username': 'u', 'password': 'pä'}, 'empty': {}}
REGISTERS = {'one': ['TOPOLOGY_CHANGE'], 'all': ['TOPOLOGY_CHANGE', 'STATUS_CHANGE', 'SCHEMA_CHANGE'],
             'dictkeys': ('keys', ['STATUS_CHANGE', 'SCHEMA_CHANGE'])}
REVISE = {'cancel': (1, 0), 'more1': (2, 1), 'more4': (2, 4), 'moremax': (2, MAXINT)}
OPIDS = {'zero': 0, 'seven': 7, 'max': 32767}

FRAME_AXES = ['stream', 'tracing', 'payload_exec', 'payload_stmt', 'compress', 'beta']
SESSION_KINDS = ('QUERY', 'EXECUTE', 'BATCH')
KINDS = ('QUERY', 'EXECUTE', 'BATCH', 'PREPARE', 'STARTUP', 'OPTIONS', 'AUTH_RESPONSE', 'CREDENTIALS',
         'REGISTER', 'REVISE_REQUEST')


def streams(v):
    return [0, 1, 127] if v in (1, 2) else [0, 1, 127, 128, 32767]


QUICK_DROPPED = {'ts': ('zero',), 'fetch': ('one',), 'query': ('empty',), 'qid': ('md5',),
                 'stream': (1, 128), 'payload_exec': ('two',)}
# "present but falsy" option values (0, b'', {}, ConsistencyLevel.ANY == 0): the values a truthiness test
# in the encoder confuses with "not given".  Together with the ones that were always in the alphabets
# (timestamp 0, keyspace "", empty bound-values list, empty payload via execute(), stream id 0, empty token,
# batch type LOGGED == 0, operation id 0) they are enumerated by the *edge layer* of both tiers.
FALSY = {'cl': ('any',), 'serial': ('any',), 'fetch': ('zero',), 'paging_state': ('empty',), 'payload_stmt': ('empty',),
         'payload_exec': ('empty',), 'ts': ('zero',), 'keyspace': ('empty',), 'values': ('zero',), 'query': ('empty',),
         'batch': ('none', 'prepzero+str'), 'token': ('emptystr', 'emptybytes'), 'creds': ('empty',)}
EDGE = {'cl': ('any',), 'serial': ('any',), 'fetch': ('zero',), 'paging_state': ('empty',), 'payload_stmt': ('empty',)}

# alphabets: 'full' = every symbol; 'wide' = full without EDGE; 'lean' = full without QUICK_DROPPED;
# 'core' = full without both.  Interior symbols only are ever removed, so the first (default) and last symbol
# of an axis are the same in all of them.
LEVELS = ('core', 'lean', 'wide', 'full')
# tier -> (main layer: body alphabet, frame alphabet, frame combiner; edge layer: frame combiner).  The edge layer
# always runs the full product of the 'full' body alphabets x its combiner over the 'full' frame alphabets and
# skips the cases the main layer already ran.
TIERS = {'quick': ('core', 'lean', 'star', 'default'), 'thorough': ('wide', 'wide', 'full', 'star')}


def axes(kind, v, level='full'):
    """Ordered axis -> list of symbols; the first symbol of each axis is its default."""
    if level not in LEVELS:
        raise HarnessError('alphabet level %r' % (level,))
    fr, body = _axes(kind, v)
    drops = []
    if level in ('core', 'wide'):
        drops.append(EDGE)
    if level in ('core', 'lean'):
        drops.append(QUICK_DROPPED)
    for d in drops:
        for k, drop in d.items():
            for ax in (fr, body):
                if k in ax:
                    ax[k] = [x for x in ax[k] if x not in drop]
    return fr, body


def main_axes(kind, v, tier):
    blevel, flevel, _, _ = TIERS[tier]
    return axes(kind, v, flevel)[0], axes(kind, v, blevel)[1]


def frame_combos(fr, how):
    if how == 'star':
        return frame_star(fr)
    if how == 'full':
        return frame_full(fr)
    if how == 'default':
        return [{k: vals[0] for k, vals in fr.items()}]
    raise HarnessError(how)


def _axes(kind, v):
    fr = {'stream': streams(v), 'compress': [False, True], 'beta': [False, True]}
    if kind in SESSION_KINDS:
        fr.update(tracing=[False, True], payload_exec=list(PAYLOAD_EXEC), payload_stmt=list(PAYLOAD_STMT))
    if kind == 'QUERY':
        body = dict(query=list(QUERIES), cl=list(CL), serial=list(SERIAL), fetch=list(FETCH),
                    paging_state=list(PAGING_STATE), ts=list(TS), keyspace=list(KS), cont=list(CONT))
    elif kind == 'EXECUTE':
        body = dict(values=list(VALUES), skip_meta=[False, True], qid=list(QID), cl=list(CL), serial=list(SERIAL),
                    fetch=list(FETCH), paging_state=list(PAGING_STATE), ts=list(TS), cont=list(CONT))
    elif kind == 'BATCH':
        body = dict(batch=list(BATCHES), batch_type=list(BATCH_TYPES), cl=list(CL), serial=list(SERIAL),
                    ts=list(TS), keyspace=list(KS))
    elif kind == 'PREPARE':
        body = dict(query=list(QUERIES), keyspace=list(KS))
    elif kind == 'STARTUP':
        body = dict(opts=list(STARTUP_OPTS), cqlv=list(CQLV))
        fr.pop('compress')      # the compressor is only installed after READY/AUTHENTICATE
    elif kind == 'OPTIONS':
        body = {}
    elif kind == 'AUTH_RESPONSE':
        body = dict(token=list(AUTH_TOKENS))
    elif kind == 'CREDENTIALS':
        body = dict(creds=list(CREDS))
    elif kind == 'REGISTER':
        body = dict(events=list(REGISTERS))
    elif kind == 'REVISE_REQUEST':
        body = dict(revise=list(REVISE), opid=list(OPIDS))
    else:
        raise HarnessError(kind)
    return fr, body


def requestable(kind, v, case):
    """False for combinations the session layer cannot produce at that version, or whose meaning
    cannot be pinned down (left out, see assumptions)."""
    if kind == 'AUTH_RESPONSE' and v == 1:
        return False            # v1 authenticates with CREDENTIALS; Cluster insists on a dict provider there
    if kind == 'REVISE_REQUEST':
        if not F.is_dse(v):
            return False        # continuous paging sessions exist only on the DSE dialects
        if REVISE[case['revise']][0] == 2 and v != F.DSE_V2:
            return False        # back-pressure state only exists on DSE_V2
    if kind == 'BATCH' and v == 2 and case['serial'] != 'none':
        return False            # documented: serial CL for batches needs v3 (left out, see assumptions)
    return True


def frame_star(fr):
    """quick tier: default, each non-default value alone, and everything non-default together."""
    base = {k: vals[0] for k, vals in fr.items()}
    out = [dict(base)]
    for k, vals in fr.items():
        for x in vals[1:]:
            d = dict(base)
            d[k] = x
            out.append(d)
    if fr:
        out.append({k: vals[-1] for k, vals in fr.items()})
    return out


def frame_full(fr):
    keys = list(fr)
    return [dict(zip(keys, combo)) for combo in itertools.product(*[fr[k] for k in keys])]


def body_cases(body):
    keys = list(body)
    for combo in itertools.product(*[body[k] for k in keys]):
        yield dict(zip(keys, combo))


# ------------------------------------------------------------------------------------------------
# stand-in compression codec (encode_message takes the compressor as a parameter)
def compressor(b):
    return b'Z' + bytes(b)[::-1]


def decompressor(b):
    if b[:1] != b'Z':
        raise F.SpecError('compressed flag set but the body was not produced by the compressor')
    return bytes(b[1:])[::-1]


# ------------------------------------------------------------------------------------------------
class OneOf(object):
    def __init__(self, *options):
        self.options = options

    def __repr__(self):
        return 'one of %r' % (self.options,)


def _merged_payload(case):
    m = {}
    for src in (PAYLOAD_STMT[case.get('payload_stmt', 'none')], PAYLOAD_EXEC[case.get('payload_exec', 'none')]):
        if src:
            m.update(src)
    return m


def expect(kind, v, case):
    """Independent expectation: (reject, fields) with reject in 'must' | 'may' | 'no'.
    Only facts of the specification are used (what a version can carry and where)."""
    reject = 'no'
    exp = {'version': v, 'opcode': kind, 'stream': case['stream'], 'beta': case['beta'],
           'tracing': bool(case.get('tracing', False))}
    payload = _merged_payload(case)
    if payload:
        exp['payload'] = payload
        if not F.carries_payload(v):
            reject = 'must'
    else:
        exp['payload'] = OneOf(None, {})
    body_nonempty = kind != 'OPTIONS' or bool(payload)
    exp['compressed'] = bool(case.get('compress')) and not F.segment_layer(v) and body_nonempty

    def must():
        nonlocal reject
        reject = 'must'

    def may():
        nonlocal reject
        if reject == 'no':
            reject = 'may'

    def keyspace(sym):
        ks = KS[sym]
        if ks is None:
            return None
        if ks == '':                        # "" may be sent as such or treated as "no keyspace"
            return OneOf('', None)
        return ks

    def timestamp(sym):
        ts = TS[sym]
        if ts is None or not F.carries_timestamp(v):    # Session.use_client_timestamp is documented as v3+
            return None
        if ts < 0:
            may()                           # negative protocol timestamps: refusing is as good as sending
        return ts

    def serial(sym):
        if sym == 'any':                    # not a serial level: no well-formed frame can carry it, so it is refused
            may()                           # (today: ValueError from the statement) or left out; the parser rejects
            return None                     # a serial-consistency field that is not SERIAL / LOCAL_SERIAL
        return SERIAL[sym]

    if kind in ('QUERY', 'EXECUTE'):
        exp.update(consistency=CL[case['cl']], names=None, now_in_seconds=None, keyspace=None)
        if kind == 'QUERY':
            exp.update(query=QUERIES[case['query']], values=None, skip_metadata=False)
            ks = keyspace(case['keyspace'])
            # Statement.keyspace is documented as a routing hint; it travels only where the version has the field
            exp['keyspace'] = ks if F.carries_keyspace(v) else None
        else:
            pyvals, wire = VALUES[case['values']]
            exp.update(query_id=QID[case['qid']], values=list(wire),
                       result_metadata_id=b'\x11\x22' if F.has_metadata_id(v) else None,
                       skip_metadata=OneOf(False, True) if case['skip_meta'] else False)
            if F.UNSET in wire and not F.carries_unset(v):
                must()
        s = serial(case['serial'])
        ps = PAGING_STATE[case['paging_state']]
        if not ps:                          # b'' is "no paging state": absent or an empty [bytes], never a must-reject
            ps = OneOf(None, b'') if ps is not None else None
        if v == 1:
            if s is not None or isinstance(ps, bytes):
                must()
            exp.update(page_size=None, paging_state=None, serial_consistency=None, timestamp=None,
                       page_size_in_bytes=False, continuous=None)
            fetch = None                    # Statement.fetch_size is documented to take effect from v2
        else:
            fetch = FETCH[case['fetch']]
            # fetch size 0 is "no paging": no page size or a page size of 0, the frame must be well formed either way
            exp.update(page_size=OneOf(None, 0) if fetch == 0 else fetch, paging_state=ps, serial_consistency=s,
                       timestamp=timestamp(case['ts']))
        cont = CONT[case['cont']]
        if cont is None:
            exp.update(continuous=None, page_size_in_bytes=False)
        elif not F.carries_continuous_paging(v):
            must()
        else:
            c = {'max_pages': cont[1], 'pages_per_second': cont[2]}
            if F.carries_next_pages(v):
                c['next_pages'] = cont[3]
            exp['continuous'] = c
            exp['page_size_in_bytes'] = bool(cont[0] == 'bytes' and fetch is not None)
            if cont[0] == 'bytes' and fetch == 0:
                exp['page_size_in_bytes'] = OneOf(False, True)      # the parser ties the flag to a page size being there
    elif kind == 'BATCH':
        if v == 1:
            must()
        qs = []
        for st in BATCHES[case['batch']]:
            if st[0] == 'prep':
                wire = VALUES[st[2]][1]
                if F.UNSET in wire and not F.carries_unset(v):
                    must()
                qs.append({'prepared': True, 'query_id': QID[st[1]], 'values': list(wire)})
            else:
                qs.append({'prepared': False, 'query': st[1], 'values': []})
        ks = keyspace(case['keyspace'])
        exp.update(batch_type=BATCH_TYPES[case['batch_type']], queries=qs, consistency=CL[case['cl']],
                   serial_consistency=serial(case['serial']) if v >= 3 else None,
                   timestamp=timestamp(case['ts']), now_in_seconds=None,
                   keyspace=ks if F.carries_keyspace(v) else None)
    elif kind == 'PREPARE':
        exp['query'] = QUERIES[case['query']]
        ks = KS[case['keyspace']]
        if F.carries_keyspace(v):
            exp['keyspace'] = keyspace(case['keyspace'])
        else:
            exp['keyspace'] = None
            if ks:
                must()
            elif ks == '':
                may()
    elif kind == 'STARTUP':
        o = {'DRIVER_NAME': 'drv', 'DRIVER_VERSION': '1.2.3', 'CQL_VERSION': CQLV[case['cqlv']]}
        o.update(STARTUP_OPTS[case['opts']])
        exp['options'] = o
    elif kind == 'OPTIONS':
        pass
    elif kind == 'AUTH_RESPONSE':
        t = AUTH_TOKENS[case['token']]
        exp['token'] = t.encode('utf-8') if isinstance(t, str) else t
    elif kind == 'CREDENTIALS':
        exp['credentials'] = CREDS[case['creds']]
        if v != 1:
            must()                          # the opcode was removed in v2
    elif kind == 'REGISTER':
        ev = REGISTERS[case['events']]
        exp['events'] = list(ev[1]) if isinstance(ev, tuple) else list(ev)
    elif kind == 'REVISE_REQUEST':
        t, n = REVISE[case['revise']]
        exp.update(revision_type=t, target_stream=OPIDS[case['opid']], next_pages=n if t == 2 else None)
    return reject, exp


# ------------------------------------------------------------------------------------------------
class Env(object):
    """Driver-side fixtures, built once per process."""
    _inst = None

    @classmethod
    def get(cls):
        if cls._inst is None:
            cls._inst = cls()
        return cls._inst

    def __init__(self):
        from vt.world import install
        install()
        import cassandra.cluster as cc
        import cassandra.query as cq
        import cassandra.protocol as cp
        from cassandra.cqltypes import BytesType
        from cassandra.encoder import Encoder
        self.cc, self.cq, self.cp = cc, cq, cp
        self.BytesType = BytesType

        class LB(object):
            def make_query_plan(self, keyspace, query):
                return iter(())

        class StubCluster(object):
            pass

        class StubSession(object):
            pass
        cl = StubCluster()
        cl._config_mode = cc._ConfigMode.PROFILES
        cl.allow_beta_protocol_version = False
        cl._default_load_balancing_policy = LB()
        cl.default_retry_policy = None
        s = StubSession()
        s.cluster = cl
        s.default_fetch_size = FETCH['default']
        s.encoder = Encoder()
        s.keyspace = None
        s._metrics = None
        s.row_factory = None
        s._maybe_get_execution_profile = lambda ep: ep
        self.cluster, self.session = cl, s
        self.create = cc.Session._create_response_future
        self.profiles = {}
        for ser in SERIAL:
            for co in CONT:
                c = CONT[co]
                cpo = None
                if c is not None:
                    unit = cc.ContinuousPagingOptions.PagingUnit.BYTES if c[0] == 'bytes' else cc.ContinuousPagingOptions.PagingUnit.ROWS
                    cpo = cc.ContinuousPagingOptions(page_unit=unit, max_pages=c[1], max_pages_per_second=c[2], max_queue_size=c[3])
                self.profiles[(ser, co)] = cc.ExecutionProfile(
                    load_balancing_policy=LB(), consistency_level=CL['default'],
                    serial_consistency_level=SERIAL[ser] if ser == 'profile' else None,
                    request_timeout=None, continuous_paging_options=cpo)
        self.encode = cp.ProtocolHandler.encode_message
        self.result_md = [('ks', 't', 'r', BytesType)]

    def pyvalues(self, sym):
        return tuple(self.cq.UNSET_VALUE if x == 'UNSET' else x for x in VALUES[sym][0])

    def prepared(self, v, qid, nvals, skip_meta=False):
        cols = [self.cp.ColumnMetadata('ks', 't', 'c%d' % i, self.BytesType) for i in range(nvals)]
        return self.cq.PreparedStatement(cols, QID[qid], None, 'PREPARED QUERY', None, v,
                                         self.result_md if skip_meta else None,
                                         b'\x11\x22' if F.has_metadata_id(v) else None)

    def message(self, kind, v, case):
        cp, cq, cc = self.cp, self.cq, self.cc
        if kind in SESSION_KINDS:
            s, cl = self.session, self.cluster
            s._protocol_version = v
            ts = TS[case['ts']]
            s.use_client_timestamp = ts is not None
            cl.timestamp_generator = lambda: ts
            cl.allow_beta_protocol_version = case['beta']
            stmt_serial = SERIAL[case['serial']] if case['serial'] in ('stmt', 'any') else None
            stmt_cl = CL[case['cl']] if case['cl'] != 'default' else None
            pstmt = PAYLOAD_STMT[case['payload_stmt']]
            pstmt = dict(pstmt) if pstmt is not None else None
            pexec = PAYLOAD_EXEC[case['payload_exec']]
            pexec = dict(pexec) if pexec is not None else None
            paging_state = None
            if kind == 'QUERY':
                kw = {}
                if case['fetch'] != 'default':
                    kw['fetch_size'] = FETCH[case['fetch']]
                query = cq.SimpleStatement(QUERIES[case['query']], consistency_level=stmt_cl,
                                           serial_consistency_level=stmt_serial, keyspace=KS[case['keyspace']],
                                           custom_payload=pstmt, **kw)
                profile = self.profiles[(case['serial'], case['cont'])]
                paging_state = PAGING_STATE[case['paging_state']]
            elif kind == 'EXECUTE':
                vals = self.pyvalues(case['values'])
                ps = self.prepared(v, case['qid'], len(vals), case['skip_meta'])
                kw = {}
                if case['fetch'] != 'default':
                    kw['fetch_size'] = FETCH[case['fetch']]
                query = cq.BoundStatement(ps, consistency_level=stmt_cl, serial_consistency_level=stmt_serial,
                                          custom_payload=pstmt, **kw).bind(vals)
                profile = self.profiles[(case['serial'], case['cont'])]
                paging_state = PAGING_STATE[case['paging_state']]
            else:
                bt = {0: cq.BatchType.LOGGED, 1: cq.BatchType.UNLOGGED, 2: cq.BatchType.COUNTER}[BATCH_TYPES[case['batch_type']]]
                query = cq.BatchStatement(batch_type=bt, consistency_level=stmt_cl, serial_consistency_level=stmt_serial,
                                          custom_payload=pstmt)
                for st in BATCHES[case['batch']]:
                    if st[0] == 'str':
                        query.add(st[1])
                    elif st[0] == 'simple':
                        query.add(cq.SimpleStatement(st[1]))
                    else:
                        vals = self.pyvalues(st[2])
                        query.add(self.prepared(v, st[1], len(vals)), vals)
                if KS[case['keyspace']] is not None:
                    query.keyspace = KS[case['keyspace']]
                profile = self.profiles[(case['serial'], 'none')]
            fut = self.create(self.session, query, None, case['tracing'], pexec, None, profile, paging_state, None)
            return fut.message
        if kind == 'PREPARE':
            return cp.PrepareMessage(query=QUERIES[case['query']], keyspace=KS[case['keyspace']])      # Session.prepare
        if kind == 'STARTUP':
            opts = {'DRIVER_NAME': 'drv', 'DRIVER_VERSION': '1.2.3'}                                      # Connection._send_startup_message
            opts.update(STARTUP_OPTS[case['opts']])
            return cp.StartupMessage(cqlversion=CQLV[case['cqlv']], options=opts)
        if kind == 'OPTIONS':
            return cp.OptionsMessage()
        if kind == 'AUTH_RESPONSE':
            return cp.AuthResponseMessage(AUTH_TOKENS[case['token']])
        if kind == 'CREDENTIALS':
            return cp.CredentialsMessage(creds=dict(CREDS[case['creds']]))
        if kind == 'REGISTER':
            ev = REGISTERS[case['events']]
            if isinstance(ev, tuple):
                ev = dict.fromkeys(ev[1]).keys()                                                          # Connection.register_watchers
            return cp.RegisterMessage(event_list=ev)
        if kind == 'REVISE_REQUEST':
            t, n = REVISE[case['revise']]
            if t == 2:
                return cp.ReviseRequestMessage(t, OPIDS[case['opid']], next_pages=n)
            return cp.ReviseRequestMessage(t, OPIDS[case['opid']])
        raise HarnessError(kind)

    def frame(self, kind, v, case):
        msg = self.message(kind, v, case)
        return self.encode(msg, case['stream'], v, compressor if case.get('compress') else None, case['beta'])


_SLUG = re.compile(r'[a-z]+')


def slug(text, n=4):
    return '-'.join(_SLUG.findall(re.sub(r'0x[0-9a-f]+|\d+', ' ', text.lower()))[:n])


def evaluate(env, kind, v, case):
    """Run one case.  Returns (outcome, problems, info); problems = [(clause, detail, what)]."""
    reject, exp = expect(kind, v, case)
    try:
        frame = env.frame(kind, v, case)
    except Exception as e:           # noqa: any refusal counts as "rejected"
        if reject == 'no':
            return 'raised', [('encode-raises', type(e).__name__, 'the driver raised %s: %s for a request the version can carry'
                               % (type(e).__name__, e))], None
        return 'rejected:' + type(e).__name__, [], None
    if reject == 'must':
        try:
            parsed = F.parse_request(frame, decompressor)
            desc = 'the frame parses as %r' % ({k: parsed.get(k) for k in exp if k in parsed},)
        except F.SpecError as e:
            desc = 'the frame is also malformed: %s' % e
        return 'silently-encoded', [('not-rejected', _which_uncarriable(kind, v, case),
                                     'a request the version cannot carry was encoded instead of rejected; ' + desc)], frame
    try:
        parsed = F.parse_request(frame, decompressor)
    except F.SpecError as e:
        return 'malformed', [('malformed', slug(str(e)), 'spec parser: %s; frame=%s' % (e, frame.hex()))], frame
    problems = []
    for k, want in exp.items():
        got = parsed.get(k, '<missing>')
        ok = got in want.options if isinstance(want, OneOf) else got == want
        if not ok:
            problems.append(('field', k, 'field %s: requested %r, frame carries %r' % (k, want, got)))
    return 'encoded', problems, frame


def uncarriable_axes(kind, v, case):
    """Axes whose value the version cannot carry (the reason a case must be rejected)."""
    out = []
    if _merged_payload(case) and not F.carries_payload(v):
        out += ['payload_exec', 'payload_stmt']
    if kind in ('QUERY', 'EXECUTE'):
        if v == 1 and case['serial'] not in ('none', 'any'):
            out.append('serial')
        if v == 1 and case['paging_state'] not in ('none', 'empty'):
            out.append('paging_state')
        if case['cont'] != 'none' and not F.carries_continuous_paging(v):
            out.append('cont')
    if kind == 'EXECUTE' and F.UNSET in VALUES[case['values']][1] and not F.carries_unset(v):
        out.append('values')
    if kind == 'BATCH':
        if v == 1:
            out.append('batch')
        if not F.carries_unset(v) and any(st[0] == 'prep' and F.UNSET in VALUES[st[2]][1] for st in BATCHES[case['batch']]):
            out.append('batch')
    if kind == 'PREPARE' and case['keyspace'] != 'none' and not F.carries_keyspace(v):
        out.append('keyspace')
    if kind == 'CREDENTIALS' and v != 1:
        out.append('creds')
    return out


def in_star(body, case, skip):
    """True iff the body axes other than `skip` are all default, all default but one, or all at their last value."""
    nd = 0
    all_last = True
    for k, vals in body.items():
        if k in skip:
            continue
        if case[k] != vals[0]:
            nd += 1
        if case[k] != vals[-1]:
            all_last = False
    return nd <= 1 or all_last


def _which_uncarriable(kind, v, case):
    if _merged_payload(case) and not F.carries_payload(v):
        return 'custom_payload'
    if kind in ('QUERY', 'EXECUTE'):
        if v == 1 and case['serial'] not in ('none', 'any'):
            return 'serial_consistency'
        if v == 1 and case['paging_state'] not in ('none', 'empty'):
            return 'paging_state'
        if case['cont'] != 'none' and not F.carries_continuous_paging(v):
            return 'continuous_paging'
    if kind == 'BATCH' and v == 1:
        return 'batch'
    if kind == 'PREPARE':
        return 'keyspace'
    if kind == 'CREDENTIALS':
        return 'opcode'
    return 'unset_value'


VFAMILY = {1: 'v1', 2: 'v2', 3: 'v3-4', 4: 'v3-4', 5: 'v5+', 6: 'v5+', 0x41: 'dse1', 0x42: 'dse2'}


_TRIGGERS = {}


def trigger(env, kind, v, case, clause, detail):
    """Narrow a failure to the single option whose reset to its default makes this failure
    disappear (first one in axis order); falls back to the version family.  Memoised on the set
    of non-default options so that mass failures stay cheap."""
    fr, body = axes(kind, v)
    allax = dict(fr)
    allax.update(body)
    key = (kind, v, clause, detail, tuple(k for k, vals in allax.items() if case[k] != vals[0]))
    if key not in _TRIGGERS:
        _TRIGGERS[key] = _trigger(env, kind, v, case, clause, detail, allax)
    return _TRIGGERS[key]


def _trigger(env, kind, v, case, clause, detail, allax):
    for k, vals in allax.items():
        if case[k] == vals[0]:
            continue
        c2 = dict(case)
        c2[k] = vals[0]
        if not requestable(kind, v, c2):
            continue
        _, probs, _ = evaluate(env, kind, v, c2)
        if not any(p[0] == clause and p[1] == detail for p in probs):
            return k
    return 'version=' + VFAMILY[v]


def present_fields(kind, case):
    """Coarse description of which optional things a case asks for (for outcomes / non-triviality)."""
    out = []
    for k, val in case.items():
        if k in ('stream', 'query', 'qid', 'cl', 'batch_type', 'cqlv', 'opid'):
            continue
        if val in (False, 'none', 'default', 'off', 'zero', 'plain', 'cancel'):
            if not (k in ('values', 'ts', 'fetch') and val == 'zero'):
                continue
        out.append(k)
    return out


def run_chunk(args):
    kind, v, tier, layer, idx, nslices = args
    env = Env.get()
    part = Part()
    seen_fp = set()
    mfr, mbody = main_axes(kind, v, tier)
    if layer == 'main':
        fr, body = mfr, mbody
        frames_ = frame_combos(fr, TIERS[tier][2])
    else:
        fr, body = axes(kind, v, 'full')
        frames_ = frame_combos(fr, TIERS[tier][3])
        main_frames = frame_combos(mfr, TIERS[tier][2])
    i = -1
    for b in body_cases(body):
        i += 1
        if i % nslices != idx:
            continue
        in_main_body = layer == 'edge' and all(b[k] in mbody[k] for k in b)
        for f in frames_:
            if in_main_body and f in main_frames:
                continue                    # the main layer runs this very case
            case = dict(f)
            case.update(b)
            if not requestable(kind, v, case):
                part.count('left_out_not_requestable')
                continue
            if tier == 'quick':
                bad = uncarriable_axes(kind, v, case)
                if bad and not in_star(body, case, bad):
                    part.count('quick_tier_skipped_rejections')
                    continue
            outcome, problems, frame = evaluate(env, kind, v, case)
            part.count('evaluations')
            part.count('evaluations_%s_layer' % layer)
            if any(case[k] in syms for k, syms in FALSY.items() if k in case):
                part.count('cases_with_a_falsy_but_present_option')
            pf = present_fields(kind, case)
            if pf or outcome != 'encoded':
                part.count('distinct_nontrivial')
            part.outcome('%s %s [%s]' % (kind, outcome, ','.join(sorted(set(pf) - set(FRAME_AXES)))))
            if outcome.startswith('rejected'):
                part.count('rejections_observed')
            elif frame is not None:
                part.count('frames_parsed')
            for clause, detail, what in problems:
                trig = trigger(env, kind, v, case, clause, detail)
                fp = 'C03/%s/%s/%s/%s' % (kind, clause, detail, trig)
                if fp in seen_fp:
                    part.count('violating_cases')
                    continue
                seen_fp.add(fp)
                part.violation(fp, '%s on protocol version %s with options %r: %s' % (kind, hex(v) if v > 6 else v, case, what),
                               {'kind': kind, 'version': v, 'case': case})
            if frame is not None and not problems and len(pf) >= 3:
                part.sample({'kind': kind, 'version': v, 'case': case, 'frame': frame.hex()}, limit=1)
    return part


def run(ctx):
    if not F.selftest():
        raise HarnessError('vt.spec.frames self-test failed')
    Env.get()            # import the driver once, before forking
    gc.freeze()          # keep the imported heap out of the workers' collections (no copy-on-write storms)
    items = []
    for kind in KINDS:
        for v in F.VERSIONS:
            for layer in ('main', 'edge'):
                body = main_axes(kind, v, ctx.tier)[1] if layer == 'main' else axes(kind, v, 'full')[1]
                n = 1
                for vals in body.values():
                    n *= len(vals)
                per = (400 if ctx.quick else 60) if layer == 'main' else (4000 if ctx.quick else 400)
                nslices = max(1, min(64, n // per))
                for idx in range(nslices):
                    items.append((kind, v, ctx.tier, layer, idx, nslices))
    items = ctx.rotate(items)
    # interleave heavy and light items so that the pool stays busy
    for part in ctx.pmap(run_chunk, items, chunksize=1):
        ctx.merge(part)
    ctx.cov['rule'] = ('cases = request kind x version {1,2,3,4,5,6,0x41,0x42} x full product of the body options '
                       '(query text {plain,utf8,""}, consistency {LOCAL_ONE,ANY=0,QUORUM}, serial CL {none, SERIAL on the statement, '
                       'ANY=0 on the statement, LOCAL_SERIAL from the profile}, fetch size {5000,None,1,0,2^31-1}, paging state '
                       '{None,b"",bytes}, client timestamp {off,1,0,2^63-1,-1}, keyspace {None,"ks",""}, continuous paging '
                       '{None,rows,bytes}, bound values {[],bytes,empty,null,unset,mixed}, batch shapes 0-2 statements) x frame '
                       'options (stream ids, tracing, payload via execute() {None,{},1,2 entries} x payload on the statement '
                       '{None,{},2 entries}, compressor, beta flag), in two layers: main = body alphabets "%s" x %s of the frame '
                       'alphabets "%s"; edge = complete body alphabets x %s of the complete frame alphabets, minus the cases of '
                       'the main layer (alphabet names as in checks/c03.py: core/lean/wide/full); counters evaluations_main_layer '
                       '/ evaluations_edge_layer / cases_with_a_falsy_but_present_option are measured; non-trivial = a case that '
                       'asks for at least one optional field or that was rejected' % (
                           TIERS[ctx.tier][0], {'star': 'a star (default, each value alone, all together)',
                                                'full': 'the full product'}[TIERS[ctx.tier][2]], TIERS[ctx.tier][1],
                           {'default': 'the default combination', 'star': 'a star'}[TIERS[ctx.tier][3]]))
    ctx.cov['exhaustive'] = True
    ctx.assume('QUERY/EXECUTE/BATCH messages are exactly those Session._create_response_future builds for a stub session '
               '(profiles mode); PREPARE as Session.prepare builds it (no tracing / payload); STARTUP, OPTIONS, AUTH_RESPONSE, '
               'CREDENTIALS, REGISTER, REVISE_REQUEST as cassandra/connection.py builds them')
    ctx.assume('Statement.keyspace on QUERY/BATCH is a routing hint (documented since 2.1.3); on versions without the keyspace '
               'field the session layer does not put it into the message, so no rejection is demanded there; PREPARE keyspace '
               'must be rejected on such versions')
    ctx.assume('keyspace "" may be sent as "" or treated as no keyspace, but the frame must be well formed either way')
    ctx.assume('fetch_size on v1 and client timestamps below v3 are documented as "no effect" and expected absent; '
               'fetch_size 0 / empty paging state / empty custom payload are "nothing requested": the field may be absent or '
               'carried as 0 / empty [bytes] / empty map (with continuous paging in bytes and fetch_size 0 the bytes flag follows '
               'the page size), never a flag without its field, and never a must-reject')
    ctx.assume('consistency ANY (0) is a level like any other and must be on the wire; serial consistency ANY (0) is not a '
               'serial level and no well-formed frame can carry it: the request may be refused (the statement constructor does) '
               'or sent without a serial consistency; a client timestamp of 0 is a timestamp and must be on the wire from v3 on')
    ctx.assume('a negative client timestamp may be refused (v3/v4 specs forbid it) or sent unchanged')
    ctx.assume('left out: serial consistency on a v2 BATCH (documented as v3+, v2 has no field for it; the driver drops it '
               'silently), BATCH with paging state / continuous paging options (not applicable), AUTH_RESPONSE on v1, '
               'REVISE_REQUEST outside the DSE dialects, back-pressure REVISE_REQUEST on DSE_V1')
    ctx.assume('skip_metadata is not in the statement\'s option list: a frame may or may not carry the flag when the prepared '
               'statement has result metadata, but must not carry it otherwise (observed: the driver never sets it)')
    ctx.assume('DSE_V1/DSE_V2 request layouts as in DataStax\'s public protocol notes: [int] query flags, continuous paging '
               'options <max_pages><pages_per_second>[<next_pages> on DSE_V2] after the keyspace, 0x40000000 = page size in bytes; '
               'DSE_V2 next_pages is ContinuousPagingOptions.max_queue_size')
    ctx.assume('the USE_BETA frame flag bit is "unused and ignored" below v5 and therefore legal on every version')


def replay(ctx, data):
    env = Env.get()
    kind, v, case = data['kind'], data['version'], data['case']
    outcome, problems, frame = evaluate(env, kind, v, case)
    print('outcome:', outcome, 'frame:', frame.hex() if frame is not None else None)
    for clause, detail, what in problems:
        print('C03/%s/%s/%s ::' % (kind, clause, detail), what)
    return bool(problems)
