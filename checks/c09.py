"""C09 Multiplexed requests never receive another request's response.

Two layers on the real Cluster/Session/HostConnection/Connection/ResponseFuture code, one host,
scaled-down stream-id space (see vt/c09lib.py):

 E  breadth-first search over histories of {send the next tagged request (a query, or an EXECUTE of a prepared
    statement), switch the session's keyspace (USE, which makes the driver multiplex its own USE on every pooled
    connection), the server answers any unanswered request (also one whose client already timed out; an EXECUTE
    also with UNPREPARED, which makes the driver send a PREPARE and then the EXECUTE again, each step from an
    executor task), the client timeout of any request fires, the connection fails, the socket of a connection
    stops / starts being writable (send_msg refuses with ConnectionBusy), a caller issues a blocking request through
    Connection.wait_for_response with a client-side timeout on the pooled connection (answered in time, or the timed wait
    expires in virtual time and the answer is late like any other), the next executor task runs (connection
    replacement, retry, re-prepare steps)}, with canonical-state dedup; every clause of the property is judged in
    every state.
 S  all schedules (preemption-bounded, line-granular in the focus functions) of client threads
    calling execute_async and a reactor thread that delivers the held answers and fires client
    timeouts in explorer-chosen order; the same oracle at the end of each schedule, the wire
    clauses at every arrival.
"""
from vt import explore, sched
from vt import c09lib   # noqa: F401  imported here so that forked workers inherit the loaded driver
from vt.c09lib import W9, judge, flags_key
from vt.core import Part, HarnessError

KS = ['ks1', 'ks2']
NONTRIVIAL = set(['reuse', 'orphan', 'use-switched', 'use-noop', 'reprepare-sent', 'send-refused', 'block-timed-out'])

import cassandra.connection as _conn
import cassandra.pool as _pool
import cassandra.cluster as _cluster

META = {
    'level': 'model_checking',
    'engine': 'E+S',
    'technique': 'explicit-state BFS over send/keyspace-switch/answer/UNPREPARED-answer/timeout/late-answer/failure/socket-not-writable/'
                 'blocking-request(answered|timed out)/'
                 'executor-task histories with canonical-state dedup, plus '
                 'preemption-bounded line-granular schedule enumeration of client threads against the reactor thread, on the real '
                 'Session, HostConnection, Connection and ResponseFuture',
    'text': 'One host, connections with a scaled-down stream-id space (3-4 ids, 2 free after the handshake, orphan threshold 2; also protocol '
            'v2 with the legacy pool: 2 connections x 2 ids) so that exhaustion, growth of highest_request_id, reuse, orphaning and connection '
            'replacement occur within 3-5 requests.  Every answer carries the tag of the request the server received on that stream. '
            'E: all histories up to the depth bound of send / answer any unanswered request in any order (rows, or overloaded + retry on the '
            'same host) / client timeout of any request / late answer to a timed-out request / connection failure / next executor task; '
            'in the keyspace configurations also session-wide keyspace switches (the application executes USE ks1 / USE ks2 in any order '
            'and repetition: first switch, repeated switch to the keyspace already selected, switch back; session connected with or without '
            'a keyspace; HostConnection and the legacy pool), where the application USE and the USE that Connection.set_keyspace_async '
            'multiplexes on the pooled connection are held and answered (or timed out, or lost with the connection) like any other request, '
            'and a replacement connection is opened with set_keyspace_blocking (wait_for_response).  In the prepared-statement '
            'configurations every request is an EXECUTE of its own prepared statement (prepared through Session.prepare) and the node '
            'may answer an EXECUTE with UNPREPARED (once or twice per history): the re-prepare chain - _reprepare queued on the executor, '
            'PREPARE sent on a connection borrowed anew, PREPARE answered, _execute_after_prepare queued on the executor, EXECUTE sent '
            'again - is cut into its separate events and interleaved with the sends, answers, client timeouts (before the PREPARE is '
            'sent, while it is outstanding, after its answer but before the continuation runs) and a connection failure; on one v4 '
            'connection (4 and 3 ids), on the protocol-v2 pool of two connections (3 requests, so that the PREPARE is borrowed on another '
            'connection than the EXECUTE was sent on) and on a v4 pool whose connection has just been replaced while three EXECUTEs '
            'are outstanding on the old one (prologue of 8 events, then every history of the depth bound).  In the not-writable '
            'configurations the socket of a pooled connection stops being writable once per history at any point and becomes writable '
            'again at any later point (Connection._socket_writable, the flag the libev reactor clears on EAGAIN): every request sent '
            'meanwhile - first send, PREPARE or second EXECUTE of a re-prepare - is refused by send_msg with ConnectionBusy after the '
            'pool handed out a slot and a stream id (v4 one connection, v2 two connections, v4 with a re-prepare). '
            'In the blocking-request configurations a caller other than the event loop sends a tagged query through '
            'Connection.wait_for_response(timeout=1 s) on a pooled connection in service (the call the control connection, '
            'set_keyspace_blocking and register_watcher are built on), once or twice per history at any point: either the node answers '
            'while the caller waits (the caller must get the tag of its own request) or the timed wait expires in virtual time '
            '(OperationTimedOut) and the request stays unanswered on the wire, to be answered late - or never - at any later point while '
            'up to three ordinary requests are sent, answered, timed out and take the ids the FIFO free list offers (ids 0..2 with two '
            'blocking requests; ids 0..3 with one connection failure; protocol-v2 pool of two connections with ids 0..1). '
            'S: 2 client threads x 1-2 execute_async (or one thread switching the keyspace, on a session with no keyspace / already on that '
            'keyspace / with no recycled id free), on top of a prologue that leaves a request outstanding or orphaned, against a reactor '
            'thread that delivers answers, fires one client timeout (thorough: and one connection failure) in every order; every schedule '
            'within the preemption bound, scheduling points at lock operations and at every line of Connection.get_request_id/send_msg/'
            'process_msg/set_keyspace_async, HostConnection.borrow_connection/return_connection, ResponseFuture._query/_on_timeout/_set_result. '
            'Oracle: no request (USE and PREPARE included) arrives at the server on a stream on which another is still unanswered; no stream '
            'id beyond the maximum; a callback only ever receives the tag of its own request, once (a PREPARE is answered with the id of the '
            'statement text that arrived on that stream); on every open connection of the pool in_flight equals the number of unanswered '
            'requests (plus the answered PREPAREs taken off that connection whose handler still waits on the executor); the free list '
            'never holds an id twice or an id in use; whenever everything sent on an open connection is answered: in_flight 0, no orphans, '
            'every id 0..highest free exactly once - a request that was refused at the send and never reached the wire holds neither an id '
            'nor a slot.',
    'note': 'Handlers are atomic in layer E.  In layer S client timeouts run on the reactor thread, as in every shipped reactor '
            '(timers and reads are served by the same event-loop thread).  The id space is scaled down through the documented class '
            'attributes max_in_flight / orphaned_threshold and by shrinking the initial free list (300 in the driver).',
    'design_ref': 'C09',
}


# ============================================================================================ layer E
def input_class(st):
    """Fingerprint suffix: the families of events the history contains beyond send/answer/timeout/failure (so that a defect of the
    re-prepare chain or of a refused send does not share its fingerprints with one of the plain request path)."""
    cls = ''
    if 'unprepared' in st.flags:
        cls += '/re-prepare'
        if len(st.pool_conns()) > 1:
            cls += '/several-connections'       # a pool of two connections, or a connection that has been replaced
    if 'unwritable' in st.flags:
        cls += '/socket-not-writable'
    if st.blocks:
        cls += '/blocking-request'
    return cls


class H(explore.Harness):
    name = 'c09'

    def init(self):
        return W9(self.params)

    def events(self, st):
        return st.enabled()

    def apply(self, st, ev):
        st.apply(ev)

    def canon(self, st):
        return st.canon()

    def check(self, st, part, hist):
        judge(st, part, {'layer': 'E', 'params': self.params, 'history': hist}, 'E' + input_class(st))
        fk = flags_key(st)
        part.outcome(fk)
        for fl in fk:
            part.count('E_transitions_with_' + fl)
        if st.stuck:
            part.count('E_histories_cut_handler_never_returns')
        if st.flags & NONTRIVIAL:
            part.mark_nontrivial(repr(st.canon()))
        if 'reuse' in st.flags and 'late' in st.flags:
            part.sample({'layer': 'E', 'history': hist, 'arrivals (conn, stream, tag)': st.arrivals, 'flags': list(fk)}, limit=1)
        if 're-executed' in st.flags and 'timeout-task-queued' in st.flags:
            part.sample({'layer': 'E', 're-prepare': True, 'history': hist, 'arrivals (conn, stream, tag)': st.arrivals,
                         'flags': list(fk)}, limit=1)
        if 'send-refused' in st.flags and 'reprepare-sent' in st.flags:
            part.sample({'layer': 'E', 'socket not writable': True, 'history': hist, 'arrivals (conn, stream, tag)': st.arrivals,
                         'flags': list(fk)}, limit=1)
        if 'block-late' in st.flags and 'reuse' in st.flags and 'block-answered' in st.flags:
            part.sample({'layer': 'E', 'blocking requests': st.blocks, 'history': hist, 'arrivals (conn, stream, tag)': st.arrivals,
                         'flags': list(fk)}, limit=1)
        if 'use-noop' in st.flags and 'use-switched' in st.flags and 'reuse' in st.flags:
            part.sample({'layer': 'E', 'keyspace switches': True, 'history': hist, 'arrivals (conn, stream, tag)': st.arrivals,
                         'flags': list(fk)}, limit=1)


def _only(name):
    """developer aid: C09_ONLY=<substring>,... restricts the run to the matching configurations (the run is then marked capped)"""
    import os
    only = [x for x in os.environ.get('C09_ONLY', '').split(',') if x]
    return not only or any(x in name for x in only)


def e_configs(ctx):
    base = dict(protocol_version=4, max_in_flight=4, orphaned_threshold=2, timeout=100.0)
    cfgs = [
        # name, params, depth quick / thorough
        # ids 0..3, two free after the handshake, the others minted on demand; at most 3 in flight
        ('v4-grow', dict(base, initial_ids=2, n_req=5, max_faults=0), 8, 12),
        # ids 0..2, at most 2 in flight: exhaustion and reuse from the third request on; one connection failure
        ('v4-3ids-fault', dict(base, max_in_flight=3, initial_ids=1, n_req=5, max_faults=1), 8, 10),
        # all four ids free from the start (the driver's own initial state when max_in_flight <= 300); one failure
        ('v4-full-fault', dict(base, initial_ids=None, n_req=4, max_faults=1), 8, 10),
        # the server may also answer 'overloaded' and the retry policy re-sends on the same host (a second way ids are recycled)
        ('v4-retry', dict(base, max_in_flight=3, initial_ids=1, n_req=4, max_faults=0, retry_kind=True), 7, 9),
        # protocol v2: HostConnectionPool with two connections of ids 0..1, one request in flight each
        ('v2-pool', dict(base, protocol_version=2, max_in_flight=1, n_req=5, max_faults=0), 8, 10),
        # keyspace switches multiplexed with the requests (ids 0..2): USE ks1 / USE ks2 in any order and repetition (first switch,
        # repeated switch to the keyspace the connection is on, switch back)
        ('v4-use', dict(base, max_in_flight=3, initial_ids=1, n_req=1, n_use=3, keyspaces=KS, max_faults=0), 7, 9),
        # the session was connected with ks1 (the pool opened its connection with set_keyspace_blocking); one connection failure:
        # the replacement is opened with the pool's current keyspace
        ('v4-use-connected-fault', dict(base, max_in_flight=3, initial_ids=1, n_req=1, n_use=2, keyspaces=KS, keyspace='ks1', max_faults=1), 6, 8),
        # legacy pool: every connection of the pool is switched
        # (ids 0..3 per connection: a switch never finds a connection at full capacity, see the assumptions)
        ('v2-use', dict(base, protocol_version=2, max_in_flight=3, n_req=1, n_use=2, keyspaces=KS, max_faults=0), 6, 8),
        # ---- prepared statements: the node answers an EXECUTE with UNPREPARED; the driver sends a PREPARE from an executor task,
        # hands the PREPARE's answer to another executor task, and that one sends the EXECUTE again
        # (send / answer / UNPREPARED / timeout / executor task in any order; ids 0..3)
        ('v4-prep', dict(base, prepared=True, n_req=2, max_unprepared=2, max_faults=0), 8, 10),
        # ids 0..2 (reuse at once) and one connection failure at any point of the chain
        ('v4-prep-fault', dict(base, max_in_flight=3, initial_ids=1, prepared=True, n_req=2, max_unprepared=1, max_faults=1), 7, 9),
        # legacy pool with two connections (3 ids each): the PREPARE goes out on the least busy connection of the pool
        ('v2-pool-prep', dict(base, protocol_version=2, max_in_flight=2, prepared=True, n_req=3, max_unprepared=1, max_faults=0), 8, 10),
        # the connection was replaced (orphan threshold) while an EXECUTE is outstanding on the old one
        # (ids 0..5; two requests timed out, which makes the next borrow replace the connection; three more are outstanding on the old one)
        ('v4-prep-replaced', dict(base, max_in_flight=6, prepared=True, n_req=5, max_unprepared=1, max_faults=0,
                                  prologue=[('send',), ('send',), ('timeout', 0), ('timeout', 1), ('send',), ('send',), ('send',), ('task',)]), 4, 6),
        # ---- the socket of a connection is not writable for a while (send buffer full): send_msg refuses the request with
        # ConnectionBusy after the pool has handed out a slot and a stream id
        ('v4-unwritable', dict(base, max_in_flight=3, initial_ids=1, n_req=3, max_unwritable=1, max_faults=0), 6, 8),
        ('v2-pool-unwritable', dict(base, protocol_version=2, max_in_flight=1, n_req=3, max_unwritable=1, max_faults=0), 6, 8),
        # ... at the sends of the re-prepare chain (PREPARE, second EXECUTE)
        ('v4-prep-unwritable', dict(base, prepared=True, n_req=1, max_unprepared=1, max_unwritable=1, max_faults=0), 7, 9),
        # ---- blocking requests: a caller sends through Connection.wait_for_response with a client-side timeout on the pooled
        # connection; the node answers in time, or the timed wait expires and the answer comes late (or never) while further
        # requests take the ids the FIFO free list offers (ids 0..2: the list comes round after three allocations)
        ('v4-block', dict(base, max_in_flight=3, initial_ids=1, n_req=3, n_block=2, max_faults=0), 7, 9),
        # ids 0..3, two free after the handshake, one connection failure
        ('v4-block-grow-fault', dict(base, initial_ids=2, n_req=3, n_block=1, max_faults=1), 7, 9),
        # legacy pool, two connections of ids 0..1
        ('v2-pool-block', dict(base, protocol_version=2, max_in_flight=1, n_req=3, n_block=1, max_faults=0), 7, 9),
    ]
    return [(n, p, dt if ctx.thorough else dq) for n, p, dq, dt in cfgs if _only(n)]


def run_e(ctx):
    for name, params, depth in e_configs(ctx):
        explore.bfs(ctx, H, params, max_depth=depth, label='c09-E-' + name, max_states=600000 if ctx.thorough else 80000)


# ============================================================================================ layer S
def _code(f):
    return getattr(f, '__wrapped__', f).__code__


FOCUS = [_code(_conn.Connection.get_request_id), _code(_conn.Connection.send_msg), _code(_conn.Connection.process_msg),
         _code(_pool.HostConnection.borrow_connection), _code(_pool.HostConnection.return_connection),
         _code(_cluster.ResponseFuture._query), _code(_cluster.ResponseFuture._on_timeout),
         _code(_cluster.ResponseFuture._set_result), _code(_conn.Connection.set_keyspace_async)]


@sched.gc_quiet
def s_harness(params, prefix, part):
    """params: the W9 parameters + clients (requests per client thread) + timeouts (client timeouts the reactor may fire)"""
    st = W9(params)
    try:
        w = st.w
        for ev in params.get('setup', ()):      # single-threaded prologue: requests already outstanding / orphaned
            st.apply(tuple(ev))
        s = sched.Scheduler(prefix, focus=FOCUS, horizon=30000, clock=w.clock)
        plan = params['clients']
        done = [0]
        slow = list(st.pending())

        def client(ci, ops):
            # ops: a number of ordinary requests, or a list of 'send' / 'use<k>' (session-wide switch to keyspace k)
            ops = ['send'] * ops if isinstance(ops, int) else list(ops)

            def body():
                try:
                    for k, op in enumerate(ops):
                        if op == 'send':
                            st.send(c09lib.TAG0 + 10 * (ci + 1) + k)
                        else:
                            st.send_use(int(op[3:]))
                finally:
                    done[0] += 1
            return body

        def reactor():
            # the event-loop thread: reads answers off the sockets and serves the timers, one at a time
            fired = []
            while True:
                pend = st.pending()
                clients_done = done[0] == len(plan)
                if clients_done and not pend:
                    break
                if params.get('slow_setup') and not clients_done:
                    # the requests of the prologue are slow queries: answered once the clients are through
                    pend = [q for q in pend if q not in slow]
                tmo = [f for f, t in st.timeout_timers() if f in fired or len(fired) < params.get('timeouts', 1)]
                opts = [('respond', p) for p in pend] + [('timeout', f) for f in tmo]
                if not clients_done and not opts:
                    opts.append(('idle', None))
                if st.faults < params.get('max_faults', 0):
                    opts += [('fail', c) for c in st.pool_conns() if not (c.is_closed or c.is_defunct)]
                kind, x = opts[s.choose(len(opts), 'reactor')]
                if kind == 'respond':
                    st.answer(x)
                elif kind == 'timeout':
                    if x not in fired:
                        fired.append(x)
                    st.fire_timeout(x)
                elif kind == 'fail':
                    st.fail_connection(x)       # the reactor notices the broken socket
                else:
                    mark = (len(st.arrivals), done[0])
                    s.block(lambda: (len(st.arrivals), done[0]) != mark, None, 'reactor idle (nothing readable, no timer due)')

        # the event loop is up before any client calls execute_async: the reactor thread starts first and goes
        # idle; the clients count as blocked until then (so that the start order is not a choice of the tree)
        up = []
        s.spawn(lambda: (up.append(1), reactor()), 'reactor')
        for ci, n in enumerate(plan):
            s.spawn(client(ci, n), 'client%d' % ci).waiting = lambda: bool(up)
        s.run()
        data = {'layer': 'S', 'params': params, 'prefix': s.choices()}
        if s.failure:
            raise HarnessError('C09 layer S: schedule %r of %r did not complete: %r' % (s.choices(), params, s.failure))
        for t in s.threads:
            if t.exc is not None:
                raise HarnessError('C09 layer S: %r raised %r in schedule %r of %r\n%s'
                                   % (t, t.exc, s.choices(), params, getattr(t, 'exc_tb', '')))
        if w.tasks:
            w.settle()          # a connection replacement submitted during the schedule (orphan threshold reached)
            st.normalize()
            for p in st.pending():
                st.answer(p)
        st.normalize()
        judge(st, part, data, 'S')
        fk = flags_key(st)
        preempted = any(p.chosen for p in s.trace if not p.kind.startswith('data'))
        part.outcome((fk, 'switched' if preempted else 'serial'))
        for fl in fk:
            part.count('S_executions_with_' + fl)
        if preempted:
            part.count('S_executions_preempted')
        if st.flags & NONTRIVIAL:
            part.mark_nontrivial(repr((params['clients'], params.get('initial_ids'), params.get('setup'), s.choices())))
        if 'reuse' in st.flags and 'orphan' in st.flags and preempted:
            ch = s.choices()
            part.sample({'layer': 'S', 'clients': plan, 'setup': params.get('setup', []), 'choice_points': len(ch),
                         'non_default_choices (index, value)': [(i, c) for i, c in enumerate(ch) if c],
                         'arrivals (conn, stream, tag)': st.arrivals, 'flags': list(fk)}, limit=1)
        return s
    finally:
        st.close()


def s_configs(ctx):
    # ids 0..2, at most 2 in flight, ids 0 and 1 free after the handshake
    base = dict(protocol_version=4, orphaned_threshold=2, timeout=100.0, timeouts=1, max_in_flight=3, initial_ids=1)
    cfgs = [
        # name, params, preemption bound quick / thorough (None = not run in that tier)
        # one request already timed out (orphaned stream) before two clients send one request each
        ('preorphan-1+1', dict(base, setup=[('send',), ('timeout', 0)], clients=[1, 1]), 1, 2),
        # one request outstanding before two clients send one request each
        ('pre1-1+1', dict(base, setup=[('send',)], clients=[1, 1]), None, 1),
        # the same with one connection failure noticed by the reactor at any point
        ('preorphan-1+1-fault', dict(base, setup=[('send',), ('timeout', 0)], clients=[1, 1], max_faults=1), None, 1),
        # nothing outstanding; one client sends two requests, the other one
        ('2+1', dict(base, clients=[2, 1]), None, 1),
        # ids 0..3: one outstanding, one orphaned, highest_request_id grows under the two clients
        ('4ids-pre2-1+1', dict(base, max_in_flight=4, setup=[('send',), ('send',), ('timeout', 1)], clients=[1, 1]), None, 1),
        # a client switches the session to ks1 (the reactor thread then switches the connection with a multiplexed USE) while
        # another client sends a request
        ('use+1', dict(base, keyspaces=KS, n_use=9, clients=[['use0'], 1]), None, 1),
        # ids 0..3, one request outstanding, no recycled id free: the id of the multiplexed USE and that of the client are both minted
        ('4ids-pre1-use+1', dict(base, max_in_flight=4, keyspaces=KS, n_use=9, setup=[('send',)], slow_setup=True, timeouts=0, clients=[['use0'], 1]), 1, 1),
        # the session is already on ks1: the switch finds the connection on the requested keyspace
        ('onks1-use+1', dict(base, keyspaces=KS, n_use=9, setup=[('use', 0), ('respond', 0), ('respond', 0)], clients=[['use0'], 1]), 1, 1),
    ]
    return [(n, p, bt if ctx.thorough else bq) for n, p, bq, bt in cfgs if (bt if ctx.thorough else bq) is not None and _only(n)]


def run_s(ctx):
    import gc
    gc.freeze()     # the loaded driver stays out of the per-execution collections of the forked workers
    for name, params, bound in s_configs(ctx):
        sched.explore(ctx, 'c09-S-' + name, s_harness, params, bound, max_executions=800000)


def _layer(ctx, name, fn):
    import time
    before, t0 = dict(ctx.counters), time.time()
    fn(ctx)
    d = dict((k, v - before.get(k, 0)) for k, v in ctx.counters.items() if v != before.get(k, 0))
    ctx.cov.setdefault('layers', {})[name] = {
        'executions': d.get('executions', 0), 'states': d.get('states', 0), 'transitions_or_steps': d.get('transitions', 0),
        'with_stream_id_reuse': d.get(name + '_transitions_with_reuse', d.get(name + '_executions_with_reuse', 0)),
        'with_orphaned_request': d.get(name + '_transitions_with_orphan', d.get(name + '_executions_with_orphan', 0)),
        'with_late_answer_to_orphan': d.get(name + '_transitions_with_late', d.get(name + '_executions_with_late', 0)),
        'with_connection_switched_by_multiplexed_USE': d.get(name + '_transitions_with_use-switched', d.get(name + '_executions_with_use-switched', 0)),
        'with_switch_to_keyspace_already_selected': d.get(name + '_transitions_with_use-noop', d.get(name + '_executions_with_use-noop', 0)),
        'with_PREPARE_sent_after_UNPREPARED': d.get(name + '_transitions_with_reprepare-sent', 0),
        'with_EXECUTE_sent_again_after_re-prepare': d.get(name + '_transitions_with_re-executed', 0),
        'with_client_timeout_while_PREPARE_outstanding': d.get(name + '_transitions_with_timeout-prepare-outstanding', 0),
        'with_client_timeout_while_retry_or_re-prepare_step_queued': d.get(name + '_transitions_with_timeout-task-queued', 0),
        'with_send_refused_socket_not_writable': d.get(name + '_transitions_with_send-refused', 0),
        'with_blocking_request_timed_out': d.get(name + '_transitions_with_block-timed-out', 0),
        'with_late_answer_to_timed_out_blocking_request': d.get(name + '_transitions_with_block-late', 0),
        'with_blocking_request_answered_in_time': d.get(name + '_transitions_with_block-answered', 0),
        'wall_s': round(time.time() - t0, 1)}


def run(ctx):
    import os
    if os.environ.get('C09_ONLY'):
        ctx.cap('C09_ONLY=%s: only the matching configurations were run' % os.environ['C09_ONLY'])
    _layer(ctx, 'E', run_e)
    del ctx.samples[6:]         # leave room for a written-out schedule of layer S
    _layer(ctx, 'S', run_s)
    ctx.count('states', ctx.cov['layers']['S']['executions'])     # layer S is stateless: one state per execution
    ctx.cov['rule'] = ('E: state = event history replayed on a fresh real Session; S: execution = one schedule (choice list) on a fresh real '
                       'Session.  Non-trivial = distinct canonical state (E) / distinct schedule (S) in which a stream id was really used a second '
                       'time on a connection or a request was really orphaned by its client timeout.  Outcomes = the set of things that happened '
                       '(reuse, orphan, late answer to an orphan, growth of highest_request_id, exhaustion, orphan threshold, replacement, '
                       'connection failure, busy-wait in borrow_connection, use-sent/use-switched = a keyspace switch made the driver send its own '
                       'USE on the pooled connection / that USE was answered, use-noop = a switch found the connection already on the keyspace, '
                       'unprepared = an EXECUTE was answered UNPREPARED, reprepare-sent / reprepared = the PREPARE arrived at the node / was '
                       'answered on a live connection, re-executed = the EXECUTE arrived a second time, timeout-prepare-outstanding / '
                       'timeout-task-queued = a client timeout fired while the PREPARE was unanswered / while a retry or re-prepare step of that '
                       'request was queued on the executor, unwritable = the socket of a connection stopped being writable, send-refused = a '
                       'request was refused with ConnectionBusy, block-answered / block-timed-out / block-no-slot = a blocking request '
                       '(Connection.wait_for_response) was answered in time / hit its client-side timeout after it was sent / found no '
                       'free id for the whole of its timeout, block-late = the answer to a timed-out blocking request arrived on a live connection), '
                       'for S also whether the schedule switched threads mid-way.  Non-trivial also counts states/schedules with a keyspace switch '
                       'that reached the pooled connection, states in which a re-prepare really sent its PREPARE, states in which a send was '
                       'really refused and states in which a blocking request really timed out with its request on the wire')
    ctx.cov['preemption_bound'] = dict((n, b) for n, _, b in s_configs(ctx))
    ctx.cov['depth_bound'] = dict((n, d) for n, _, d in e_configs(ctx))
    ctx.assume('engine E: handlers are atomic with respect to each other (single-threaded histories)')
    ctx.assume('engine S: client timeouts are served by the reactor thread (as in the asyncore, libev, twisted, asyncio, gevent and eventlet '
               'reactors), never concurrently with process_msg; preemption at source-line granularity inside the focus functions and at lock operations')
    ctx.assume('virtual server answers are well-formed frames of the negotiated protocol version')
    ctx.assume('keyspace switches: a USE on a connection in service is held and answered by the explorer; a USE on a connection that is still '
               'being opened (pool creation, replacement: set_keyspace_blocking) is answered at once, the opener blocks on it.  The '
               'configurations are sized so that a switch never finds a connection at full capacity: Connection.set_keyspace_async '
               'busy-waits for a free slot on the event-loop thread.  A history in which a handler cannot return (that busy-wait, or a thread '
               'asking for a non-reentrant lock it holds) ends there, is not judged, and is counted in E_histories_cut_handler_never_returns '
               '(0 on a tree without the re-prepare defect C09-reprepare-returns-wrong-connection; with it a trashed connection is closed '
               'under the pool lock while a request is outstanding on it, whose error callback asks for that lock again)')
    ctx.assume('re-prepare: the node answers a PREPARE with the id of the statement (the id the application prepared it under); an UNPREPARED '
               'answer names the id of the EXECUTE it answers.  An answered PREPARE whose handler (ResponseFuture._execute_after_prepare) the '
               'driver queued on the executor keeps its slot until that task has run: such a connection is not "everything answered" yet')
    ctx.assume('socket not writable: Connection._socket_writable is cleared and set by the explorer (in the driver only the libev reactor does '
               'that, on EAGAIN / when the socket drains); while it is cleared nothing the driver had already accepted is lost')
    ctx.assume('blocking requests: the caller of Connection.wait_for_response is a thread other than the event loop; in engine E the send, '
               'the wait and its outcome (answer within the timeout, or expiry of the timed wait) are one atomic event, and the virtual clock '
               'moves on by the timeout when the wait expires.  The blocking request is issued directly on the pooled connection (not through '
               'ControlConnection or the pool constructor), with the same id space as every other request of that connection')
    ctx.assume('the id space is scaled down (max_in_flight 3-4, initial free list 1-2 ids, orphaned_threshold 2); the code paths are the same as for 32768 ids')


def replay(ctx, data):
    if data.get('layer') == 'S':
        part = Part()
        s_harness(data['params'], data['prefix'], part)
    else:
        try:
            part = explore.replay(H, data['params'], [tuple(e) for e in data['history']])
        except c09lib.NotEnabled as e:
            print('the recorded history cannot happen on this tree: %s' % e)
            return False
    for fp, what, _ in part.violations:
        print(fp, '::', what)
    return bool(part.violations)
