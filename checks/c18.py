"""C18 Paged results yield every row exactly once, in order.

Every page-size sequence (sizes 0-2, up to 4/5 pages, empty pages anywhere) x access pattern x
row factory x protocol version is run through a real Session and ResultSet against a virtual
node that pages by the paging state it is given.  A fault layer makes the request for a later page
fail (error rethrown, all hosts failing, client timeout, error ignored, transparent retry) under an
application that catches the error and keeps reading: still every row once, in order, and every
request carries the state returned with the last page received.
"""
import itertools

from vt.world.vworld import World, VServer, HostSpec
from vt.world import wire
from vt.core import Part

META = {
    'level': 'model_checking',
    'engine': 'E',
    'technique': 'exhaustive enumeration of page-size sequences x access patterns on the real ResultSet/ResponseFuture against a paging virtual node',
    'text': 'All page-size sequences over {0,1,2} rows of length 1..4 (quick) / 1..5 (thorough), crossed with the access patterns '
            '{for-loop, list(), all(), next() by hand, index/equality (list mode), manual fetch_next_page+current_rows, one() then '
            'iterate, iterate-some-then-fetch, callbacks with start_fetching_next_page}, row factories and protocol versions: rows '
            'delivered must be the concatenation of the pages, every request must carry the paging state returned with the previous '
            'page (first one none), exactly one request per page and none after the page without paging state.  Fault layer: page-size '
            'sequences of length 2..4 (quick) / 2..5 (thorough) x one fault on any page after the first (two faults, on the same or on '
            'different pages, for length <= 3 (quick) / <= 4 (thorough)) x fault kind {READ_TIMEOUT that the retry policy rethrows, '
            'every host of the plan failing (NoHostAvailable), node silent until the client timeout fires, READ_TIMEOUT that the retry '
            'policy ignores (an empty result for that fetch), READ_TIMEOUT retried on the same host (transparent)} x an application that '
            'catches the error and keeps reading {next() on the same iterator, fetch_next_page() in a has_more_pages loop, errback that '
            'calls start_fetching_next_page again}: the rows read must still be the concatenation of all pages, and every request -- '
            'the repeated one included -- must carry the paging state returned with the last page that was received.',
    'note': 'The virtual node derives the page from the paging state it receives, so a wrong or stale state yields visibly wrong rows.  '
            'Faults hit page requests after the first only (a failed first page is a failed execute(), not paging); a request that timed '
            'out on the client is never answered late; restarting iteration with a new for-loop/list() after an error is not exercised '
            '(it replays the current page by design).',
    'design_ref': 'C18',
}

PATTERNS = ['for', 'list', 'all', 'next', 'index', 'eq', 'manual', 'one_then_for', 'some_then_fetch', 'callbacks']
# applications that catch the error of a failed page fetch and keep reading
RESILIENT = ['next_resume', 'manual_retry', 'callbacks_retry']
# what can happen to the request for a page (after the first); the second field says whether the caller sees an error
FAULTS = {'rethrow': 'ReadTimeout', 'nohost': 'NoHostAvailable', 'timeout': 'OperationTimedOut', 'ignore': None, 'retry': None}
FAULT_KINDS = ['rethrow', 'nohost', 'timeout', 'ignore', 'retry']
MAX_ERRORS = 6       # a reader that keeps getting errors gives up (never reached when the property holds)


class PagingServer(object):
    """Pages by the paging state it is given.  faults: ((page, kind), ...) -- the i-th fault listed for a page hits the
    i-th request for that page; afterwards the page is served."""
    def __init__(self, sizes, faults=(), policy=None):
        self.sizes = sizes
        self.requests = []       # paging state of every application request
        self.pages = []
        self.faults = {}
        for k, kind in faults:
            self.faults.setdefault(k, []).append(kind)
        self.policy = policy
        self._answer = None
        n = 0
        for s in sizes:
            self.pages.append([[n + i] for i in range(s)])
            n += s

    def hold(self, conn, req):
        """Called for every request before it is answered: classify it; a request hit by 'timeout' is never answered."""
        self._answer = None
        if req['op'] != 'QUERY' or req.get('query') != 'SELECT v FROM t':
            return False
        ps = req.get('paging_state')
        self.requests.append(ps)
        if ps is None:
            k = 0
        else:
            try:
                k = int(ps.decode()[1:])
            except Exception:
                self._answer = wire.OP_ERROR, wire.error(wire.ERR_PROTOCOL, 'bad paging state %r' % ps)
                return False
        if k >= len(self.pages):
            self._answer = wire.OP_ERROR, wire.error(wire.ERR_PROTOCOL, 'page %d does not exist' % k)
            return False
        if self.faults.get(k):
            kind = self.faults[k].pop(0)
            if kind == 'timeout':
                return True
            if kind == 'nohost':
                # the retry policy moves on to the next host; the plan has no other host
                self._answer = wire.OP_ERROR, wire.error(wire.ERR_BOOTSTRAPPING, 'bootstrapping')
            else:
                self.policy.read_timeout = {'rethrow': 'RETHROW', 'ignore': 'IGNORE', 'retry': 'RETRY'}[kind]
                self._answer = wire.OP_ERROR, wire.error(wire.ERR_READ_TIMEOUT, 'rt', cl=1, received=1, blockfor=2, data_present=False)
            return False
        nxt = ('p%d' % (k + 1)).encode() if k + 1 < len(self.pages) else None
        self._answer = wire.OP_RESULT, wire.result_rows([('v', wire.T_INT)], self.pages[k], req['version'], paging_state=nxt)
        return False

    def __call__(self, server, conn, stream, req):
        r, self._answer = self._answer, None
        return r


class FaultWorld(World):
    """A caller blocked on a request that the node never answers: the only thing that can still happen is the passage
    of time, so the reactor runs the next connection timer (the request's client timeout)."""
    def pump(self, pred=None):
        World.pump(self, pred)
        guard = 0
        while pred is not None and not pred() and self.server.pending and self.live_timers() and guard < 10:
            guard += 1
            self.let_request_time_out()
            World.pump(self, pred)

    def let_request_time_out(self):
        del self.server.pending[:]          # the node stays silent for good
        self.fire_timer(self.live_timers()[0])

    def run_to_quiescence(self):
        World.pump(self)
        guard = 0
        while self.server.pending and self.live_timers() and guard < 10:
            guard += 1
            self.let_request_time_out()
            World.pump(self)


def make_policy():
    from cassandra.policies import RetryPolicy

    class FaultRetryPolicy(RetryPolicy):
        read_timeout = 'RETHROW'

        def on_read_timeout(self, query, consistency, required_responses, received_responses, data_retrieved, retry_num):
            return getattr(RetryPolicy, self.read_timeout), None

        def on_request_error(self, query, consistency, error, retry_num):
            return RetryPolicy.RETRY_NEXT_HOST, None
    return FaultRetryPolicy()


def consume_resilient(session, w, pattern, val, stmt, seen):
    """Readers that survive a failed page fetch; seen collects the names of the errors they caught."""
    from cassandra import ReadTimeout, OperationTimedOut
    from cassandra.cluster import NoHostAvailable
    caught = (ReadTimeout, OperationTimedOut, NoHostAvailable)
    if pattern == 'callbacks_retry':
        got, fatal = [], []
        f = session.execute_async(stmt)

        def again():
            if f.has_more_pages:
                f.start_fetching_next_page()

        def on_page(rows):
            got.extend(val(r) for r in rows or [])
            again()

        def on_error(exc):
            if not isinstance(exc, caught):
                fatal.append(exc)
                return
            seen.append(type(exc).__name__)
            if len(seen) < MAX_ERRORS:
                again()
        f.add_callbacks(on_page, on_error)
        w.run_to_quiescence()
        if fatal:
            raise fatal[0]
        return got
    rs = session.execute(stmt)
    if pattern == 'next_resume':
        out = []
        it = iter(rs)
        while len(seen) < MAX_ERRORS:
            try:
                out.append(val(next(it)))
            except StopIteration:
                break
            except caught as e:
                seen.append(type(e).__name__)
        return out
    if pattern == 'manual_retry':
        out = [val(r) for r in rs.current_rows]
        while rs.has_more_pages and len(seen) < MAX_ERRORS:
            try:
                rs.fetch_next_page()
            except caught as e:
                seen.append(type(e).__name__)
                continue
            out.extend(val(r) for r in rs.current_rows)
        return out
    raise ValueError(pattern)


def consume(session, w, pattern, factory, seen=None):
    from cassandra.query import SimpleStatement
    stmt = SimpleStatement('SELECT v FROM t', fetch_size=2)
    val = (lambda r: r[0]) if factory == 'tuple' else (lambda r: r['v'])
    if pattern in RESILIENT:
        return consume_resilient(session, w, pattern, val, stmt, seen)
    if pattern == 'callbacks':
        got = []
        f = session.execute_async(stmt)

        def on_page(rows):
            got.extend(val(r) for r in rows)
            if f.has_more_pages:
                f.start_fetching_next_page()
        errs = []
        f.add_callbacks(on_page, errs.append)
        w.pump()
        if errs:
            raise errs[0]
        return got
    rs = session.execute(stmt)
    if pattern == 'for':
        return [val(r) for r in rs]
    if pattern == 'list':
        return [val(r) for r in list(rs)]
    if pattern == 'all':
        return [val(r) for r in rs.all()]
    if pattern == 'next':
        out = []
        it = iter(rs)
        while True:
            try:
                out.append(val(next(it)))
            except StopIteration:
                return out
    if pattern == 'index':
        out = []
        i = 0
        while True:
            try:
                out.append(val(rs[i]))
            except IndexError:
                return out
            i += 1
    if pattern == 'eq':
        same = (rs == [])          # forces list mode (materialises everything)
        return [val(r) for r in rs]
    if pattern == 'manual':
        out = [val(r) for r in rs.current_rows]
        while rs.has_more_pages:
            rs.fetch_next_page()
            out.extend(val(r) for r in rs.current_rows)
        return out
    if pattern == 'one_then_for':
        rs.one()
        return [val(r) for r in rs]
    if pattern == 'some_then_fetch':
        out = []
        it = iter(rs)
        n_first = len(rs.current_rows)
        for _ in range(n_first):
            out.append(val(next(it)))
        while rs.has_more_pages:
            rs.fetch_next_page()
            out.extend(val(r) for r in rs.current_rows)
        return out
    raise ValueError(pattern)


def run_case(sizes, pattern, factory, pv, faults=()):
    from cassandra.query import tuple_factory, dict_factory
    policy = make_policy()
    ps = PagingServer(sizes, faults, policy)
    srv = VServer([HostSpec('10.0.0.1')])
    srv.on_request = ps
    srv.hold = ps.hold
    w = FaultWorld(srv)
    seen = []
    with w:
        from cassandra.cluster import ExecutionProfile, EXEC_PROFILE_DEFAULT
        from cassandra.policies import RoundRobinPolicy
        prof = ExecutionProfile(load_balancing_policy=RoundRobinPolicy(), retry_policy=policy,
                                row_factory=tuple_factory if factory == 'tuple' else dict_factory)
        cluster = w.make_cluster(protocol_version=pv, execution_profiles={EXEC_PROFILE_DEFAULT: prof})
        session = cluster.connect()
        try:
            got = consume(session, w, pattern, factory, seen)
            err = None
        except Exception as e:      # noqa
            got, err = None, '%s: %s' % (type(e).__name__, e)
        del srv.pending[:]
        cluster.shutdown()
    return got, err, ps.requests, seen


def expected_requests(sizes, faults):
    """None for the first page, then the state returned with the last received page -- once more for every fault that
    hit the request for that page."""
    out = []
    for k in range(len(sizes)):
        state = None if k == 0 else ('p%d' % k).encode()
        out += [state] * (1 + sum(1 for p, _ in faults if p == k))
    return out


def run_chunk(cases):
    part = Part()
    for case_t in cases:
        sizes, pattern, factory, pv = case_t[:4]
        faults = tuple(tuple(f) for f in case_t[4]) if len(case_t) > 4 else ()
        part.count('evaluations')
        got, err, reqs, seen = run_case(sizes, pattern, factory, pv, faults)
        want = list(range(sum(sizes)))
        want_reqs = expected_requests(sizes, faults)
        case = {'sizes': list(sizes), 'pattern': pattern, 'factory': factory, 'pv': pv}
        if faults:
            case['faults'] = [list(f) for f in faults]
            part.count('fault_histories')
        part.outcome((pattern, 'error' if err else 'ok', len(reqs), tuple(seen)))
        if (len(sizes) > 1 and 0 in sizes) or faults:
            part.mark_nontrivial(repr((sizes, pattern, factory, pv, faults)))
        part.sample(dict(case, rows=got, requests=[r.decode() if r else None for r in reqs], caught=seen), limit=2)
        shape = 'empty-page' if 0 in sizes else 'full-pages'
        if faults:
            shape = 'after-' + faults[0][1]        # the first fault that hits
        if err:
            part.violation('C18/raised/%s/%s' % (pattern, shape), '%s for %r' % (err, case), case)
            continue
        if got != want:
            kind = 'lost' if len(got) < len(want) else ('duplicated' if len(got) > len(want) else 'order')
            part.violation('C18/rows/%s/%s/%s' % (kind, pattern, shape), 'rows %r, expected %r for %r (errors the reader caught: %r)'
                           % (got, want, case, seen), case)
        if reqs != want_reqs:
            kind = 'extra-request' if len(reqs) > len(want_reqs) else ('missing-request' if len(reqs) < len(want_reqs) else 'wrong-state')
            part.violation('C18/paging-state/%s/%s%s' % (kind, pattern, '/' + shape if faults else ''),
                           'requests carried %r, expected %r for %r' % (reqs, want_reqs, case), case)
    return part


def fault_cases(quick):
    """(sizes, pattern, 'tuple', pv, faults): one fault on any page after the first; two faults (same page twice, or two
    pages) on the shorter sequences."""
    max1, max2 = (4, 3) if quick else (5, 4)
    out = []
    for n in range(2, max1 + 1):
        for sizes in itertools.product((0, 1, 2), repeat=n):
            scheds = [((k, a),) for k in range(1, n) for a in FAULT_KINDS]
            if n <= max2:
                scheds += [((k1, a), (k2, b)) for k1 in range(1, n) for k2 in range(k1, n) for a in FAULT_KINDS for b in FAULT_KINDS]
            for fs in scheds:
                for p in RESILIENT:
                    out.append((sizes, p, 'tuple', 4, fs))
                    if not quick and n <= 3:
                        out.append((sizes, p, 'dict', 4, fs))
                        out.append((sizes, p, 'tuple', 3, fs))
                        out.append((sizes, p, 'tuple', 5, fs))
    return out


def run(ctx):
    maxlen = 4 if ctx.quick else 5
    seqs = [s for n in range(1, maxlen + 1) for s in itertools.product((0, 1, 2), repeat=n)]
    pvs = (4,) if ctx.quick else (2, 3, 4, 5)
    cases = [(s, p, f, v) for s in seqs for p in PATTERNS for f in ('tuple', 'dict') for v in pvs]
    if ctx.quick:
        cases += [(s, p, 'tuple', v) for s in seqs if len(s) <= 3 for p in PATTERNS for v in (2, 5)]
    faulty = fault_cases(ctx.quick)
    cases += faulty
    cases = ctx.rotate(cases)
    n = ctx.nproc * 4
    for part in ctx.pmap(run_chunk, [cases[i::n] for i in range(n) if cases[i::n]]):
        ctx.merge(part)
    ctx.count('states', len(cases))
    ctx.count('transitions', sum(len(c[0]) + (len(c[4]) if len(c) > 4 else 0) for c in cases))
    ctx.cov['rule'] = ('page-size sequences x access pattern x row factory x protocol version enumerated completely, and page-size '
                       'sequences x fault schedule (page, kind) x error-surviving reader enumerated completely (counter fault_histories); '
                       'non-trivial = more than one page with at least one empty page, or at least one faulted page request')
    ctx.cov['exhaustive'] = True


def replay(ctx, data):
    part = run_chunk([(tuple(data['sizes']), data['pattern'], data['factory'], data['pv'], data.get('faults', ()))])
    for fp, what, _ in part.violations:
        print(fp, '::', what)
    return bool(part.violations)
