"""C18 Paged results yield every row exactly once, in order.

Every page-size sequence (sizes 0-2, up to 4/5 pages, empty pages anywhere) x access pattern x
row factory x protocol version is run through a real Session and ResultSet against a virtual
node that pages by the paging state it is given.
"""
import itertools

from vt.world.vworld import World, VServer, HostSpec
from vt.world import wire
from vt.core import Part

META = {
    'level': 'model_checking',
    'engine': 'E',
    'technique': 'exhaustive enumeration of page-size sequences x access patterns on the real ResultSet/ResponseFuture against a paging virtual node',
    'text': 'All page-size sequences over {0,1,2} rows of length 1..4 (quick) / 1..5 (thorough), crossed with the access patterns '
            '{for-loop, list(), all(), next() by hand, index/equality (list mode), manual fetch_next_page+current_rows, one() then '
            'iterate, iterate-some-then-fetch, callbacks with start_fetching_next_page}, row factories and protocol versions: rows '
            'delivered must be the concatenation of the pages, every request must carry the paging state returned with the previous '
            'page (first one none), exactly one request per page and none after the page without paging state.',
    'note': 'The virtual node derives the page from the paging state it receives, so a wrong or stale state yields visibly wrong rows.',
    'design_ref': 'C18',
}

PATTERNS = ['for', 'list', 'all', 'next', 'index', 'eq', 'manual', 'one_then_for', 'some_then_fetch', 'callbacks']


class PagingServer(object):
    def __init__(self, sizes):
        self.sizes = sizes
        self.requests = []       # paging state of every application request
        self.pages = []
        n = 0
        for s in sizes:
            self.pages.append([[n + i] for i in range(s)])
            n += s

    def __call__(self, server, conn, stream, req):
        if req['op'] != 'QUERY' or req.get('query') != 'SELECT v FROM t':
            return None
        ps = req.get('paging_state')
        self.requests.append(ps)
        if ps is None:
            k = 0
        else:
            try:
                k = int(ps.decode()[1:])
            except Exception:
                return wire.OP_ERROR, wire.error(wire.ERR_PROTOCOL, 'bad paging state %r' % ps)
        if k >= len(self.pages):
            return wire.OP_ERROR, wire.error(wire.ERR_PROTOCOL, 'page %d does not exist' % k)
        nxt = ('p%d' % (k + 1)).encode() if k + 1 < len(self.pages) else None
        return wire.OP_RESULT, wire.result_rows([('v', wire.T_INT)], self.pages[k], req['version'], paging_state=nxt)


def consume(session, w, pattern, factory):
    from cassandra.query import SimpleStatement
    stmt = SimpleStatement('SELECT v FROM t', fetch_size=2)
    val = (lambda r: r[0]) if factory == 'tuple' else (lambda r: r['v'])
    if pattern == 'callbacks':
        got = []
        f = session.execute_async(stmt)

        def on_page(rows):
            got.extend(val(r) for r in rows)
            if f.has_more_pages:
                f.start_fetching_next_page()
        errs = []
        f.add_callbacks(on_page, errs.append)
        w.pump()
        if errs:
            raise errs[0]
        return got
    rs = session.execute(stmt)
    if pattern == 'for':
        return [val(r) for r in rs]
    if pattern == 'list':
        return [val(r) for r in list(rs)]
    if pattern == 'all':
        return [val(r) for r in rs.all()]
    if pattern == 'next':
        out = []
        it = iter(rs)
        while True:
            try:
                out.append(val(next(it)))
            except StopIteration:
                return out
    if pattern == 'index':
        out = []
        i = 0
        while True:
            try:
                out.append(val(rs[i]))
            except IndexError:
                return out
            i += 1
    if pattern == 'eq':
        rows = list(rs._current_rows) if False else None
        same = (rs == [])          # forces list mode (materialises everything)
        return [val(r) for r in rs]
    if pattern == 'manual':
        out = [val(r) for r in rs.current_rows]
        while rs.has_more_pages:
            rs.fetch_next_page()
            out.extend(val(r) for r in rs.current_rows)
        return out
    if pattern == 'one_then_for':
        rs.one()
        return [val(r) for r in rs]
    if pattern == 'some_then_fetch':
        out = []
        it = iter(rs)
        n_first = len(rs.current_rows)
        for _ in range(n_first):
            out.append(val(next(it)))
        while rs.has_more_pages:
            rs.fetch_next_page()
            out.extend(val(r) for r in rs.current_rows)
        return out
    raise ValueError(pattern)


def run_case(sizes, pattern, factory, pv):
    from cassandra.query import tuple_factory, dict_factory
    ps = PagingServer(sizes)
    srv = VServer([HostSpec('10.0.0.1')])
    srv.on_request = ps
    w = World(srv)
    with w:
        from cassandra.cluster import ExecutionProfile, EXEC_PROFILE_DEFAULT
        from cassandra.policies import RoundRobinPolicy
        prof = ExecutionProfile(load_balancing_policy=RoundRobinPolicy(),
                                row_factory=tuple_factory if factory == 'tuple' else dict_factory)
        cluster = w.make_cluster(protocol_version=pv, execution_profiles={EXEC_PROFILE_DEFAULT: prof})
        session = cluster.connect()
        try:
            got = consume(session, w, pattern, factory)
            err = None
        except Exception as e:      # noqa
            got, err = None, '%s: %s' % (type(e).__name__, e)
        cluster.shutdown()
    return got, err, ps.requests


def run_chunk(cases):
    part = Part()
    for sizes, pattern, factory, pv in cases:
        part.count('evaluations')
        got, err, reqs = run_case(sizes, pattern, factory, pv)
        want = list(range(sum(sizes)))
        want_reqs = [None] + [('p%d' % k).encode() for k in range(1, len(sizes))]
        case = {'sizes': list(sizes), 'pattern': pattern, 'factory': factory, 'pv': pv}
        part.outcome((pattern, 'error' if err else 'ok', len(reqs)))
        if len(sizes) > 1 and 0 in sizes:
            part.mark_nontrivial(repr((sizes, pattern, factory, pv)))
        part.sample(dict(case, rows=got, requests=[r.decode() if r else None for r in reqs]), limit=2)
        shape = 'empty-page' if 0 in sizes else 'full-pages'
        if err:
            part.violation('C18/raised/%s/%s' % (pattern, shape), '%s for %r' % (err, case), case)
            continue
        if got != want:
            kind = 'lost' if len(got) < len(want) else ('duplicated' if len(got) > len(want) else 'order')
            part.violation('C18/rows/%s/%s/%s' % (kind, pattern, shape), 'rows %r, expected %r for %r' % (got, want, case), case)
        if reqs != want_reqs:
            kind = 'extra-request' if len(reqs) > len(want_reqs) else ('missing-request' if len(reqs) < len(want_reqs) else 'wrong-state')
            part.violation('C18/paging-state/%s/%s' % (kind, pattern), 'requests carried %r, expected %r for %r' % (reqs, want_reqs, case), case)
    return part


def run(ctx):
    maxlen = 4 if ctx.quick else 5
    seqs = [s for n in range(1, maxlen + 1) for s in itertools.product((0, 1, 2), repeat=n)]
    pvs = (4,) if ctx.quick else (2, 3, 4, 5)
    cases = [(s, p, f, v) for s in seqs for p in PATTERNS for f in ('tuple', 'dict') for v in pvs]
    if ctx.quick:
        cases += [(s, p, 'tuple', v) for s in seqs if len(s) <= 3 for p in PATTERNS for v in (2, 5)]
    cases = ctx.rotate(cases)
    n = ctx.nproc * 4
    for part in ctx.pmap(run_chunk, [cases[i::n] for i in range(n) if cases[i::n]]):
        ctx.merge(part)
    ctx.count('states', len(cases))
    ctx.count('transitions', sum(len(c[0]) for c in cases))
    ctx.cov['rule'] = ('page-size sequences x access pattern x row factory x protocol version enumerated completely; non-trivial = '
                       'more than one page with at least one empty page')
    ctx.cov['exhaustive'] = True


def replay(ctx, data):
    part = run_chunk([(tuple(data['sizes']), data['pattern'], data['factory'], data['pv'])])
    for fp, what, _ in part.violations:
        print(fp, '::', what)
    return bool(part.violations)
