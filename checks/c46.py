"""C46 Per-statement options override profile and session defaults.

Engine N: the product {simple, bound, bound inheriting from its PreparedStatement, batch} x each
statement-level option set / unset x profile (or, legacy mode, session/cluster) value custom /
default / falsy x how the profile is selected x timeout argument x explicit host x protocol version
is executed through a real Session over the virtual node, page after page; the ResponseFuture
attributes, every request frame the node received (parsed by the independent wire codec) and the
rows the caller gets are compared with the precedence rule vt/spec/options.py.  What the reference
is told about the defaults is what the harness CONFIGURED, never what the driver stored.
"""
import copy
import itertools

from vt import reqworld   # noqa: F401  imported here so that forked workers inherit the loaded driver
from vt.world.vworld import World, VServer, HostSpec
from vt.world import wire
from vt.core import Part
from vt.spec import options as ref

META = {
    'level': 'exploration',
    'engine': 'N',
    'technique': 'bounded-exhaustive product of statement kinds x own options x profile/session defaults (default, custom, falsy) x configuration mode x timeout argument x explicit host x protocol version on a real Session, every page request of the execution, precedence reference fed with the configured values',
    'text': 'Statement kinds {SimpleStatement, BoundStatement with own options, BoundStatement inheriting the options of its PreparedStatement, '
            'BatchStatement} x consistency_level in {unset, QUORUM, ANY (numeric value 0)} x serial_consistency_level / retry_policy set or unset x fetch_size in {unset, 7, 0, None} x the '
            'defaults on the profile (legacy mode: Session/Cluster attributes): consistency in {not given, THREE, ANY (0)}, serial consistency / retry policy custom or not given, '
            'the profile-only options in {not given; 4.25 s, dict_factory, custom load-balancing policy, constant speculative execution; request_timeout 0.0, tuple_factory, custom policy; '
            'request_timeout None, dict_factory, custom policy, constant speculative execution}, Session.default_fetch_size in {5000 default, 11, 0, None} x profile selection {default profile, '
            'named profile, cloned instance (quick: one protocol version)} or legacy mode x timeout argument {omitted, None, 3.5, 0.0} x {routed by the policy, explicit host= (paged executions, timeout argument omitted or 0.0)} x protocol 2/4/5 (quick: the request_timeout None variant with protocol 4).  '
            'In the named / cloned modes the default profile is a decoy: every option differs from the profile in use and its load-balancing policy routes to the other host.  '
            'An execution whose effective fetch size is positive is paged: the node hands out two paging states and the caller fetches pages 2 and 3 with start_fetching_next_page(); '
            'page 3 is answered by a read timeout so that the retry policy in effect is consulted.  '
            'Checked against the configured values, for the first and for every follow-up request: ResponseFuture.timeout / _retry_policy / row_factory / '
            '_load_balancer / speculative plan / message fields; the received frame carries the effective consistency, serial consistency (absent when none) '
            'and page size (absent for None/0) and the paging state handed out, and reached the explicit host or else the first host of the effective load-balancing policy; '
            'the client timer equals the effective timeout; the rows come back in the shape of the effective row factory; the read timeout of the last page is put to the '
            'effective retry policy and to no other.',
    'note': 'Statements are idempotent (otherwise no speculative plan is made).  A BATCH frame of protocol 2 cannot carry a serial consistency; that field is '
            'not demanded there.  fetch_size 0 and None both mean "no paging": the frame must then carry no page size.  On follow-up pages either the speculative timer or '
            '(plan used up) the plain timeout timer is accepted.  The documented defaults (LOCAL_ONE, no serial consistency, a plain RetryPolicy, 10 s, named tuples, 5000 rows) are '
            'part of the reference.',
    'design_ref': 'C46',
}

QUERY = 'SELECT v FROM t'
ROWS_COLS = [('v', wire.T_INT)]
TIMEOUT_ARGS = ['omitted', None, 3.5, 0.0]
FETCHES = ['unset', 7, 0, None]
DFETCHES = ['default', 11, 0, None]
KINDS = ['simple', 'bound', 'bound_inherit', 'batch']
EXPLICIT_HOST_WITH = ('omitted', 0.0)     # timeout arguments with which the explicit-host variant of a paged execution is run
PS = [b'PS1', b'PS2']        # the paging states the node hands out; the request carrying the last one is answered by a read timeout
DEFAULT_RETRY = ('a plain RetryPolicy',)
DOCUMENTED_DEFAULT_FETCH = 5000


def addr(i):
    return '10.0.0.%d' % i


class Answer(object):
    def __call__(self, server, conn, stream, req):
        if req['op'] == 'QUERY' and req.get('query') == QUERY or req['op'] == 'EXECUTE':
            v = req['version']
            size, state = req.get('page_size'), req.get('paging_state')
            nxt = None
            if size is not None and size > 0:
                if state is None:
                    nxt = PS[0]
                elif state in PS[:-1]:
                    nxt = PS[PS.index(state) + 1]
                elif state == PS[-1]:
                    return wire.OP_ERROR, wire.error(wire.ERR_READ_TIMEOUT, 'rt', cl=req.get('consistency') or 0, received=1, blockfor=2, data_present=False)
            return wire.OP_RESULT, wire.result_rows(ROWS_COLS, [[1]], v, paging_state=nxt)
        return None


def retry_classes():
    from cassandra.policies import RetryPolicy

    class Recording(RetryPolicy):
        def __init__(self, name):
            self.name = name
            self.consulted = 0

        def on_read_timeout(self, *a, **kw):
            self.consulted += 1
            return self.RETHROW, None

        def __repr__(self):
            return '<retry policy %s>' % self.name
    return Recording


def build(group):
    """-> dict with the world, the session and what the reference needs to know about the defaults (as configured)"""
    from cassandra import ConsistencyLevel as CL
    from cassandra.cluster import ExecutionProfile, EXEC_PROFILE_DEFAULT
    from cassandra.policies import ConstantSpeculativeExecutionPolicy, NoSpeculativeExecutionPolicy
    from cassandra.query import dict_factory, named_tuple_factory, tuple_factory, ordered_dict_factory
    mode, pv, pbits, pextra, dfetch = group
    p_cl, p_serial, p_retry = pbits
    srv = VServer([HostSpec(addr(1)), HostSpec(addr(2))])
    srv.on_request = Answer()
    w = World(srv)
    w.__enter__()
    try:
        Recording = retry_classes()
        order = [addr(2), addr(1)] if pextra else [addr(1), addr(2)]
        lbp_used = reqworld.FixedOrderPolicy(order=order)
        custom_retry = Recording('of the profile/cluster')
        decoy_retry = Recording('of the decoy default profile')
        d = {}
        d['cl'] = {0: CL.LOCAL_ONE, 1: CL.THREE, 2: CL.ANY}[p_cl]
        d['serial'] = CL.LOCAL_SERIAL if p_serial else None
        d['timeout'] = {0: 10.0, 1: 4.25, 2: 0.0, 3: None}[pextra]
        d['row_factory'] = {0: named_tuple_factory, 1: dict_factory, 2: tuple_factory, 3: dict_factory}[pextra]
        d['spec'] = 'constant' if pextra in (1, 3) else 'none'
        d['first_host'], d['other_host'] = order
        d['retry'] = custom_retry if p_retry else DEFAULT_RETRY
        d['lbp'] = lbp_used
        d['fetch'] = DOCUMENTED_DEFAULT_FETCH if dfetch == 'default' else dfetch

        def spec_policy():
            return ConstantSpeculativeExecutionPolicy(1.5, 1) if d['spec'] == 'constant' else NoSpeculativeExecutionPolicy()
        ep_arg = None
        if mode == 'legacy':
            d['spec'] = 'none'
            kw = dict(load_balancing_policy=lbp_used)
            if p_retry:
                kw['default_retry_policy'] = custom_retry
            cluster = w.make_cluster(protocol_version=pv, **kw)
            session = cluster.connect(wait_for_all_pools=True)
            w.settle()
            if p_cl:
                session.default_consistency_level = d['cl']
            if p_serial:
                session.default_serial_consistency_level = d['serial']
            if pextra:
                session.default_timeout = d['timeout']
                session.row_factory = d['row_factory']
        else:
            def own_options():
                kw = {}
                if p_cl:
                    kw['consistency_level'] = d['cl']
                if p_serial:
                    kw['serial_consistency_level'] = d['serial']
                if p_retry:
                    kw['retry_policy'] = custom_retry
                if pextra:
                    kw.update(request_timeout=d['timeout'], row_factory=d['row_factory'], speculative_execution_policy=spec_policy())
                return kw

            def decoy():
                # the default profile when another one is used: every option differs, the policy routes to the other host
                return ExecutionProfile(load_balancing_policy=reqworld.FixedOrderPolicy(order=order[::-1]), consistency_level=CL.TWO,
                                        serial_consistency_level=CL.SERIAL, retry_policy=decoy_retry, request_timeout=7.5,
                                        row_factory=ordered_dict_factory, speculative_execution_policy=ConstantSpeculativeExecutionPolicy(0.75, 1))
            if mode == 'profile-default':
                profs = {EXEC_PROFILE_DEFAULT: ExecutionProfile(load_balancing_policy=lbp_used, **own_options())}
            elif mode == 'profile-named':
                profs = {EXEC_PROFILE_DEFAULT: decoy(), 'other': ExecutionProfile(load_balancing_policy=lbp_used, **own_options())}
                ep_arg = 'other'
            elif mode == 'profile-clone':
                profs = {EXEC_PROFILE_DEFAULT: decoy(), 'other': ExecutionProfile(load_balancing_policy=lbp_used)}
            else:
                raise ValueError(mode)
            cluster = w.make_cluster(protocol_version=pv, execution_profiles=profs)
            session = cluster.connect(wait_for_all_pools=True)
            w.settle()
            if mode == 'profile-clone':
                # an instance derived from a registered profile, carrying the custom values
                ep_arg = session.execution_profile_clone_update('other', **own_options())
        if dfetch != 'default':
            session.default_fetch_size = dfetch
        prepared = session.prepare('SELECT v FROM t WHERE k=0')
        prepared.is_idempotent = True
        hosts = dict((h.endpoint.address, h) for h in cluster.metadata.all_hosts())
        return dict(w=w, srv=srv, cluster=cluster, session=session, d=d, ep_arg=ep_arg, prepared=prepared, hosts=hosts,
                    recorders=[custom_retry, decoy_retry], Recording=Recording)
    except BaseException:
        w.__exit__()
        raise


def own_cl(s_cl):
    """1: QUORUM; 2: ANY, whose numeric value is 0 - a statement's own level is its own even when it is falsy"""
    from cassandra import ConsistencyLevel as CL
    return CL.ANY if s_cl == 2 else CL.QUORUM


def make_statement(kind, own, env, stmt_retry):
    from cassandra import ConsistencyLevel as CL
    from cassandra.query import SimpleStatement, BoundStatement, BatchStatement
    s_cl, s_serial, s_retry, s_fetch = own
    kw = {}
    if s_cl:
        kw['consistency_level'] = own_cl(s_cl)
    if s_serial:
        kw['serial_consistency_level'] = CL.SERIAL
    if s_retry:
        kw['retry_policy'] = stmt_retry
    if kind == 'batch':
        st = BatchStatement(**kw)
        st.add(SimpleStatement('INSERT INTO t (k, v) VALUES (0, 1)'))
        st.is_idempotent = True
        return st
    if s_fetch != 'unset':
        kw['fetch_size'] = s_fetch
    if kind == 'simple':
        return SimpleStatement(QUERY, is_idempotent=True, **kw)
    if kind == 'bound':
        return BoundStatement(env['prepared'], **kw).bind(())
    if kind == 'bound_inherit':
        ps = copy.copy(env['prepared'])
        for k, v in kw.items():
            setattr(ps, k, v)
        return ps.bind(())
    raise ValueError(kind)


def shape_of(rows):
    if not rows:
        return repr(rows)
    r = rows[0]
    if isinstance(r, dict):
        return 'dict' if type(r) is dict else type(r).__name__
    if hasattr(r, '_fields'):
        return 'namedtuple'
    if type(r) is tuple:
        return 'tuple'
    return type(r).__name__


WANT_SHAPE = {'dict_factory': 'dict', 'named_tuple_factory': 'namedtuple', 'tuple_factory': 'tuple'}


def run_case(part, env, group, kind, own, targ, harg, stmt_retry):
    from cassandra import ConsistencyLevel as CL
    from cassandra.policies import RetryPolicy
    mode, pv, pbits, pextra, dfetch = group
    w, srv, session, d = env['w'], env['srv'], env['session'], env['d']
    s_cl, s_serial, s_retry, s_fetch = own
    case = {'group': list(group[:2]) + [list(pbits), pextra, dfetch], 'kind': kind, 'own': list(own), 'timeout_arg': targ, 'host_arg': harg}
    part.count('evaluations')
    stmt = make_statement(kind, own, env, stmt_retry)
    kw = {}
    if targ != 'omitted':
        kw['timeout'] = targ
    if env['ep_arg'] is not None:
        kw['execution_profile'] = env['ep_arg']
    if harg == 'explicit':
        kw['host'] = env['hosts'][d['other_host']]
    # ---- expectation by the precedence rule, from the configured values
    resolved = dict(
        target=ref.target(d['first_host'], d['other_host'] if harg == 'explicit' else None),
        consistency=ref.effective(own_cl(s_cl) if s_cl else ref.UNSET, d['cl']),
        serial_consistency=ref.effective(CL.SERIAL if s_serial else ref.UNSET, d['serial']),
        retry_policy=ref.effective(stmt_retry if s_retry else ref.UNSET, d['retry']),
        fetch_size=ref.effective(ref.UNSET if s_fetch == 'unset' else s_fetch, d['fetch']),
        timeout=ref.effective(ref.UNSET if targ == 'omitted' else targ, d['timeout']),
        row_factory=d['row_factory'])
    resolved['page_size'] = ref.wire_page_size(resolved['fetch_size']) if kind != 'batch' else None
    e_fetch = resolved['fetch_size']
    where = '%s/%s' % (kind, 'legacy' if mode == 'legacy' else mode)
    overriding = sum([bool(s_cl), s_serial, s_retry, s_fetch != 'unset', targ != 'omitted', harg != 'lbp'])
    if overriding and (any(pbits) or pextra):
        part.mark_nontrivial(repr((group, kind, own, targ, harg)))
    recorders = env['recorders'] + [stmt_retry]

    def bad(option, level, got, want, page=1):
        fp = 'C46/%s/%s/%s%s' % (option, level, where, '' if page == 1 else '/later-page')
        if any(v[0] == fp for v in part.violations):
            part.violation(fp, '', None)      # one written-out case per fingerprint and worker; the rest is counted
            return
        part.violation(fp,
                       '%s in effect (%s, request for page %d): %r, precedence rule gives %r [statement %s with own options cl=%s serial=%s retry=%s fetch_size=%r, '
                       'timeout argument %r, host argument %s; defaults as configured (%s): %r; protocol v%d]'
                       % (option, level, page, got, want, kind, bool(s_cl), bool(s_serial), bool(s_retry), s_fetch, targ, harg, mode,
                          dict((k, (v if not callable(v) else getattr(v, '__name__', repr(v)))) for k, v in d.items() if k != 'lbp'), pv), case)

    def check_future(f, page):
        e = ref.request_options(page, resolved)
        if f.message.consistency_level != e['consistency']:
            bad('consistency_level', 'future', f.message.consistency_level, e['consistency'], page)
        if f.message.serial_consistency_level != e['serial_consistency']:
            bad('serial_consistency_level', 'future', f.message.serial_consistency_level, e['serial_consistency'], page)
        want = e['retry_policy']
        if (type(f._retry_policy) is not RetryPolicy) if want is DEFAULT_RETRY else (f._retry_policy is not want):
            bad('retry_policy', 'future', f._retry_policy, want, page)
        if kind != 'batch' and f.message.fetch_size != e_fetch:
            bad('fetch_size', 'future', f.message.fetch_size, e_fetch, page)
        if f.timeout != e['timeout'] or (f.timeout is None) != (e['timeout'] is None):
            bad('timeout', 'future', f.timeout, e['timeout'], page)
        if f.row_factory is not e['row_factory']:
            bad('row_factory', 'future', getattr(f.row_factory, '__name__', f.row_factory), e['row_factory'].__name__, page)
        if f._load_balancer is not d['lbp']:
            bad('load_balancing_policy', 'future', f._load_balancer, d['lbp'], page)
        plan = type(f._spec_execution_plan).__name__
        want_plan = 'ConstantSpeculativeExecutionPlan' if d['spec'] == 'constant' else 'NoSpeculativeExecutionPlan'
        if plan != want_plan:
            bad('speculative_execution_policy', 'future', plan, want_plan, page)

    def check_timers(timers, page):
        e_timeout = ref.request_options(page, resolved)['timeout']
        plain = [('_on_timeout', round(e_timeout, 6))] if e_timeout is not None else []
        if d['spec'] == 'constant' and (e_timeout is None or e_timeout > 1.5):
            accepted = [[('_on_speculative_execute', 1.5)]] + ([plain] if page > 1 else [])
        else:
            accepted = [plain]
        if timers not in accepted:
            bad('timeout', 'timer', timers, accepted[0] if len(accepted) == 1 else accepted, page)

    def check_frame(reqs, page):
        """-> the frame, or None when it cannot be judged"""
        e = ref.request_options(page, resolved)
        if len(reqs) != 1:
            part.violation('C46/frames/%s' % where, '%d request frames for page %d of one execution: %r, case %r' % (len(reqs), page, reqs, case), case)
            return None
        host, r = reqs[0]
        want_op = {'simple': 'QUERY', 'batch': 'BATCH'}.get(kind, 'EXECUTE')
        if r['op'] != want_op or r.get('trailing'):
            part.violation('C46/frames/%s' % where, 'frame %r for page %d of %r' % (r, page, case), case)
            return None
        if r.get('consistency') != e['consistency']:
            bad('consistency_level', 'wire', r.get('consistency'), e['consistency'], page)
        if not (kind == 'batch' and pv < 3) and r.get('serial_consistency') != e['serial_consistency']:
            bad('serial_consistency_level', 'wire', r.get('serial_consistency'), e['serial_consistency'], page)
        if kind != 'batch' and r.get('page_size') != e['page_size']:
            bad('fetch_size', 'wire', r.get('page_size'), e['page_size'], page)
        if kind != 'batch' and r.get('paging_state') != (None if page == 1 else PS[page - 2]):
            part.violation('C46/frames/paging-state/%s' % where, 'request for page %d carries paging state %r: case %r' % (page, r.get('paging_state'), case), case)
            return None
        if host != e['target']:
            bad('load_balancing_policy' if harg == 'lbp' else 'explicit_host', 'wire', host, e['target'], page)
        return r

    def exchange(start):
        """run `start`, -> (its result or the exception it raised, timers armed by it, frames the node got)"""
        n0 = len(srv.received)
        now = w.clock.now
        out = start()
        timers = [(getattr(t.callback, '__name__', '?'), round(t.end - now, 6)) for t in w.live_timers()]
        w.pump()
        reqs = [(w.conns[vid].endpoint.address, r) for vid, _, r in srv.received[n0:] if r['op'] in ('QUERY', 'EXECUTE', 'BATCH')]
        return out, timers, reqs

    # ---- first request
    try:
        f, timers, reqs = exchange(lambda: session.execute_async(stmt, **kw))
    except Exception as e:     # noqa
        part.violation('C46/raised/%s/%s' % (kind, type(e).__name__), 'execute_async raised %r for %r' % (e, case), case)
        return
    check_future(f, 1)
    check_timers(timers, 1)
    r = check_frame(reqs, 1)
    if r is None:
        return
    pages = 1
    if kind != 'batch':
        try:
            rows = f.result().current_rows
        except Exception as e:      # noqa
            part.violation('C46/result/%s/%s' % (where, type(e).__name__), 'result() raised %r for %r' % (e, case), case)
            return
        if shape_of(rows) != WANT_SHAPE[d['row_factory'].__name__]:
            bad('row_factory', 'rows', shape_of(rows), WANT_SHAPE[d['row_factory'].__name__])
        # ---- the follow-up requests of a paged execution
        if resolved['page_size'] is not None and r.get('page_size') == resolved['page_size']:
            if not f.has_more_pages:
                part.violation('C46/paging/%s' % where, 'the node handed out a paging state, has_more_pages is False: %r' % (case,), case)
                return
            for page in range(2, len(PS) + 2):
                before = [x.consulted for x in recorders]
                try:
                    _, timers, reqs = exchange(f.start_fetching_next_page)
                except Exception as e:     # noqa
                    part.violation('C46/raised/next-page/%s/%s' % (kind, type(e).__name__), 'start_fetching_next_page raised %r for page %d of %r' % (e, page, case), case)
                    return
                part.count('followup_requests')
                pages = page
                check_future(f, page)
                check_timers(timers, page)
                if check_frame(reqs, page) is None:
                    return
                consulted = [x for x, b in zip(recorders, before) if x.consulted != b]
                if page <= len(PS):
                    try:
                        rows = f.result().current_rows
                    except Exception as e:      # noqa
                        part.violation('C46/result/%s/%s' % (where, type(e).__name__), 'result() of page %d raised %r for %r' % (page, e, case), case)
                        return
                    if shape_of(rows) != WANT_SHAPE[d['row_factory'].__name__]:
                        bad('row_factory', 'rows', shape_of(rows), WANT_SHAPE[d['row_factory'].__name__], page)
                    want_consulted = []
                else:
                    # the node answered with a read timeout: the retry policy in effect decides (all of them rethrow)
                    try:
                        f.result()
                        got = 'a result'
                    except Exception as e:      # noqa
                        got = type(e).__name__
                    if got != 'ReadTimeout':
                        part.violation('C46/result/last-page/%s' % where, 'the read timeout answering the request for page %d ended as %s: %r' % (page, got, case), case)
                        return
                    e_retry = ref.request_options(page, resolved)['retry_policy']
                    want_consulted = [] if e_retry is DEFAULT_RETRY else [e_retry]
                if consulted != want_consulted:
                    bad('retry_policy', 'consulted', consulted, want_consulted, page)
    part.outcome((kind, resolved['consistency'], resolved['serial_consistency'], resolved['page_size'] if kind != 'batch' else '-',
                  resolved['timeout'], 'pages=%d' % pages))
    part.sample(dict(case, frame=dict((k, r.get(k)) for k in ('op', 'consistency', 'serial_consistency', 'page_size')),
                     timeout=f.timeout, host=reqs[0][0], pages=pages), limit=1)


def run_group(group, only=None):
    part = Part()
    mode, pv, pbits, pextra, dfetch = group
    env = build(group)
    d = env['d']
    stmt_retry = env['Recording']('of the statement')
    try:
        for kind in KINDS:
            fetches = FETCHES if kind != 'batch' else ['unset']
            for s_cl, s_serial, s_retry, s_fetch in itertools.product((0, 1, 2), (0, 1), (0, 1), fetches):
                own = (s_cl, s_serial, s_retry, s_fetch)
                paged = kind != 'batch' and ref.wire_page_size(ref.effective(ref.UNSET if s_fetch == 'unset' else s_fetch, d['fetch'])) is not None
                for targ in TIMEOUT_ARGS:
                    for harg in (['lbp', 'explicit'] if paged and targ in EXPLICIT_HOST_WITH else ['lbp']):
                        if only is not None and only != (kind, list(own), targ, harg):
                            continue
                        run_case(part, env, group, kind, own, targ, harg, stmt_retry)
                        leftover = env['w'].live_timers()
                        if leftover:
                            raise AssertionError('timers left armed after a case: %r' % (leftover,))
    finally:
        try:
            env['cluster'].shutdown()
        finally:
            env['w'].__exit__()
    return part


def groups(ctx):
    out = []
    bits = list(itertools.product((0, 1, 2), (0, 1), (0, 1)))
    if ctx.quick:
        for mode in ['profile-default', 'profile-named', 'legacy']:
            for pv in (2, 4, 5):
                for pb in bits:
                    for pextra in ((0, 1, 2, 3) if pv == 4 else (0, 1, 2)):
                        # Session.default_fetch_size: every value with every mode x version x consistency default x profile-only variant
                        out.append((mode, pv, pb, pextra, DFETCHES[(pextra + pb[1] + 2 * pb[2]) % 4]))
        for pb in bits:
            if pb[1] == pb[2]:
                for pextra in (0, 1, 2, 3):
                    out.append(('profile-clone', 4, pb, pextra, DFETCHES[(pextra + pb[1] + 2 * pb[2]) % 4]))
    else:
        for mode in ['profile-default', 'profile-named', 'profile-clone', 'legacy']:
            for pv in (2, 3, 4, 5):
                for pb in bits:
                    for pextra in (0, 1, 2, 3):
                        for dfetch in DFETCHES:
                            out.append((mode, pv, pb, pextra, dfetch))
    return out


def run(ctx):
    assert ref.selftest()
    gs = ctx.rotate(groups(ctx))
    for part in ctx.pmap(run_group, gs):
        ctx.merge(part)
    ctx.cov['rule'] = ('groups = configuration mode x protocol version x consistency default {not given, THREE, ANY} x custom/not given for serial consistency, retry policy x '
                       'profile-only options {not given, custom, request_timeout 0.0, request_timeout None} x Session.default_fetch_size%s; per group every statement kind x own '
                       'option combination x timeout argument x (paged executions, timeout argument omitted or 0.0) routed by the policy / explicit host, each paged execution through 3 page requests; non-trivial = '
                       'a case in which the statement (or the call) sets at least one option while at least one default is configured; %d groups'
                       % (' (quick: request_timeout None with protocol 4 only; one of {default, 11, 0, None} per group, chosen so that each occurs with every mode x version x consistency default x profile-only variant; '
                          'cloned-instance mode for protocol 4 with serial/retry defaults both custom or both not given)' if ctx.quick else '', len(gs)))
    ctx.cov['exhaustive'] = True
    ctx.assume('statements are marked idempotent, so that a speculative execution plan is requested from the policy in effect')
    ctx.assume('fetch_size 0 and None both mean "no paging": the frame then carries no page size (a node treats a missing page size and a size <= 0 alike)')
    ctx.assume('a protocol-2 BATCH frame has no field for the serial consistency; it is not demanded on the wire there')
    ctx.assume('the load-balancing policy in effect is observed through ResponseFuture._load_balancer and through the host that received each frame (first host of its plan); '
               'an explicit host= names the target of every request of the execution')
    ctx.assume('a timeout of 0.0 is a setting (the timer is armed for now + 0.0); virtual time does not pass while a request is in flight, so the request still completes')
    ctx.assume('on a follow-up page the speculative plan of the execution may be used up: the speculative timer or the plain timeout timer (effective timeout) is accepted')
    ctx.assume('not given means the documented default: LOCAL_ONE, no serial consistency, an instance of exactly RetryPolicy, 10.0 s, named_tuple_factory, fetch size 5000')


def replay(ctx, data):
    g = data['group']
    part = run_group((g[0], g[1], tuple(g[2]), g[3], g[4]), only=(data['kind'], list(data['own']), data['timeout_arg'], data.get('host_arg', 'lbp')))
    for fp, what, _ in part.violations:
        print(fp, '::', what)
    return bool(part.violations)
