"""C46 Per-statement options override profile and session defaults.

Engine N: the product {simple, bound, bound inheriting from its PreparedStatement, batch} x each
statement-level option set / unset x profile (or, legacy mode, session/cluster) value custom /
default x how the profile is selected x timeout argument x protocol version is executed through a
real Session over the virtual node; the ResponseFuture attributes, the request frame the node
received (parsed by the independent wire codec) and the rows the caller gets are compared with the
precedence rule vt/spec/options.py.
"""
import copy
import itertools

from vt import reqworld   # noqa: F401  imported here so that forked workers inherit the loaded driver
from vt.world.vworld import World, VServer, HostSpec
from vt.world import wire
from vt.core import Part
from vt.spec import options as ref

META = {
    'level': 'exploration',
    'engine': 'N',
    'technique': 'bounded-exhaustive product of statement kinds x own options x profile/session defaults x configuration mode x timeout argument x protocol version on a real Session, precedence reference',
    'text': 'Statement kinds {SimpleStatement, BoundStatement with own options, BoundStatement inheriting the options of its PreparedStatement, '
            'BatchStatement} x consistency_level in {unset, QUORUM, ANY (numeric value 0)} x serial_consistency_level / retry_policy set or unset x fetch_size in {unset, 7, 0, None} x the same '
            'four defaults custom or default on the profile (legacy mode: Session/Cluster attributes) x the profile-only options (request_timeout, row_factory, '
            'load_balancing_policy, speculative_execution_policy) custom or default x profile selection {default profile, named profile, cloned instance} '
            'or legacy mode x timeout argument {omitted, None, 3.5} x protocol 2/4/5.  Checked: ResponseFuture.timeout / _retry_policy / row_factory / '
            '_load_balancer / speculative plan / message fields; the received frame carries the effective consistency, serial consistency (absent when none) '
            'and page size (absent for None/0), and reached the first host of the effective load-balancing policy; the client timer equals the effective timeout; '
            'the rows come back in the shape of the effective row factory.',
    'note': 'Statements are idempotent (otherwise no speculative plan is made).  A BATCH frame of protocol 2 cannot carry a serial consistency; that field is '
            'not demanded there.  fetch_size 0 and None both mean "no paging": the frame must then carry no page size.',
    'design_ref': 'C46',
}

QUERY = 'SELECT v FROM t'
ROWS_COLS = [('v', wire.T_INT)]
TIMEOUT_ARGS = ['omitted', None, 3.5]
FETCHES = ['unset', 7, 0, None]
KINDS = ['simple', 'bound', 'bound_inherit', 'batch']


def addr(i):
    return '10.0.0.%d' % i


class Answer(object):
    def __call__(self, server, conn, stream, req):
        if req['op'] == 'QUERY' and req.get('query') == QUERY or req['op'] == 'EXECUTE':
            return wire.OP_RESULT, wire.result_rows(ROWS_COLS, [[1]], req['version'])
        return None


def build(group):
    """-> dict with the world, the session and what the reference needs to know about the defaults"""
    from cassandra import ConsistencyLevel as CL
    from cassandra.cluster import ExecutionProfile, EXEC_PROFILE_DEFAULT
    from cassandra.policies import RetryPolicy, ConstantSpeculativeExecutionPolicy, NoSpeculativeExecutionPolicy
    from cassandra.query import dict_factory, named_tuple_factory
    mode, pv, pbits, pextra, dfetch = group
    p_cl, p_serial, p_retry = pbits
    srv = VServer([HostSpec(addr(1)), HostSpec(addr(2))])
    srv.on_request = Answer()
    w = World(srv)
    w.__enter__()
    try:
        class MarkRetry(RetryPolicy):
            pass
        lbp_default = reqworld.FixedOrderPolicy(order=[addr(1), addr(2)])
        lbp_custom = reqworld.FixedOrderPolicy(order=[addr(2), addr(1)])
        spec_custom = ConstantSpeculativeExecutionPolicy(1.5, 1)
        custom_retry = MarkRetry()
        d = {}
        d['cl'] = CL.THREE if p_cl else CL.LOCAL_ONE
        d['serial'] = CL.LOCAL_SERIAL if p_serial else None
        d['timeout'] = 4.25 if pextra else 10.0
        d['row_factory'] = dict_factory if pextra else named_tuple_factory
        d['spec'] = 'constant' if pextra else 'none'
        d['first_host'] = addr(2) if pextra else addr(1)
        ep_arg = None
        if mode == 'legacy':
            d['spec'] = 'none'
            kw = dict(load_balancing_policy=lbp_custom if pextra else lbp_default)
            if p_retry:
                kw['default_retry_policy'] = custom_retry
            cluster = w.make_cluster(protocol_version=pv, **kw)
            session = cluster.connect(wait_for_all_pools=True)
            w.settle()
            if p_cl:
                session.default_consistency_level = d['cl']
            if p_serial:
                session.default_serial_consistency_level = d['serial']
            if pextra:
                session.default_timeout = d['timeout']
                session.row_factory = d['row_factory']
            d['retry'] = custom_retry if p_retry else cluster.default_retry_policy
            d['lbp'] = cluster.load_balancing_policy
        else:
            def profile(custom):
                kw = dict(load_balancing_policy=(lbp_custom if pextra else lbp_default) if custom else reqworld.FixedOrderPolicy(order=[addr(1), addr(2)]))
                if custom:
                    if p_cl:
                        kw['consistency_level'] = d['cl']
                    if p_serial:
                        kw['serial_consistency_level'] = d['serial']
                    if p_retry:
                        kw['retry_policy'] = custom_retry
                    if pextra:
                        kw.update(request_timeout=d['timeout'], row_factory=d['row_factory'], speculative_execution_policy=spec_custom)
                return ExecutionProfile(**kw)
            if mode == 'profile-default':
                profs = {EXEC_PROFILE_DEFAULT: profile(True)}
                used = profs[EXEC_PROFILE_DEFAULT]
            else:
                profs = {EXEC_PROFILE_DEFAULT: profile(False), 'other': profile(True)}
                used = profs['other']
                ep_arg = 'other'
            cluster = w.make_cluster(protocol_version=pv, execution_profiles=profs)
            session = cluster.connect(wait_for_all_pools=True)
            w.settle()
            if mode == 'profile-clone':
                # an instance derived from the default profile, carrying the custom values
                upd = {}
                if p_cl:
                    upd['consistency_level'] = d['cl']
                if p_serial:
                    upd['serial_consistency_level'] = d['serial']
                if p_retry:
                    upd['retry_policy'] = custom_retry
                if pextra:
                    upd.update(request_timeout=d['timeout'], row_factory=d['row_factory'], speculative_execution_policy=spec_custom,
                               load_balancing_policy=used.load_balancing_policy)
                ep_arg = session.execution_profile_clone_update('other' if pextra else EXEC_PROFILE_DEFAULT, **upd)
                used = ep_arg
            d['retry'] = used.retry_policy
            d['lbp'] = used.load_balancing_policy
            if not p_retry and type(d['retry']) is not RetryPolicy:
                raise AssertionError('default retry policy is %r' % (d['retry'],))
        if dfetch != 'default':
            session.default_fetch_size = dfetch
        d['fetch'] = session.default_fetch_size
        prepared = session.prepare('SELECT v FROM t WHERE k=0')
        prepared.is_idempotent = True
        return dict(w=w, srv=srv, cluster=cluster, session=session, d=d, ep_arg=ep_arg, prepared=prepared, marks=(MarkRetry,))
    except BaseException:
        w.__exit__()
        raise


def own_cl(s_cl):
    """1: QUORUM; 2: ANY, whose numeric value is 0 - a statement's own level is its own even when it is falsy"""
    from cassandra import ConsistencyLevel as CL
    return CL.ANY if s_cl == 2 else CL.QUORUM


def make_statement(kind, own, env, stmt_retry):
    from cassandra import ConsistencyLevel as CL
    from cassandra.query import SimpleStatement, BoundStatement, BatchStatement
    s_cl, s_serial, s_retry, s_fetch = own
    kw = {}
    if s_cl:
        kw['consistency_level'] = own_cl(s_cl)
    if s_serial:
        kw['serial_consistency_level'] = CL.SERIAL
    if s_retry:
        kw['retry_policy'] = stmt_retry
    if kind == 'batch':
        st = BatchStatement(**kw)
        st.add(SimpleStatement('INSERT INTO t (k, v) VALUES (0, 1)'))
        st.is_idempotent = True
        return st
    if s_fetch != 'unset':
        kw['fetch_size'] = s_fetch
    if kind == 'simple':
        return SimpleStatement(QUERY, is_idempotent=True, **kw)
    if kind == 'bound':
        return BoundStatement(env['prepared'], **kw).bind(())
    if kind == 'bound_inherit':
        ps = copy.copy(env['prepared'])
        for k, v in kw.items():
            setattr(ps, k, v)
        return ps.bind(())
    raise ValueError(kind)


def run_group(group, only=None):
    from cassandra import ConsistencyLevel as CL
    from cassandra.cluster import EXEC_PROFILE_DEFAULT
    from cassandra.policies import RetryPolicy
    part = Part()
    mode, pv, pbits, pextra, dfetch = group
    env = build(group)
    w, srv, session, d = env['w'], env['srv'], env['session'], env['d']

    class StmtRetry(RetryPolicy):
        pass
    stmt_retry = StmtRetry()
    try:
        for kind in KINDS:
            fetches = FETCHES if kind != 'batch' else ['unset']
            for s_cl, s_serial, s_retry, s_fetch in itertools.product((0, 1, 2), (0, 1), (0, 1), fetches):
                for targ in TIMEOUT_ARGS:
                    own = (s_cl, s_serial, s_retry, s_fetch)
                    if only is not None and only != (kind, list(own), targ):
                        continue
                    case = {'group': list(group[:2]) + [list(pbits), pextra, dfetch], 'kind': kind, 'own': list(own), 'timeout_arg': targ}
                    part.count('evaluations')
                    stmt = make_statement(kind, own, env, stmt_retry)
                    kw = {}
                    if targ != 'omitted':
                        kw['timeout'] = targ
                    if env['ep_arg'] is not None:
                        kw['execution_profile'] = env['ep_arg']
                    n0 = len(srv.received)
                    now = w.clock.now
                    try:
                        f = session.execute_async(stmt, **kw)
                    except Exception as e:     # noqa
                        part.violation('C46/raised/%s/%s' % (kind, type(e).__name__), 'execute_async raised %r for %r' % (e, case), case)
                        continue
                    timers = [(getattr(t.callback, '__name__', '?'), round(t.end - now, 6)) for t in w.live_timers()]
                    w.pump()
                    reqs = [(w.conns[vid].endpoint.address, r) for vid, _, r in srv.received[n0:] if r['op'] in ('QUERY', 'EXECUTE', 'BATCH')]
                    # ---- expectation by the precedence rule
                    e_cl = ref.effective(own_cl(s_cl) if s_cl else ref.UNSET, d['cl'])
                    e_serial = ref.effective(CL.SERIAL if s_serial else ref.UNSET, d['serial'])
                    e_retry = ref.effective(stmt_retry if s_retry else ref.UNSET, d['retry'])
                    e_fetch = ref.effective(ref.UNSET if s_fetch == 'unset' else s_fetch, d['fetch'])
                    e_timeout = ref.effective(ref.UNSET if targ == 'omitted' else targ, d['timeout'])
                    where = '%s/%s' % (kind, 'legacy' if mode == 'legacy' else mode)
                    overriding = sum([bool(s_cl), s_serial, s_retry, s_fetch != 'unset', targ != 'omitted'])
                    if overriding and (any(pbits) or pextra):
                        part.mark_nontrivial(repr((group, kind, own, targ)))
                    part.outcome((kind, e_cl, e_serial, ref.wire_page_size(e_fetch) if kind != 'batch' else '-', e_timeout))

                    def bad(option, level, got, want):
                        part.violation('C46/%s/%s/%s' % (option, level, where),
                                       '%s in effect (%s): %r, precedence rule gives %r [statement %s with own options cl=%s serial=%s retry=%s fetch_size=%r, '
                                       'timeout argument %r; defaults (%s): %r; protocol v%d]'
                                       % (option, level, got, want, kind, bool(s_cl), bool(s_serial), bool(s_retry), s_fetch, targ, mode,
                                          dict((k, (v if not callable(v) else getattr(v, '__name__', repr(v)))) for k, v in d.items() if k != 'lbp'), pv), case)
                    # ---- future attributes
                    if f.message.consistency_level != e_cl:
                        bad('consistency_level', 'future', f.message.consistency_level, e_cl)
                    if f.message.serial_consistency_level != e_serial:
                        bad('serial_consistency_level', 'future', f.message.serial_consistency_level, e_serial)
                    if f._retry_policy is not e_retry:
                        bad('retry_policy', 'future', f._retry_policy, e_retry)
                    if kind != 'batch' and f.message.fetch_size != e_fetch:
                        bad('fetch_size', 'future', f.message.fetch_size, e_fetch)
                    if f.timeout != e_timeout:
                        bad('timeout', 'future', f.timeout, e_timeout)
                    if f.row_factory is not d['row_factory']:
                        bad('row_factory', 'future', getattr(f.row_factory, '__name__', f.row_factory), d['row_factory'].__name__)
                    if f._load_balancer is not d['lbp']:
                        bad('load_balancing_policy', 'future', f._load_balancer, d['lbp'])
                    plan = type(f._spec_execution_plan).__name__
                    want_plan = 'ConstantSpeculativeExecutionPlan' if d['spec'] == 'constant' else 'NoSpeculativeExecutionPlan'
                    if plan != want_plan:
                        bad('speculative_execution_policy', 'future', plan, want_plan)
                    # ---- timers armed for the request
                    want_timers = []
                    if d['spec'] == 'constant' and (e_timeout is None or e_timeout > 1.5):
                        want_timers = [('_on_speculative_execute', 1.5)]
                    elif e_timeout is not None:
                        want_timers = [('_on_timeout', round(e_timeout, 6))]
                    if timers != want_timers:
                        bad('timeout', 'timer', timers, want_timers)
                    # ---- the frame
                    if len(reqs) != 1:
                        part.violation('C46/frames/%s' % where, '%d request frames for one execution: %r, case %r' % (len(reqs), reqs, case), case)
                        continue
                    host, r = reqs[0]
                    want_op = {'simple': 'QUERY', 'batch': 'BATCH'}.get(kind, 'EXECUTE')
                    if r['op'] != want_op or r.get('trailing'):
                        part.violation('C46/frames/%s' % where, 'frame %r for %r' % (r, case), case)
                        continue
                    if r.get('consistency') != e_cl:
                        bad('consistency_level', 'wire', r.get('consistency'), e_cl)
                    if not (kind == 'batch' and pv < 3) and r.get('serial_consistency') != e_serial:
                        bad('serial_consistency_level', 'wire', r.get('serial_consistency'), e_serial)
                    if kind != 'batch' and r.get('page_size') != ref.wire_page_size(e_fetch):
                        bad('fetch_size', 'wire', r.get('page_size'), ref.wire_page_size(e_fetch))
                    if host != d['first_host']:
                        bad('load_balancing_policy', 'wire', host, d['first_host'])
                    # ---- the rows, in the shape of the effective row factory
                    if kind != 'batch':
                        try:
                            rows = f.result().current_rows
                        except Exception as e:      # noqa
                            part.violation('C46/result/%s/%s' % (where, type(e).__name__), 'result() raised %r for %r' % (e, case), case)
                            continue
                        shape = 'dict' if rows and isinstance(rows[0], dict) else ('namedtuple' if rows and hasattr(rows[0], '_fields') else repr(rows))
                        want_shape = 'dict' if d['row_factory'].__name__ == 'dict_factory' else 'namedtuple'
                        if shape != want_shape:
                            bad('row_factory', 'rows', shape, want_shape)
                    part.sample(dict(case, frame=dict((k, r.get(k)) for k in ('op', 'consistency', 'serial_consistency', 'page_size')),
                                     timeout=f.timeout, host=host), limit=1)
    finally:
        try:
            env['cluster'].shutdown()
        finally:
            w.__exit__()
    return part


def groups(ctx):
    out = []
    bits = list(itertools.product((0, 1), repeat=3))
    if ctx.quick:
        modes = ['profile-default', 'profile-named', 'legacy']
        for mode in modes:
            for pv in (2, 4, 5):
                for pb in bits:
                    for pextra in (0, 1):
                        out.append((mode, pv, pb, pextra, 'default' if (pb[0] + pextra) % 2 == 0 else 11))
    else:
        for mode in ['profile-default', 'profile-named', 'profile-clone', 'legacy']:
            for pv in (2, 3, 4, 5):
                for pb in bits:
                    for pextra in (0, 1):
                        for dfetch in ('default', 11, None, 0):
                            out.append((mode, pv, pb, pextra, dfetch))
    return out


def run(ctx):
    assert ref.selftest()
    gs = ctx.rotate(groups(ctx))
    for part in ctx.pmap(run_group, gs):
        ctx.merge(part)
    ctx.cov['rule'] = ('groups = configuration mode x protocol version x custom/default bits for consistency, serial consistency, retry policy x custom/default '
                       'profile-only options x Session.default_fetch_size; per group every statement kind x own option combination x timeout argument; non-trivial = '
                       'a case in which the statement (or the call) sets at least one option while at least one default is custom; %d groups' % len(gs))
    ctx.cov['exhaustive'] = True
    ctx.assume('statements are marked idempotent, so that a speculative execution plan is requested from the policy in effect')
    ctx.assume('fetch_size 0 and None both mean "no paging": the frame then carries no page size (a node treats a missing page size and a size <= 0 alike)')
    ctx.assume('a protocol-2 BATCH frame has no field for the serial consistency; it is not demanded on the wire there')
    ctx.assume('the load-balancing policy in effect is observed through ResponseFuture._load_balancer and through the host that received the frame (first host of its plan)')


def replay(ctx, data):
    g = data['group']
    part = run_group((g[0], g[1], tuple(g[2]), g[3], g[4]), only=(data['kind'], list(data['own']), data['timeout_arg']))
    for fp, what, _ in part.violations:
        print(fp, '::', what)
    return bool(part.violations)
