"""C27 CQL identifiers and literals produced by the driver read back unchanged.

Engine N: every string over a small alphabet that contains each lexically interesting character
class (lower/upper letter, digit, underscore, both quote characters, blank, newline, a non-ASCII
letter, an astral code point) up to a length bound, plus every CQL keyword in three letter cases,
is passed through the driver's quoting functions; the result is read by the independent CQL lexer
`vt.spec.cqllex` and must denote the original name / text.  Characters that mean something in a
neighbouring syntax but nothing inside a CQL literal or quoted name (backslash, $, %, ;, -, /, *, NUL,
tab) are enumerated too: one symbol shorter for all functions, at full length for the two value
functions over an alphabet of their own.
"""
import itertools

from vt.core import Part, HarnessError
from vt.spec import cqllex

META = {
    'level': 'exploration',
    'engine': 'N',
    'technique': 'bounded-exhaustive string enumeration, output read back by an independent CQL lexer',
    'text': 'All strings of length <=4 (quick) / <=5 (thorough) over {a,A,z,0,_,",\',space,newline,e-acute,emoji,arabic-indic digit three}, '
            'all strings of length <=3 / <=4 over that alphabet extended by {backslash,$,%,;,-,/,*,NUL,tab} (characters with a meaning in '
            'neighbouring syntaxes: escapes, $$ strings, format strings, statement end, comments) '
            '(cql_quote also with a str subclass whose str() differs from its value, length <=3), '
            'the empty string and every reserved/unreserved CQL keyword (Cassandra and DSE lists) in lower, UPPER and '
            'Capitalised form are given to protect_name, protect_names, maybe_escape_name, escape_name, is_valid_name, '
            'protect_value and cql_quote; protect_value and cql_quote are also given all strings of length <=4 / <=5 over '
            '{a,\',",space,newline,e-acute,backslash,$,%,;,-,/,*,NUL,tab}; '
            'the independent lexer must read each identifier result as exactly one '
            'identifier equal to the input (a bare word only if lower-casing leaves it unchanged and Cassandra does '
            'not reserve it) and each value result as exactly one string literal equal to the input.',
    'note': 'Trusted: vt/spec/cqllex.py (written from Cassandra Lexer.g/Parser.g/ReservedKeywords.java 4.x, self-tested on '
            'fixed vectors).  The words true/false (BOOLEAN tokens, not keywords) are not in the generator.',
    'design_ref': 'C27',
}

ALPHABET = ['a', 'A', 'z', '0', '_', '"', "'", ' ', '\n', 'é', '\U0001F600', '\u0663']   # U+0663: a decimal digit that is not ASCII
# characters that are special in a neighbouring syntax (C/python/SQL escapes, $$ strings, % formatting, statement end,
# -- // /* */ comments, C strings, the lexer's other blank) but ordinary inside a CQL '...' literal or "..." name
FOREIGN = ['\\', '$', '%', ';', '-', '/', '*', '\x00', '\t']
WIDE_ALPHABET = ALPHABET + FOREIGN                      # all functions, one symbol shorter
VALUE_ALPHABET = ['a', "'", '"', ' ', '\n', 'é'] + FOREIGN   # protect_value / cql_quote only, full length


class Loud(str):
    """a str subclass whose str()/format() text differs from its value (as str-based Enums do): the text that
    reaches Cassandra must still be the value"""
    def __str__(self):
        return 'LOUD'

    def __format__(self, spec):
        return 'LOUD'


def words(maxlen, alphabet=ALPHABET):
    out = ['']
    for n in range(1, maxlen + 1):
        for t in itertools.product(alphabet, repeat=n):
            out.append(''.join(t))
    return out


def keyword_inputs():
    import cassandra.metadata as md
    kws = set(cqllex.RESERVED) | set(cqllex.UNRESERVED) | set(md.cql_keywords)    # inputs only, not the oracle
    out = []
    for k in sorted(kws):
        for v in (k.lower(), k.upper(), k.capitalize()):
            out.append(v)
    return out


def classify(s):
    if s == '':
        return 'empty'
    if cqllex.is_reserved(s):
        return 'reserved-keyword'
    if s.lower() in cqllex.UNRESERVED:
        return 'unreserved-keyword'
    if s.endswith('\n') and s[:-1].isascii() and s[:-1].replace('_', 'a').isalnum():
        return 'word-plus-newline'
    if s.isascii() and s.replace('_', 'a').isalnum() and s[0].isalpha():
        return 'plain-lower' if s == s.lower() else 'plain-mixed-case'
    return 'needs-quotes'


def check_ident(part, fn, s, out):
    """out is what the driver wrote for the name s.  Fingerprint = oracle clause + input class (the functions
    delegate to one another, so one defect shows under one fingerprint; the function is in the replay data)."""
    case = {'fn': fn, 'input': s, 'output': out}
    fn_, fn = fn, classify(s)
    if not isinstance(out, str):
        part.violation('C27/ident/not-a-string/%s' % fn, '%s(%r) returned %r' % (fn_, s, out), case)
        return 'bad'
    try:
        toks = cqllex.tokens(out)
    except cqllex.CqlError as e:
        part.violation('C27/ident/does-not-lex/%s' % fn, '%s(%r) = %r does not lex: %s' % (fn_, s, out, e), case)
        return 'bad'
    if len(toks) != 1 or toks[0].kind not in ('ident', 'quoted_name', 'empty_quoted_name'):
        part.violation('C27/ident/not-one-identifier/%s' % fn,
                       '%s(%r) = %r lexes as %r, not as one identifier' % (fn_, s, out, [(t.kind, t.text) for t in toks][:5]), case)
        return 'bad'
    t = toks[0]
    if t.kind == 'ident':
        if cqllex.is_reserved(t.value):
            part.violation('C27/ident/reserved-word-unquoted/%s' % fn,
                           '%s(%r) = %r is a reserved keyword left unquoted' % (fn_, s, out), case)
            return 'bad'
        if t.value != s:
            part.violation('C27/ident/bare-word-reads-back-different/%s' % fn,
                           '%s(%r) = %r is unquoted; Cassandra reads the name %r' % (fn_, s, out, t.value), case)
            return 'bad'
        return 'bare'
    if t.value != s:
        part.violation('C27/ident/quoted-name-reads-back-different/%s' % fn,
                       '%s(%r) = %r; Cassandra reads the name %r' % (fn_, s, out, t.value), case)
        return 'bad'
    return 'quoted'


def check_value(part, fn, s, out):
    case = {'fn': fn, 'input': s, 'output': out}
    if not isinstance(out, str):
        part.violation('C27/value/%s/not-a-string' % fn, '%s(%r) returned %r' % (fn, s, out), case)
        return 'bad'
    try:
        toks = cqllex.tokens(out)
    except cqllex.CqlError as e:
        part.violation('C27/value/%s/does-not-lex' % fn, '%s(%r) = %r does not lex: %s' % (fn, s, out, e), case)
        return 'bad'
    if len(toks) != 1 or toks[0].kind != 'string':
        part.violation('C27/value/%s/not-one-string-literal' % fn,
                       '%s(%r) = %r lexes as %r' % (fn, s, out, [(t.kind, t.text) for t in toks][:5]), case)
        return 'bad'
    if toks[0].value != s:
        part.violation('C27/value/%s/reads-back-different' % fn,
                       '%s(%r) = %r; Cassandra reads the text %r' % (fn, s, out, toks[0].value), case)
        return 'bad'
    return 'string'


def value_class(s):
    if '\\' in s:
        return 'has-backslash'
    if "'" in s:
        return 'has-quote'
    return 'has-foreign' if any(c in s for c in FOREIGN) else 'no-quote'


def run_one(part, s, which=None, values_only=False):
    """values_only: s comes from the value alphabet, only protect_value / cql_quote are asked"""
    import cassandra.metadata as md
    import cassandra.encoder as enc
    cls = classify(s)
    if values_only and not which:
        which = 'VALUES'

    def call(fn, f, *a):
        try:
            return True, f(*a)
        except Exception as e:           # the quoting functions are total on str
            part.violation('C27/raises/%s/%s' % (fn, type(e).__name__), '%s(%r) raised %r' % (fn, s, e),
                           {'fn': fn, 'input': s})
            return False, None

    for fn, f in (('protect_name', md.protect_name), ('maybe_escape_name', md.maybe_escape_name),
                  ('escape_name', md.escape_name)):
        if which and which != fn:
            continue
        part.count('evaluations')
        ok, out = call(fn, f, s)
        if ok:
            r = check_ident(part, fn, s, out)
            part.outcome((fn, cls, r))
    if not which or which == 'protect_names':
        part.count('evaluations')
        ok, out = call('protect_names', md.protect_names, [s, 'a', s])
        if ok:
            if not isinstance(out, list) or len(out) != 3:
                part.violation('C27/ident/protect_names/shape', 'protect_names([%r, "a", %r]) = %r' % (s, s, out),
                               {'fn': 'protect_names', 'input': s})
            else:
                r = [check_ident(part, 'protect_names', x, o) for x, o in zip([s, 'a', s], out)]
                part.outcome(('protect_names', cls, r[0]))
    if not which or which == 'is_valid_name':
        part.count('evaluations')
        ok, out = call('is_valid_name', md.is_valid_name, s)
        if ok and out:
            # "valid" means: may be written bare
            r = check_ident(part, 'is_valid_name', s, s)
            part.outcome(('is_valid_name', cls, r))
        elif ok:
            part.outcome(('is_valid_name', cls, 'says-quote'))
    for fn, f in (('protect_value', md.protect_value), ('cql_quote', enc.cql_quote)):
        if which and which != 'VALUES' and which.split('/')[0] != fn:
            continue
        part.count('evaluations')
        ok, out = call(fn, f, s)
        if ok:
            r = check_value(part, fn, s, out)
            part.outcome((fn, value_class(s), r))
        if fn == 'cql_quote' and len(s) <= 3:
            part.count('evaluations')
            ok, out = call(fn, f, Loud(s))
            if ok:
                r = check_value(part, fn + '/str-subclass', s, out)
                part.outcome((fn, 'str-subclass', r))
    if cls not in ('plain-lower',):
        part.mark_nontrivial(s)


def run_chunk(args):
    items, value_items = args
    part = Part()
    for s in items:
        run_one(part, s)
        if classify(s) in ('word-plus-newline', 'reserved-keyword', 'needs-quotes'):
            part.sample({'input': s}, limit=1)
    for s in value_items:
        part.count('value_only_inputs')
        run_one(part, s, values_only=True)
        if '\\' in s:
            part.sample({'input': s, 'functions': 'protect_value, cql_quote'}, limit=1)
    return part


def run(ctx):
    if not cqllex.selftest():
        raise HarnessError('cqllex selftest failed')
    import cassandra.metadata as md
    maxlen = 4 if ctx.quick else 5
    items = words(maxlen) + words(maxlen - 1, WIDE_ALPHABET) + keyword_inputs()
    items = list(dict.fromkeys(items))
    seen = set(items)
    value_items = [s for s in words(maxlen, VALUE_ALPHABET) if s not in seen]
    n, nv = len(items), len(value_items)
    items = ctx.rotate(items)
    value_items = ctx.rotate(value_items)
    k = max(1, ctx.nproc)
    for part in ctx.pmap(run_chunk, [(items[i::k], value_items[i::k]) for i in range(k) if items[i::k] or value_items[i::k]]):
        ctx.merge(part)
    # keyword list comparison (reported in the evidence, not a verdict: extra reserved words only over-quote)
    drv_res = set(md.cql_keywords_reserved)
    ctx.cov['keyword_lists'] = {
        'reserved_in_cassandra_not_in_driver': sorted(cqllex.RESERVED - drv_res),
        'reserved_in_driver_only (DSE words, harmless over-quoting)': sorted(drv_res - cqllex.RESERVED),
    }
    ctx.cov['rule'] = ('%d inputs = all strings of length <=%d over an %d-symbol alphabet + all strings of length <=%d over that '
                       'alphabet and %d characters of neighbouring syntaxes (backslash $ %% ; - / * NUL tab) + empty + every keyword '
                       'x 3 casings, 7 functions each; %d further inputs = all other strings of length <=%d over the %d-symbol value '
                       'alphabet, protect_value and cql_quote only; non-trivial = input that is not already a plain lower-case word '
                       '(needs quoting, is a keyword, has upper case, or is empty)'
                       % (n, maxlen, len(ALPHABET), maxlen - 1, len(FOREIGN), nv, maxlen, len(VALUE_ALPHABET)))
    ctx.cov['exhaustive'] = True
    ctx.assume('Cassandra lexes and reserves words as in Lexer.g / ReservedKeywords.java of 4.x (62 reserved words); '
               'later additions to the reserved list (if any) are not modelled')
    ctx.assume('the empty name is accepted when written "" (EMPTY_QUOTED_NAME lexes as one name token; Cassandra only '
               'allows it for column names)')
    ctx.assume("left out: the words true/false (any case): Lexer.g lists BOOLEAN before IDENT, so a bare `true` is not an "
               "identifier although it is not in ReservedKeywords; protect_name('true') returns it bare - not verified against a server")
    ctx.assume('names and texts are python str (None and non-str values are outside the statement)')


def replay(ctx, data):
    part = Part()
    run_one(part, data['input'], data.get('fn'))
    for fp, what, _ in part.violations:
        print(fp, '::', what)
    return bool(part.violations)
