"""C44 Heartbeats detect dead idle connections without leaking capacity.

Engine E layer: the real ConnectionHeartbeat.run loop executed in one thread of control over real
handshaken connections held by 1-2 holders (pool-like, control-connection-like; one variant over the
real HostConnection pools and ControlConnection of a real Cluster); every vector of per-round
connection situation x server answer is enumerated for 1-3 connections over 2 rounds (+ the warm-up
round in which every fresh connection has just received its handshake traffic).

Engine S layer: heartbeat thread + reactor thread (delivers the server's answers in an order and at
moments chosen by the explorer, also after the heartbeat wait timed out) + a client thread doing a
request on the same connection + the thread that calls stop(); all schedules within the preemption
bound, scheduling points at every virtual primitive and every source line of the heartbeat code and of
Connection.get_request_id / send_msg / process_msg.
"""
import itertools

from vt import sched, connlib
from vt import c44lib as L
from vt.core import Part

META = {
    'level': 'model_checking',
    'engine': 'E+S',
    'technique': 'exhaustive enumeration of (connection situation x heartbeat answer) histories over heartbeat rounds on the real '
                 'ConnectionHeartbeat.run, plus bounded, line-granular schedule exploration of heartbeat / reactor / client / stop() '
                 'threads',
    'text': 'E: 1-3 real handshaken connections (stream-id space of 4) in a pool-like and/or a control-connection-like holder, and '
            'in one variant two real HostConnection pools + the ControlConnection of a real 3-host Cluster; warm-up round + 2 rounds '
            '(thorough: 3 for 1-2 connections); per round and connection every situation in {idle, request outstanding, answered '
            'request during the interval, pushed EVENT during the interval, at capacity, socket not writable, already defunct, already '
            'closed} x every heartbeat answer in {SUPPORTED, ERROR frame, READY (unexpected), silence beyond the timeout, connection '
            'error while waiting, peer close while waiting} (full alphabet for 1-2 connections, sub-alphabets for 3 connections and the '
            'real cluster), answers delivered oldest-first and newest-first; then stop().  S: 1-2 connections, answers per round in '
            '{SUPPORTED, ERROR, silence, connection error}; the reactor thread delivers each answer at a moment chosen by the explorer '
            '(before the timeout, after it, while the connection is being defuncted); a client thread does a request on the same '
            'connection; stop() after the rounds or at any moment.  Configurations without client: every schedule with <= 1 preemption '
            '(switches at blocking points and the choice "the wait times out now" are free); with client: <= 1 preemption with timeouts '
            'firing only when nothing else can run, and <= 1 non-default scheduling decision with the timeout moments free (thorough: '
            'also <= 1 preemption with everything free, and a capped second preemption/decision).  Oracle per round: an idle open '
            'connection gets exactly one OPTIONS, one that received traffic during the interval gets none (and is idle again next '
            'interval); a heartbeat answered in time leaves in_flight and the free stream ids exactly as before and the owner is not '
            'notified; a failed / unanswered heartbeat leaves the connection defunct and owner.return_connection(conn) called exactly '
            'once in that round; in_flight equals the number of really outstanding requests and free + outstanding ids are exactly the '
            'ids handed out, in every round and at the end; in_flight never leaves [0, max] on an open connection; no deadlock, no '
            'exception escaping a thread, no round aborted by a swallowed exception; in the E layer a round starts at most '
            'interval + timeout (virtual) seconds after the previous one; stop() ends the thread.',
    'note': 'ConnectionHeartbeat is re-based on the virtual Thread class (same function objects); Event.wait with a negative timeout '
            'returns at once as threading.Event does.  Connections that cannot be sent a heartbeat (at capacity, socket not writable) '
            'may either fail (defunct + owner notified once) or be left alone with unchanged capacity.  Notification of owners about '
            'connections that were already defunct/closed before the round is recorded, not demanded.  A SUPPORTED whose delivery '
            'overlaps the end of the wait may count as in time or late; the idle/busy verdict is demanded only when the traffic fell '
            'entirely inside / entirely outside the interval.  After the last judged round the interval wait does not time out again '
            '(stop() is called first).  Protocol v4 connections and HostConnection pools only (no legacy v1/v2 HostConnectionPool).',
    'design_ref': 'C44',
}

# ---------------------------------------------------------------------------- E layer: vectors
ALPHA_FULL = [(s, r) for s in L.SEND_STATES for r in L.REPLIES] + \
             [(s, None) for s in L.QUIET_STATES + L.CANT_SEND + L.DEAD_STATES]
ALPHA_SMALL = [('idle', 'supported'), ('idle', 'silence'), ('idle', 'error'), ('idle', 'conn_error'),
               ('pending', 'supported'), ('busy', None), ('defunct', None)]
ALPHA_TINY = [('idle', 'supported'), ('idle', 'silence'), ('idle', 'error'), ('busy', None), ('defunct', None)]
ALPHA_MID = ALPHA_SMALL + [('idle', 'peer_close'), ('pending', 'silence'), ('event', None), ('full', None), ('closed', None)]


def _h(x):
    import hashlib
    return hashlib.blake2b(repr(x).encode(), digest_size=8).hexdigest()


def survives(item):
    """does a connection in this situation stay open after the round (by the property's statement)?  Only used to
    avoid enumerating rounds after the death of a connection more than once."""
    s, r = item
    return s in L.QUIET_STATES or (s in L.SEND_STATES and r == 'supported')


def sequences(alpha, nrounds):
    """all per-connection round sequences; after the round in which the connection dies the rest is fixed"""
    out = []

    def rec(prefix):
        if len(prefix) == nrounds:
            out.append(prefix)
            return
        for it in alpha:
            if survives(it):
                rec(prefix + [it])
            else:
                out.append(prefix + [it] + [('idle', 'supported')] * (nrounds - len(prefix) - 1))
    rec([])
    return out


def e_vectors(layout, alpha, nrounds, lifos=(False,)):
    seqs = sequences(alpha, nrounds)
    for combo in itertools.product(seqs, repeat=len(layout)):
        for lifo in lifos:
            yield {'conns': [{'holder': h, 'control': h == 1, 'rounds': [list(it) for it in seq]}
                             for h, seq in zip(layout, combo)], 'lifo': lifo}


def e_plan(ctx):
    """[(label, kind, layout, alphabet, rounds, lifos)]"""
    plan = [('1conn-pool', 'fake', [0], ALPHA_FULL, 2, (False,)),
            ('1conn-control', 'fake', [1], ALPHA_FULL, 2, (False,)),
            ('2conn-pool+control', 'fake', [0, 1], ALPHA_FULL, 2, (False,)),
            ('2conn-pool+control-newest-first', 'fake', [0, 1], ALPHA_MID, 2, (True,)),
            ('2conn-one-pool', 'fake', [0, 0], ALPHA_SMALL, 2, (False, True)),
            ('real-cluster', 'real', [0, 1, 2], ALPHA_TINY, 2, (False,)),
            ('3conn', 'fake', [0, 0, 1], ALPHA_TINY if ctx.quick else ALPHA_SMALL, 2, (False,))]
    if ctx.thorough:
        plan += [('real-cluster-small', 'real', [0, 1, 2], ALPHA_SMALL, 2, (False,)),
                 ('1conn-pool-3rounds', 'fake', [0], ALPHA_FULL, 3, (False,)),
                 ('2conn-pool+control-3rounds', 'fake', [0, 1], ALPHA_MID, 3, (False, True)),
                 ('2conn-pool+control-full-newest-first', 'fake', [0, 1], ALPHA_FULL, 2, (True,)),
                 ('2conn-one-pool-full', 'fake', [0, 0], ALPHA_FULL, 2, (False, True)),
                 ('3conn-mid', 'fake', [0, 0, 1], ALPHA_MID, 2, (False, True)),
                 ('real-cluster-mid', 'real', [0, 1, 2], ALPHA_SMALL + [('event', None), ('full', None)], 2, (False,))]
    return plan


def e_judge(kind, params, part):
    x = (L.run_real if kind == 'real' else L.run_history)(params)
    part.count('executions')
    part.count('E_executions')
    part.count('evaluations')
    part.count('transitions', x.round + 1)              # heartbeat rounds (+ the stop) executed
    part.count('states', len(x.facts))                  # (round, connection) observation points judged
    for tail, text in x.problems:
        part.violation('C44/' + tail, '%s ; vector %r' % (text, params), {'layer': 'E', 'kind': kind, 'params': params})
    for f in x.flags:
        part.count('E_with_' + f)
    facts = tuple(sorted(set(str(f) for _, _, f in x.facts)))
    part.outcome(facts)
    if x.flags - {'fresh'}:
        part.mark_nontrivial(_h(params))
    return x


_FROZEN = [False]


def _freeze_once():
    """long-lived pool worker: keep the inherited heap out of every later collection"""
    if not _FROZEN[0]:
        import gc
        gc.collect()
        gc.freeze()
        _FROZEN[0] = True


def e_chunk(args):
    kind, vecs, want_sample = args
    part = Part()
    _freeze_once()
    import gc
    was = gc.isenabled()
    gc.disable()
    try:
        return _e_chunk(kind, vecs, part, want_sample)
    finally:
        gc.collect()
        if was:
            gc.enable()


def _e_chunk(kind, vecs, part, want_sample):
    for params in vecs:
        x = e_judge(kind, params, part)
        if want_sample and len(part.samples) < 1 and 'timeout_failure' in x.flags and (len(params['conns']) == 1 or 'failure' in x.flags):
            part.sample({'layer': 'E', 'kind': kind, 'vector': params, 'observed': x.facts,
                         'owner_notified(round,conn,holder)': x.returned})
    return part


# ---------------------------------------------------------------------------- S layer
def s_sequences(nrounds):
    out = []
    for combo in itertools.product(L.S_REPLIES, repeat=nrounds):
        # after the first failing answer the rest never matters: keep one representative
        fail = next((i for i, r in enumerate(combo) if r != 'supported'), None)
        if fail is not None and any(r != 'supported' for r in combo[fail + 1:]):
            continue
        out.append(list(combo))
    return out


def s_configs(ctx):
    """'cost': 'preemptions' = CHESS preemption bounding (every switch at a blocking point is free);
    'deviations' = every non-default scheduling decision counts, except what happens while the heartbeat thread
    waits for an answer (answer first / client first / the wait times out) and the reactor's delivery order."""
    cfgs = []
    one = s_sequences(2)
    P, D = 'preemptions', 'deviations'
    for seq in one:
        # answer in time / late / never, no client
        cfgs.append({'replies': [seq], 'layout': [0], 'client': None, 'stop': 'after', 'cost': P})
        # client request on the same connection; the wait for the answer times out only when nothing else can run
        cfgs.append({'replies': [seq], 'layout': [0], 'client': {'conn': 0, 'when': 1}, 'stop': 'after', 'cost': P, 'timeouts_last': True})
        # client request and answers arriving late
        cfgs.append({'replies': [seq], 'layout': [0], 'client': {'conn': 0, 'when': 1}, 'stop': 'after', 'cost': D})
    cfgs.append({'replies': [['supported', 'supported']], 'layout': [1], 'client': {'conn': 0, 'when': 2}, 'stop': 'after', 'cost': D})
    cfgs.append({'replies': [['supported', 'silence']], 'layout': [0], 'client': {'conn': 0, 'when': 2}, 'stop': 'after', 'cost': D})
    # two connections sharing one wait budget: who is silent / late / failing first
    pairs = [(['silence'], ['supported']), (['supported'], ['silence']), (['error'], ['supported']),
             (['supported'], ['conn_error']), (['supported'], ['supported'])]
    for a, b in pairs:
        cfgs.append({'replies': [a, b], 'layout': [0, 1], 'client': None, 'stop': 'after', 'cost': P if ctx.thorough else D})
    # stop() at any moment
    cfgs.append({'replies': [['supported']], 'layout': [0], 'client': None, 'stop': 'any', 'cost': P})
    cfgs.append({'replies': [['silence', 'supported']], 'layout': [0], 'client': None, 'stop': 'any', 'cost': P})
    if ctx.thorough:
        cfgs.append({'replies': [['supported'], ['supported']], 'layout': [0, 0], 'client': {'conn': 1, 'when': 1}, 'stop': 'after', 'cost': D})
        cfgs.append({'replies': [['supported', 'supported']], 'layout': [0], 'client': None, 'stop': 'any', 'cost': P})
        # one round with a client request, every switch at a blocking point and every timeout moment free (the largest trees)
        for r in L.S_REPLIES:
            cfgs.append({'replies': [[r]], 'layout': [0], 'client': {'conn': 0, 'when': 1}, 'stop': 'after', 'cost': P, 'b1': True})
        cfgs.append({'replies': [['supported'], ['supported']], 'layout': [0, 0], 'client': {'conn': 1, 'when': 1}, 'stop': 'after',
                     'cost': P, 'timeouts_last': True, 'b1': True})
        for seq in one:
            cfgs.append({'replies': [seq], 'layout': [0], 'client': {'conn': 0, 'when': 2}, 'stop': 'after', 'cost': D, 'b1': True})
        for a, b in itertools.product(L.S_REPLIES, repeat=2):
            cfgs.append({'replies': [[a], [b]], 'layout': [0, 1], 'client': {'conn': 0, 'when': 1}, 'stop': 'after', 'cost': D, 'b1': True})
        cfgs.append({'replies': [['supported', 'supported']], 'layout': [0], 'client': {'conn': 0, 'when': 1}, 'stop': 'any', 'cost': D, 'b1': True})
    seen, out = set(), []
    for c in cfgs:
        if repr(c) not in seen:
            seen.add(repr(c))
            out.append(c)
    return out


@sched.gc_quiet
def s_harness(params, prefix, part):
    x = L.run_schedule(params, prefix)
    s = x.s
    data = {'layer': 'S', 'params': params, 'prefix': s.choices()}
    for tail, text in x.problems:
        part.violation('C44/' + tail, '%s ; config %r' % (text, params), data)
    for f in x.flags:
        part.count('S_with_' + f)
    part.count('evaluations')
    part.count('S_executions')
    part.count('states', len(x.heartbeats) + 1)
    part.outcome(('S', tuple(sorted((h['kind'], str(h['wait'])) for h in x.heartbeats)), x.client_state))
    if any(p.chosen for p in s.trace) and (x.flags - {'fresh'}):
        part.mark_nontrivial(_h((params, s.choices())))
    if any(p.chosen for p in s.trace) and ('late_supported' in x.flags or 'client_overlaps_heartbeat' in x.flags):
        ch = s.choices()
        part.sample({'layer': 'S', 'config': params, 'choice_points': len(ch), 'non_default_choices(index,value)': [(i, c) for i, c in enumerate(ch) if c],
                     'flags': sorted(x.flags), 'heartbeats(round,conn,answer,answered_in_time)': [(h['round'], h['conn'], h['kind'], h['wait']) for h in x.heartbeats],
                     'events': [list(ev) for ev in x.log]}, limit=1)
    return s


def cfg_name(c):
    cl = c.get('client')
    return '%s|%s|%s|%s|%s%s' % ('+'.join(','.join(r) for r in c['replies']), ''.join('pc'[h] for h in c['layout']),
                               'client c%d from round %d' % (cl['conn'], cl['when']) if cl else 'no client',
                               'stop ' + c.get('stop', 'after'), c['cost'], '|timeouts last' if c.get('timeouts_last') else '')


def s_explore(params, prefixes, bound, cap, part):
    """all executions below the given choice prefixes (disjoint subtrees of one configuration's choice tree)"""
    frontier = list(prefixes)
    n = 0
    kids_of_root = None
    while frontier:
        nxt = []
        for prefix in frontier:
            if cap is not None and n >= cap:
                part.cap('S config %r: cap of %d executions per subtree batch reached at bound %d' % (params, cap, bound))
                return n
            s = s_harness(params, prefix, part)
            n += 1
            part.count('cfg:' + cfg_name(params))
            part.count('executions')
            part.count('transitions', s.steps)
            nxt.extend(k for k, _ in sched.children(s.trace, len(prefix), bound))
        frontier = nxt
    return n


def s_root(args):
    """run the default schedule of a configuration; hand back its first-level alternatives"""
    params, bound = args
    part = Part()
    _freeze_once()
    s = s_harness(params, [], part)
    part.count('cfg:' + cfg_name(params))
    part.count('executions')
    part.count('transitions', s.steps)
    return part, [k for k, _ in sched.children(s.trace, 0, bound)]


def s_chunk(args):
    params, prefixes, bound, cap = args
    part = Part()
    _freeze_once()
    s_explore(params, prefixes, bound, cap, part)
    return part


# ---------------------------------------------------------------------------- run / replay
def run(ctx):
    import os
    connlib.quiet_driver_logs()
    L.selftest()
    layers = os.environ.get('VERIF_C44_LAYERS', 'E,S').split(',')      # development aid; the default runs both
    ctx.cov['harnesses'] = {}
    # E layer
    jobs = []
    if 'E' in layers:
        for n, (label, kind, layout, alpha, nrounds, lifos) in enumerate(e_plan(ctx)):
            vecs = ctx.rotate(list(e_vectors(layout, alpha, nrounds, lifos)))
            ctx.cov['harnesses']['E:' + label] = {'vectors': len(vecs), 'rounds': nrounds, 'connections': len(layout),
                                                  'alphabet': len(alpha), 'holders': kind}
            size = 400 if kind == 'fake' else 100
            jobs += [(kind, vecs[i:i + size], i == 0 and n in (0, 5)) for i in range(0, len(vecs), size)]
    t0 = ctx.elapsed()
    for part in ctx.pmap(e_chunk, jobs):
        ctx.merge(part)
    ctx.cov['wall_s_E_layer'] = round(ctx.elapsed() - t0, 1)
    # S layer: roots first, then the subtrees below every first-level alternative spread over the workers.
    # Bound 1 is always explored completely; the thorough tier adds a (capped) bound-2 pass over the smaller trees.
    cfgs = ctx.rotate(s_configs(ctx)) if 'S' in layers else []
    passes = [(cfgs, 1, None)]
    if ctx.thorough:
        passes.append(([c for c in cfgs if not c.get('b1')], 2, 800))     # cap: executions per batch of 8 subtrees
    info = ctx.cov['harnesses']['S'] = {'configs': len(cfgs),
                                        'preemption_bounded_configs': sum(1 for c in cfgs if c['cost'] == 'preemptions'),
                                        'deviation_bounded_configs': sum(1 for c in cfgs if c['cost'] == 'deviations'), 'passes': []}
    bound = 0
    for pcfgs, bound, cap in passes:
        before = ctx.counters.get('executions', 0)
        t1 = ctx.elapsed()
        roots = ctx.pmap(s_root, [(c, bound) for c in pcfgs])
        jobs = []
        for c, (part, kids) in zip(pcfgs, roots):
            ctx.merge(part)
            jobs += [(c, kids[i:i + 8], bound, cap) for i in range(0, len(kids), 8)]
        for part in ctx.pmap(s_chunk, jobs):
            ctx.merge(part)
        info['passes'].append({'bound': bound, 'configs': len(pcfgs), 'subtree_batches': len(jobs), 'cap_per_batch': cap,
                               'wall_s': round(ctx.elapsed() - t1, 1), 'executions': ctx.counters.get('executions', 0) - before})
    info['executions_per_config'] = {k[4:]: v for k, v in sorted(ctx.counters.items()) if k.startswith('cfg:')}
    for k in [k for k in ctx.counters if k.startswith('cfg:')]:
        del ctx.counters[k]
    if ctx.caps_hit:
        ctx.assume('bound-2 pass of the S layer is capped per subtree batch; the bound-1 pass is complete for every configuration')
    if layers != ['E', 'S']:
        ctx.cap('development run restricted to layers %r' % (layers,))
    ctx.cov['preemption_bound'] = bound
    ctx.cov['rule'] = ('E: one execution per (situation x answer) vector, states = (round, connection) observation points judged, '
                       'transitions = heartbeat rounds executed; S: one execution per schedule within the preemption bound, transitions '
                       '= scheduling steps.  Non-trivial = a heartbeat failed / timed out / could not be sent / overlapped a client '
                       'request (E: vector contains it; S: additionally a non-default scheduling choice was taken).  Counters with_* '
                       'count executions with a timeout, a failure, a busy connection, a client request overlapping the heartbeat, a '
                       'SUPPORTED delivered after the timeout.')
    ctx.assume('line-level atomicity of CPython statements (DESIGN.md 3.1)')
    ctx.assume('holders keep listing a connection after it was returned defunct (fake holders); the real-cluster variant replaces it as the driver does')
    ctx.assume('a reactor never delivers bytes to a connection object after close()/defunct() returned (VConnection.feed), but may be in the middle of delivering')


def replay(ctx, data):
    connlib.quiet_driver_logs()
    part = Part()
    if data.get('layer') == 'S':
        s_harness(data['params'], data['prefix'], part)
    else:
        e_judge(data.get('kind', 'fake'), data['params'], part)
    for fp, what, _ in part.violations:
        print(fp, '::', what)
    return bool(part.violations)
