"""C38 cqlengine routing keys equal the partition key Cassandra hashes.

Engine N.  Models are generated with 1-3 partition-key columns over every key-capable cqlengine
column class (plus a clustering column, a static column and a data column of *other* types);
every statement kind cqlengine routes (INSERT via create, instance UPDATE / DELETE, query-set
SELECT / COUNT / UPDATE / DELETE) is executed against the fake session and the
`SimpleStatement.routing_key` it carries is compared with the independent composite encoding
(`vt.spec.minicql.routing_key`).  Statements that do not fix the whole partition key by
equality must carry no routing key.
"""
import datetime
import decimal
import itertools
import uuid

from vt.core import Part, HarnessError

META = {
    'level': 'exploration',
    'engine': 'N',
    'technique': 'bounded-exhaustive enumeration of generated models x key values x statement kinds vs independent key encoding',
    'text': 'For every model with 1, 2 or 3 partition-key columns drawn from the 18 key-capable cqlengine column '
            'classes (all singles and ordered pairs; triples over a reduced class list in quick, all classes in thorough), '
            'boundary key values per class, and each routed statement kind (create/INSERT, instance update/delete, '
            'query-set select/count/update/delete with the filter kwargs in declaration and in reversed order), the routing_key of the '
            'SimpleStatement handed to the session is compared byte for byte with an independently written encoding '
            '(single component raw; composite = 2-byte length + bytes + 0x00 per component); statements fixing only '
            'part of the key, or fixing a component with IN / a range operator, must carry none.',
    'note': 'The session is a fake that records execute() calls; value encodings of the reference are written from the '
            'protocol specification (vt/spec/minicql.py, self-tested on the vectors of tests/unit/test_marshalling.py). '
            'Batches are sent as plain strings by cqlengine and carry no routing key; they are outside the statement.',
    'design_ref': 'C38',
}

U1 = uuid.UUID('00000000-0000-0000-0000-000000000000')
U2 = uuid.UUID('ffffffff-ffff-ffff-ffff-ffffffffffff')
U3 = uuid.UUID('12345678-1234-5678-1234-567812345678')
T1 = uuid.UUID('00000000-0000-1000-8080-808080808080')
T2 = uuid.UUID('ffffffff-ffff-1fff-bf7f-7f7f7f7f7f7f')

# column class name -> (cql type for the reference, boundary values)
KEY_TYPES = [
    ('Integer', 'int', [0, -1, 2147483647, -2147483648]),
    ('Text', 'text', ['', 'a', 'h\xe9€', 'x' * 300]),
    ('BigInt', 'bigint', [0, -1, 9223372036854775807, -9223372036854775808]),
    ('UUID', 'uuid', [U1, U2, U3]),
    ('Boolean', 'boolean', [False, True]),
    ('Blob', 'blob', [b'', b'\x00', b'\xff\x00\x80', b'\x01' * 65535]),
    ('Ascii', 'ascii', ['', 'abc', '\x00\x7f']),
    ('TinyInt', 'tinyint', [0, 127, -128]),
    ('SmallInt', 'smallint', [0, 32767, -32768]),
    ('VarInt', 'varint', [0, -1, 127, 128, -129, 1 << 70, -(1 << 70)]),
    ('DateTime', 'timestamp', [datetime.datetime(1970, 1, 1), datetime.datetime(1969, 12, 31, 23, 59, 59),
                               datetime.datetime(2024, 2, 29, 12, 0, 1), datetime.datetime(1, 1, 1), datetime.datetime(9999, 12, 31, 23, 59, 59)]),
    ('Date', 'date', [datetime.date(1970, 1, 1), datetime.date(1969, 12, 31), datetime.date(1, 1, 1), datetime.date(9999, 12, 31)]),
    ('Time', 'time', [datetime.time(0, 0, 0), datetime.time(23, 59, 59, 999999), datetime.time(1, 2, 3, 4)]),
    ('TimeUUID', 'timeuuid', [T1, T2]),
    ('Float', 'float', [0.0, -0.0, 1.5, float('inf'), -3.4028234663852886e+38]),
    ('Double', 'double', [0.0, -0.0, 1e308, float('-inf'), 5e-324]),
    ('Decimal', 'decimal', [decimal.Decimal('0'), decimal.Decimal('-1.50'), decimal.Decimal('1E+30'), decimal.Decimal('0.000000000000000000001')]),
    ('Inet', 'inet', ['0.0.0.0', '255.255.255.255', '::1', '2001:db8::ff00:42:8329']),
]
TYPE_BY_NAME = dict((n, (c, v)) for n, c, v in KEY_TYPES)
REDUCED = ['Integer', 'Text', 'UUID', 'Blob', 'VarInt']

_world = {}


def world():
    if not _world:
        from vt import cqle
        from cassandra.cqlengine import columns
        from cassandra.cqlengine.models import Model

        def handler(call):
            if call.query.startswith('SELECT COUNT'):
                return [{'count': 0}]
            return []
        _world['session'] = cqle.install_fake(handler)
        _world['columns'] = columns
        _world['Model'] = Model
    return _world


def make_model(names, serial, db_field=False, compute=True):
    w = world()
    columns, Model = w['columns'], w['Model']
    attrs = {'__table_name__': 't%d' % serial, '__compute_routing_key__': compute}
    for i, n in enumerate(names):
        kw = {'partition_key': True}
        if db_field and i == 0:
            kw['db_field'] = 'renamed_k0'
        attrs['k%d' % i] = getattr(columns, n)(**kw)
    # non-key columns get types that differ from every key type position-wise
    attrs['c'] = columns.Text(primary_key=True) if names[0] != 'Text' else columns.Integer(primary_key=True)
    attrs['st'] = columns.BigInt(static=True) if names[0] != 'BigInt' else columns.Text(static=True)
    attrs['v'] = columns.Integer()
    return type('Gen%d' % serial, (Model,), attrs)


def picks(names, mode):
    """Value tuples for the key columns: 'all' = full product, otherwise the i-th value of every
    column for i in range(max len) (cyclic), which still uses every boundary value of every class."""
    lists = [TYPE_BY_NAME[n][1] for n in names]
    if mode == 'all':
        return list(itertools.product(*lists))
    n = max(len(l) for l in lists)
    if mode == 'cyclic3':
        n = min(n, 3)
    out = []
    for i in range(n):
        out.append(tuple(l[(i + j) % len(l)] for j, l in enumerate(lists)))
    return out


def run_case(part, names, values, serial, db_field=False, compute=True):
    from vt.spec import minicql
    w = world()
    s = w['session']
    M = make_model(names, serial, db_field, compute)
    cql_types = [TYPE_BY_NAME[n][0] for n in names]
    expected = minicql.routing_key(cql_types, values) if compute else None
    keykw = dict(('k%d' % i, v) for i, v in enumerate(values))
    ckval = 'c1' if names[0] != 'Text' else 7
    stval = 9 if names[0] != 'BigInt' else 's'
    case = {'types': list(names), 'values': [repr(v) for v in values], 'db_field': db_field, 'compute': compute}
    s.take()

    def check(label, want_present, calls=None):
        calls = s.take() if calls is None else calls
        if not calls:
            raise HarnessError('no statement was executed for %s %r' % (label, case))
        for call in calls:
            part.count('evaluations')
            kind = call.query.split()[0]
            got = call.routing_key
            if want_present:
                if got != expected:
                    why = 'missing' if got is None else 'wrong'
                    part.violation('C38/%s/%s/%s' % (why, label, 'composite' if len(names) > 1 else 'single'),
                                   '%s %r: routing_key %r, Cassandra partition key bytes %r, key types %r values %r' % (
                                       label, call.query[:120], got, expected, names, values),
                                   dict(case, label=label))
                else:
                    part.mark_nontrivial('%s|%s' % (','.join(names), label))
            else:
                if got is not None:
                    part.violation('C38/unexpected/%s' % label,
                                   '%s %r carries routing_key %r although the partition key is not fixed (%r)' % (
                                       label, call.query[:120], got, case), dict(case, label=label))
            part.outcome((label, kind, 'rk' if got is not None else 'none'))
        return calls

    present = compute

    def step(label, want_present, fn):
        """Run one cqlengine call; an exception out of a legitimate call is a failure of the routing-key
        computation (nothing else can fail against the fake session)."""
        try:
            fn()
        except HarnessError:
            raise
        except Exception as e:
            s.take()
            part.count('evaluations')
            part.violation('C38/raises/%s/%s' % (label, type(e).__name__),
                           '%s raised %r for key types %r values %r' % (label, e, names, values), dict(case, label=label))
            return False
        check(label, want_present)
        return True

    holder = {}

    def do_create():
        holder['inst'] = M.create(c=ckval, v=1, **keykw)
    if not step('create', present, do_create):
        return
    inst = holder['inst']
    step('inst-update', present, lambda: inst.update(v=2))

    def do_save():
        inst.st = stval
        inst.v = None
        inst.save()
    step('inst-save', present, do_save)
    step('inst-delete', present, lambda: inst.delete())
    orders = [list(keykw.items())]
    if len(names) > 1:
        orders.append(list(reversed(list(keykw.items()))))
    for oi, items in enumerate(orders):
        tag = '' if oi == 0 else '-rev'
        step('qs-select' + tag, present, lambda: list(M.objects.filter(**dict(items))))
        step('qs-count' + tag, present, lambda: M.objects.filter(**dict(items)).count())
        step('qs-update' + tag, present, lambda: M.objects.filter(**dict(items)).filter(c=ckval).update(v=3))
        step('qs-delete' + tag, present, lambda: M.objects.filter(**dict(items)).delete())

    def chained():
        q = M.objects
        for k, v in keykw.items():
            q = q.filter(**{k: v})
        list(q.filter(c=ckval))
    step('qs-select-chained', present, chained)
    # key not fully fixed
    if len(names) > 1:
        for drop in range(len(names)):
            kw = dict((k, v) for i, (k, v) in enumerate(keykw.items()) if i != drop)
            step('partial-select', False, lambda: list(M.objects.filter(**kw).allow_filtering()))
            step('partial-update', False, lambda: M.objects.filter(**kw).filter(c=ckval).update(v=4))
    kw1 = dict(keykw)
    kw1['k0__in'] = [kw1.pop('k0')]
    step('in-select', False, lambda: list(M.objects.filter(**kw1).allow_filtering()))
    if names[0] not in ('Boolean',):
        kw2 = dict(keykw)
        kw2['k0__gte'] = kw2.pop('k0')
        step('range-select', False, lambda: list(M.objects.filter(**kw2).allow_filtering()))
    step('no-key-select', False, lambda: list(M.objects.filter(c=ckval).allow_filtering()))
    part.sample({'case': case, 'expected_routing_key': expected}, limit=2)


def run_chunk(args):
    part = Part()
    for serial, names, values, db_field, compute in args:
        run_case(part, names, values, serial, db_field, compute)
    return part


def cases(ctx):
    names = [n for n, _, _ in KEY_TYPES]
    out = []
    for n in names:
        for vals in picks((n,), 'all'):
            out.append(((n,), vals, False, True))
    for a in names:
        for b in names:
            for vals in picks((a, b), 'cyclic3' if ctx.quick else 'all'):
                out.append(((a, b), vals, False, True))
    tri = REDUCED if ctx.quick else names
    for a in tri:
        for b in tri:
            for c in tri:
                for vals in picks((a, b, c), 'cyclic3' if ctx.quick else 'cyclic'):
                    out.append(((a, b, c), vals, False, True))
    # renamed db_field on the first key column; routing disabled by the model
    for a in names:
        out.append(((a, 'Integer'), (TYPE_BY_NAME[a][1][-1], 5), True, True))
        out.append(((a,), (TYPE_BY_NAME[a][1][0],), False, False))
    return out


def run(ctx):
    from vt.spec import minicql
    minicql.selftest()
    cs = cases(ctx)
    items = [(i, n, v, d, c) for i, (n, v, d, c) in enumerate(cs)]
    items = ctx.rotate(items)
    nchunks = ctx.nproc * 4
    chunks = [items[i::nchunks] for i in range(nchunks)]
    for part in ctx.pmap(run_chunk, [c for c in chunks if c]):
        ctx.merge(part)
    ctx.count('models', len(cs))
    ctx.cov['rule'] = ('%d generated (model, key values) cases: every single key class x every boundary value; every ordered pair of the '
                       '18 classes (%s value tuples: cyclic = i-th boundary value of each class for every i, cyclic3 = the first three of those); triples over %s; plus db_field-renamed first key and __compute_routing_key__=False '
                       'per class; each case runs 4 instance statements, 4-8 query-set statements with a full key and the partial / IN / range '
                       '/ no-key selects; an evaluation = one executed statement; non-trivial = (key classes, statement kind) whose routing key '
                       'was present and equal to the reference' % (len(cs), 'cyclic3' if ctx.quick else 'all',
                                                                'the reduced list %r' % REDUCED if ctx.quick else 'all 18 classes'))
    ctx.cov['exhaustive'] = True
    ctx.assume('Cassandra hashes: single-component key = the value bytes; composite = per component 2-byte big-endian length, bytes, 0x00')
    ctx.assume('DateTime key values are whole seconds (the millisecond conversion of DateTime.to_database is C36\'s subject)')
    ctx.assume('a statement that restricts a key component with IN or a range does not "fix" the partition key: no routing key is required or allowed')
    ctx.assume('BatchQuery sends a plain string without routing key; batches are outside C38')
    ctx.assume('frozen collection / tuple / UDT partition keys are not generated')


def replay(ctx, data):
    part = Part()
    names = tuple(data['types'])
    for vals in picks(names, 'all'):
        if [repr(v) for v in vals] == data['values']:
            run_case(part, names, vals, 0, data.get('db_field', False), data.get('compute', True))
            break
    else:
        raise HarnessError('recorded key values not found in the generator: %r' % (data,))
    for fp, what, _ in part.violations:
        print(fp, '::', what)
    return bool(part.violations)
