"""C38 cqlengine routing keys equal the partition key Cassandra hashes.

Engine N.  Three layers.

Direct models: generated with 1-3 partition-key columns over every key-capable cqlengine column
class (plus a clustering column, a static column and a data column of *other* types); every
statement kind cqlengine routes (INSERT via create, instance UPDATE / DELETE, query-set SELECT /
COUNT / UPDATE / DELETE) is executed against the fake session and the
`SimpleStatement.routing_key` it carries is compared with the independent composite encoding
(`vt.spec.minicql.routing_key`).  Statements that do not fix the whole partition key by equality
must carry no routing key.

Model families: class-definition histories in which the key columns are inherited (abstract key
mixins composed in every order, abstract models composing mixins, an abstract base with a
two-column key, own key columns added by the subclass, inherited key columns overridden with
another type, a concrete parent model, an abstract base with a promoted primary key, polymorphic
children).  cqlengine shares the column objects of a base with all subclasses, so the histories are
every ordered pair of model shapes and the whole shape list in rotated orders; the same statements
are run on *every* model of the family after the last class has been defined, against the
partition key derived independently from the documented inheritance rule.

Value histories: statements executed one after the other on one model (no model state is reset in
between) with key values that are related in the ways that matter for anything kept between two
statements: equal and hash-equal in python but another partition for Cassandra (decimal 1.0 / 1.00 / 1,
0.0 / -0.0), different in python but the same partition (1 / True / 1.0 in an int column, uuid / its
text, naive / aware datetime ...), the same value again, unrelated values.  Every ordered pair of the
per-class value table on single-key and composite models; every statement of every step is judged.
"""
import datetime
import decimal
import itertools
import uuid

from vt.core import Part, HarnessError

META = {
    'level': 'exploration',
    'engine': 'N',
    'technique': 'bounded-exhaustive enumeration of generated models, model-definition histories and key-value statement histories x key values x statement kinds vs independent key encoding',
    'text': 'For every model with 1, 2 or 3 partition-key columns drawn from the 18 key-capable cqlengine column '
            'classes (all singles and ordered pairs; triples over a reduced class list in quick, all classes in thorough), '
            'boundary key values per class, and each routed statement kind (create/INSERT, instance update/delete, '
            'query-set select/count/update/delete with the filter kwargs in declaration and in reversed order), the routing_key of the '
            'SimpleStatement handed to the session is compared byte for byte with an independently written encoding '
            '(single component raw; composite = 2-byte length + bytes + 0x00 per component); statements fixing only '
            'part of the key, or fixing a component with IN / a range operator, must carry none.  The same is checked for '
            'models that inherit their key columns: 45 model shapes (every ordered selection of 1-3 abstract one-column key mixins, '
            'with and without an own key column; abstract models composing two mixins; an abstract base with a two-column key; '
            'subclasses overriding an inherited key column with another class, alone and next to an own key column; children of a '
            'concrete parent model; an abstract base whose primary key is promoted; polymorphic children) are defined in families that '
            'share the base classes, for every ordered pair of shapes and for the whole shape list in rotated orders forwards and '
            'backwards, under 2 (quick) / 21 (thorough) assignments of column classes to the inherited columns; every concrete model '
            'of a family, not only the last one, is exercised after the whole family has been defined.  Statement histories on one '
            'model: for each of the 18 classes a table of 2-12 key values containing values that are == and hash-equal in python but '
            'encode differently (decimal 1.0 / 1.00 / 1, 1E+1 / 10, 0 / 0.0, -1.50 / -1.5; float and double 0.0 / -0.0), values that '
            'differ in python but encode equally (0 / False, 1 / True / 1.0 in the integer, float and decimal classes; uuid / lower and '
            'upper case text / a second equal object; naive, UTC-aware and +02:00-aware datetime of one instant; date / midnight datetime; '
            'date / cassandra.util.Date / datetime for a date column; time / cassandra.util.Time; bytes / bytearray; two spellings of an '
            'IPv6 address; 0.1 / float32(0.1) for float) and unrelated values; on a fresh single-key model every ordered pair of table '
            'rows (a row with itself included) is run as two steps, each step executing all statement kinds, plus the whole table forwards '
            'and backwards (thorough: every ordered triple); on composite models (class, Integer), (Integer, class), (Integer, class, Text) '
            'every ordered pair of rows for the class component with unchanged partner components, and every row followed by the same row '
            'with one partner component changed (thorough: every ordered pair under every partner change); every statement of every step '
            'must carry the encoding of the key it fixes itself.',
    'note': 'The session is a fake that records execute() calls; value encodings of the reference are written from the '
            'protocol specification (vt/spec/minicql.py, self-tested on the vectors of tests/unit/test_marshalling.py). '
            'Batches are sent as plain strings by cqlengine and carry no routing key; they are outside the statement. '
            'The partition key expected for an inheriting model is derived from the documented rule (columns of the bases in base '
            'order, then own columns; an overriding column keeps the inherited place) and cross-checked against the CREATE TABLE text '
            'cqlengine generates for the model when it is defined.  In the value histories the value a column holds for a given python '
            'input (1 for True in an int column, Decimal("1.0") for the float 1.0 in a decimal column ...) is written down by hand in the table.',
    'design_ref': 'C38',
}

U1 = uuid.UUID('00000000-0000-0000-0000-000000000000')
U2 = uuid.UUID('ffffffff-ffff-ffff-ffff-ffffffffffff')
U3 = uuid.UUID('12345678-1234-5678-1234-567812345678')
T1 = uuid.UUID('00000000-0000-1000-8080-808080808080')
T2 = uuid.UUID('ffffffff-ffff-1fff-bf7f-7f7f7f7f7f7f')

# column class name -> (cql type for the reference, boundary values)
KEY_TYPES = [
    ('Integer', 'int', [0, -1, 2147483647, -2147483648]),
    ('Text', 'text', ['', 'a', 'h\xe9€', 'x' * 300]),
    ('BigInt', 'bigint', [0, -1, 9223372036854775807, -9223372036854775808]),
    ('UUID', 'uuid', [U1, U2, U3]),
    ('Boolean', 'boolean', [False, True]),
    ('Blob', 'blob', [b'', b'\x00', b'\xff\x00\x80', b'\x01' * 65535]),
    ('Ascii', 'ascii', ['', 'abc', '\x00\x7f']),
    ('TinyInt', 'tinyint', [0, 127, -128]),
    ('SmallInt', 'smallint', [0, 32767, -32768]),
    ('VarInt', 'varint', [0, -1, 127, 128, -129, 1 << 70, -(1 << 70)]),
    ('DateTime', 'timestamp', [datetime.datetime(1970, 1, 1), datetime.datetime(1969, 12, 31, 23, 59, 59),
                               datetime.datetime(2024, 2, 29, 12, 0, 1), datetime.datetime(1, 1, 1), datetime.datetime(9999, 12, 31, 23, 59, 59)]),
    ('Date', 'date', [datetime.date(1970, 1, 1), datetime.date(1969, 12, 31), datetime.date(1, 1, 1), datetime.date(9999, 12, 31)]),
    ('Time', 'time', [datetime.time(0, 0, 0), datetime.time(23, 59, 59, 999999), datetime.time(1, 2, 3, 4)]),
    ('TimeUUID', 'timeuuid', [T1, T2]),
    ('Float', 'float', [0.0, -0.0, 1.5, float('inf'), -3.4028234663852886e+38]),
    ('Double', 'double', [0.0, -0.0, 1e308, float('-inf'), 5e-324]),
    ('Decimal', 'decimal', [decimal.Decimal('0'), decimal.Decimal('-1.50'), decimal.Decimal('1E+30'), decimal.Decimal('0.000000000000000000001')]),
    ('Inet', 'inet', ['0.0.0.0', '255.255.255.255', '::1', '2001:db8::ff00:42:8329']),
]
TYPE_BY_NAME = dict((n, (c, v)) for n, c, v in KEY_TYPES)
REDUCED = ['Integer', 'Text', 'UUID', 'Blob', 'VarInt']

_world = {}


def world():
    if not _world:
        from vt import cqle
        from cassandra.cqlengine import columns
        from cassandra.cqlengine.models import Model

        def handler(call):
            if call.query.startswith('SELECT COUNT'):
                return [{'count': 0}]
            return []
        _world['session'] = cqle.install_fake(handler)
        _world['columns'] = columns
        _world['Model'] = Model
    return _world


def tail_types(first):
    """Classes of the clustering and the static column: they differ from the first key class so that a
    key component taken from the wrong column cannot go unnoticed."""
    return ('Integer' if first == 'Text' else 'Text', 'Text' if first == 'BigInt' else 'BigInt')


def make_model(names, serial, db_field=False, compute=True):
    w = world()
    columns, Model = w['columns'], w['Model']
    attrs = {'__table_name__': 't%d' % serial, '__compute_routing_key__': compute}
    for i, n in enumerate(names):
        kw = {'partition_key': True}
        if db_field and i == 0:
            kw['db_field'] = 'renamed_k0'
        attrs['k%d' % i] = getattr(columns, n)(**kw)
    # non-key columns get types that differ from every key type position-wise
    ct, stt = tail_types(names[0])
    attrs['c'] = getattr(columns, ct)(primary_key=True)
    attrs['st'] = getattr(columns, stt)(static=True)
    attrs['v'] = columns.Integer()
    return type('Gen%d' % serial, (Model,), attrs)


def picks(names, mode):
    """Value tuples for the key columns: 'all' = full product, otherwise the i-th value of every
    column for i in range(max len) (cyclic), which still uses every boundary value of every class."""
    lists = [TYPE_BY_NAME[n][1] for n in names]
    if mode == 'all':
        return list(itertools.product(*lists))
    n = max(len(l) for l in lists)
    if mode == 'cyclic3':
        n = min(n, 3)
    out = []
    for i in range(n):
        out.append(tuple(l[(i + j) % len(l)] for j, l in enumerate(lists)))
    return out


def direct_fp(why, label, composite, exc=None):
    if why == 'raises':
        return 'C38/raises/%s/%s' % (label, exc)
    if why == 'unexpected':
        return 'C38/unexpected/%s' % label
    return 'C38/%s/%s/%s' % (why, label, 'composite' if composite else 'single')


def where_of(case):
    for k in ('family', 'history'):
        if k in case:
            return ' (%s)' % case[k]['where']
    return ''


def exercise(part, M, keys, values, case, compute=True, fp=direct_fp, mark=None, ref_values=None):
    """Run every routed statement kind on model M whose partition key is `keys` = [(attribute, column
    class)] in the order the table declares it, with key `values`, and judge each recorded statement.
    `ref_values` (default: `values`) are the values as the column type holds them, for the reference
    encoding, when a value is handed to cqlengine in another accepted python form (1 / True / 1.0 for an
    int column, a str for a uuid column ...)."""
    from vt.spec import minicql
    s = world()['session']
    names = tuple(n for _, n in keys)
    cql_types = [TYPE_BY_NAME[n][0] for n in names]
    expected = minicql.routing_key(cql_types, values if ref_values is None else ref_values) if compute else None
    keykw = dict((a, v) for (a, _), v in zip(keys, values))
    k0 = keys[0][0]
    ckval = 'c1' if names[0] != 'Text' else 7
    stval = 9 if names[0] != 'BigInt' else 's'
    composite = len(names) > 1
    mark = ','.join(names) if mark is None else mark
    s.take()

    def check(label, want_present, calls=None):
        calls = s.take() if calls is None else calls
        if not calls:
            raise HarnessError('no statement was executed for %s %r' % (label, case))
        for call in calls:
            part.count('evaluations')
            kind = call.query.split()[0]
            got = call.routing_key
            if want_present:
                if got != expected:
                    why = 'missing' if got is None else 'wrong'
                    part.violation(fp(why, label, composite),
                                   '%s %r: routing_key %r, Cassandra partition key bytes %r, key %r types %r values %r%s' % (
                                       label, call.query[:120], got, expected, [a for a, _ in keys], names, values,
                                       where_of(case)),
                                   dict(case, label=label))
                else:
                    part.mark_nontrivial('%s|%s' % (mark, label))
            else:
                if got is not None:
                    part.violation(fp('unexpected', label, composite),
                                   '%s %r carries routing_key %r although the partition key is not fixed (%r)' % (
                                       label, call.query[:120], got, case), dict(case, label=label))
            part.outcome((label, kind, 'rk' if got is not None else 'none'))
        return calls

    present = compute

    def step(label, want_present, fn):
        """Run one cqlengine call; an exception out of a legitimate call is a failure of the routing-key
        computation (nothing else can fail against the fake session)."""
        try:
            fn()
        except HarnessError:
            raise
        except Exception as e:
            s.take()
            part.count('evaluations')
            part.outcome((label, 'raised', type(e).__name__))
            part.violation(fp('raises', label, composite, type(e).__name__),
                           '%s raised %r for key %r types %r values %r%s' % (
                               label, e, [a for a, _ in keys], names, values, where_of(case)), dict(case, label=label))
            return False
        check(label, want_present)
        return True

    holder = {}

    def do_create():
        holder['inst'] = M.create(c=ckval, v=1, **keykw)
    if step('create', present, do_create):
        inst = holder['inst']
        step('inst-update', present, lambda: inst.update(v=2))

        def do_save():
            inst.st = stval
            inst.v = None
            inst.save()
        step('inst-save', present, do_save)
        step('inst-delete', present, lambda: inst.delete())
    elif 'family' not in case and 'history' not in case:
        return
    orders = [list(keykw.items())]
    if composite:
        orders.append(list(reversed(list(keykw.items()))))
    for oi, items in enumerate(orders):
        tag = '' if oi == 0 else '-rev'
        step('qs-select' + tag, present, lambda: list(M.objects.filter(**dict(items))))
        step('qs-count' + tag, present, lambda: M.objects.filter(**dict(items)).count())
        step('qs-update' + tag, present, lambda: M.objects.filter(**dict(items)).filter(c=ckval).update(v=3))
        step('qs-delete' + tag, present, lambda: M.objects.filter(**dict(items)).delete())

    def chained():
        q = M.objects
        for k, v in keykw.items():
            q = q.filter(**{k: v})
        list(q.filter(c=ckval))
    step('qs-select-chained', present, chained)
    # key not fully fixed
    if composite:
        for drop in range(len(names)):
            kw = dict((k, v) for i, (k, v) in enumerate(keykw.items()) if i != drop)
            step('partial-select', False, lambda: list(M.objects.filter(**kw).allow_filtering()))
            step('partial-update', False, lambda: M.objects.filter(**kw).filter(c=ckval).update(v=4))
    kw1 = dict(keykw)
    kw1[k0 + '__in'] = [kw1.pop(k0)]
    step('in-select', False, lambda: list(M.objects.filter(**kw1).allow_filtering()))
    if names[0] not in ('Boolean',):
        kw2 = dict(keykw)
        kw2[k0 + '__gte'] = kw2.pop(k0)
        step('range-select', False, lambda: list(M.objects.filter(**kw2).allow_filtering()))
    step('no-key-select', False, lambda: list(M.objects.filter(c=ckval).allow_filtering()))
    part.sample({'case': case, 'expected_routing_key': expected}, limit=2)


def run_case(part, names, values, serial, db_field=False, compute=True):
    M = make_model(names, serial, db_field, compute)
    case = {'types': list(names), 'values': [repr(v) for v in values], 'db_field': db_field, 'compute': compute}
    exercise(part, M, [('k%d' % i, n) for i, n in enumerate(names)], values, case, compute)


# ------------------------------------------------------------------------------------------------
# Model families: key columns inherited from abstract mixins / abstract bases / a concrete parent.
# cqlengine hands the *same* column objects of a base class to every subclass and touches them again
# whenever another subclass is defined, so what one model routes with may depend on which other
# models were defined and in which order.  A family is a class-definition history; the routing keys
# of every model of the family are judged after the whole history has been defined.
#
# class specification: name -> (bases, own key columns ((attribute, role, type slot), ...), kind)
# roles: pk = partition_key=True, ck = primary_key=True; a type slot is bound to a column class by the
# type assignment of the family.
SPECS = {
    'T': ((), (('t', 'pk', 'T'),), 'abstract'),           # key mixins: one partition-key column each
    'B': ((), (('b', 'pk', 'B'),), 'abstract'),
    'U': ((), (('u', 'pk', 'U'),), 'abstract'),
    'TB': (('T', 'B'), (), 'abstract'),                   # abstract models composing the mixins
    'BT': (('B', 'T'), (), 'abstract'),
    'K2': ((), (('p', 'pk', 'T'), ('q', 'pk', 'B')), 'abstract'),   # abstract base with a two-column key
    'ID': ((), (('id', 'ck', 'T'),), 'abstract'),         # abstract base whose only primary key is promoted
    'P': (('T', 'B'), (), 'concrete'),                    # concrete parent model (is itself a routed model)
    'PB': (('T', 'B'), (), 'polybase'),                   # polymorphic base (children share its table)
}


def _shapes():
    out = []
    mix = ('T', 'B', 'U')
    for r in (1, 2, 3):
        for sel in itertools.permutations(mix, r):
            out.append(('mixins', sel, ()))
    for r in (1, 2):
        for sel in itertools.permutations(mix, r):
            out.append(('mixins+own', sel, (('z', 'pk', 'Z'),)))
    for sel in (('TB',), ('BT',), ('TB', 'U'), ('U', 'TB'), ('BT', 'U'), ('U', 'BT'), ('TB', 'T')):
        out.append(('composed-mixins', sel, ()))
    out.append(('two-key-base', ('K2',), ()))
    out.append(('two-key-base', ('K2',), (('z', 'pk', 'Z'),)))
    out.append(('two-key-base', ('K2', 'U'), ()))
    out.append(('two-key-base', ('U', 'K2'), ()))
    out.append(('override', ('T', 'B'), (('t', 'pk', 'O'),)))
    out.append(('override', ('T', 'B'), (('b', 'pk', 'O'),)))
    out.append(('override+own', ('T', 'B'), (('z', 'pk', 'Z'), ('t', 'pk', 'O'))))
    out.append(('override+own', ('T', 'B'), (('t', 'pk', 'O'), ('z', 'pk', 'Z'))))
    out.append(('override+own', ('T',), (('t', 'pk', 'O'), ('z', 'pk', 'Z'))))
    out.append(('concrete-parent', ('P',), ()))
    out.append(('concrete-parent', ('P',), (('z', 'pk', 'Z'),)))
    out.append(('concrete-parent', ('P', 'U'), ()))
    out.append(('promoted-id', ('ID',), ()))
    out.append(('polymorphic', ('PB',), ()))
    res = {}
    for group, bases, own in out:
        sid = '(%s)' % ','.join(bases) + ''.join('+%s:%s' % (a, t) for a, _, t in own)
        if sid in res:
            raise HarnessError('duplicate shape id %s' % sid)
        res[sid] = (group, bases, own)
    return res


SHAPES = _shapes()
SHAPE_IDS = list(SHAPES)

# type assignments of the slots T, B, U (mixin columns), Z (own key column), O (overriding column)
SLOTS = 'TBUZO'
ASSIGN = [('Integer', 'BigInt', 'Text', 'UUID', 'Blob'),          # fixed-width values that fit each other's type, and unlike classes
                ('Integer', 'Integer', 'Integer', 'Integer', 'BigInt'),  # one class for all mixins: exchanged components never raise
                ('Text', 'Blob', 'VarInt', 'Boolean', 'Ascii')]          # variable-length encodings


def ref_columns(bases, own):
    """Independent statement of cqlengine's documented column inheritance: the columns of the bases in
    base order (a name keeps its first position), then the class's own columns in declaration order; an
    own column named like an inherited one takes that one's place (and key role) with its own type."""
    cols = []
    for b in bases:
        bb, bo, _ = SPECS[b]
        for a, role, slot in ref_columns(bb, bo):
            if a not in [c[0] for c in cols]:
                cols.append([a, role, slot])
    for a, role, slot in own:
        for c in cols:
            if c[0] == a:
                c[2] = slot
                break
        else:
            cols.append([a, role, slot])
    return cols


def ref_partition_key(bases, own):
    cols = ref_columns(bases, own)
    pk = [(a, slot) for a, role, slot in cols if role == 'pk']
    if not pk:
        pk = [(a, slot) for a, role, slot in cols if role == 'ck'][:1]
    return pk


class Family(object):
    def __init__(self, assign, serial):
        self.types = dict(zip(SLOTS, assign))
        self.serial = serial
        self.classes = {}
        self.models = []          # (class, keys [(attr, column class)], shape id or spec name, group) in definition order
        self.n = 0

    def _col(self, role, slot):
        columns = world()['columns']
        cls = getattr(columns, self.types.get(slot, slot))
        if role == 'pk':
            return cls(partition_key=True)
        if role == 'ck':
            return cls(primary_key=True)
        if role == 'static':
            return cls(static=True)
        return cls()

    def _define(self, name, bases, own, kind, ident, group):
        w = world()
        attrs = {}
        for b in bases:
            if b not in self.classes:
                bb, bo, bk = SPECS[b]
                self._define('F%d_%s' % (self.serial, b), bb, bo, bk, b, 'concrete-parent')
        pybases = tuple(self.classes[b] for b in bases) or (w['Model'],)
        for a, role, slot in own:
            attrs[a] = self._col(role, slot)
        keys = [(a, self.types[slot]) for a, slot in ref_partition_key(bases, own)]
        has_tail = any(SPECS[b][2] in ('concrete', 'polybase') for b in bases)
        if kind == 'abstract':
            attrs['__abstract__'] = True
        else:
            self.n += 1
            attrs['__table_name__'] = 'f%d_%d' % (self.serial, self.n)
            if not has_tail:
                ct, stt = tail_types(keys[0][1])
                attrs['c'] = self._col('ck', ct)
                attrs['st'] = self._col('static', stt)
                attrs['v'] = self._col('data', 'Integer')
            if kind == 'polybase':
                attrs['kind'] = w['columns'].Text(discriminator_column=True)
            elif any(SPECS[b][2] == 'polybase' for b in bases):
                attrs['__discriminator_value__'] = 'd%d' % self.n
        cls = type(name, pybases, attrs)
        if ident in SPECS:
            self.classes[ident] = cls
        if kind in ('concrete', 'polychild'):
            self._crosscheck(cls, keys, ident)
            self.models.append((cls, keys, ident, group))
        return cls

    def define_shape(self, sid):
        group, bases, own = SHAPES[sid]
        return self._define('F%d_m%d' % (self.serial, len(self.models)), bases, own, 'concrete', sid, group)

    def _crosscheck(self, cls, keys, ident):
        """The reference key must be the partition key of the table cqlengine itself would create for the
        model; otherwise the family generator misstates cqlengine's inheritance rules (harness error)."""
        import re
        from cassandra.cqlengine.management import _get_create_table
        text = _get_create_table(cls)
        m = re.search(r'PRIMARY KEY \(\((.*?)\)', text)
        if not m:
            raise HarnessError('cannot read the partition key from %r' % text)
        got = []
        for name in [x.strip().strip('"') for x in m.group(1).split(',')]:
            t = re.search(r'"%s" (\w+)' % re.escape(name), text)
            got.append((name, t.group(1) if t else None))
        want = [(a, TYPE_BY_NAME[n][0]) for a, n in keys]
        if got != want:
            raise HarnessError('family generator expects partition key %r for %s but the table is %r' % (want, ident, text))


def run_family(part, fam):
    """fam = {'assign': [5 class names], 'history': [shape ids], 'vi': int, 'serial': int}"""
    f = Family(fam['assign'], fam['serial'])
    for sid in fam['history']:
        f.define_shape(sid)
    part.count('families')
    hist = '>'.join(fam['history'])
    for idx, (cls, keys, ident, group) in enumerate(f.models):
        stage = 'last-defined' if idx == len(f.models) - 1 else 'earlier-defined'
        names = tuple(n for _, n in keys)
        vals = picks(names, 'cyclic')
        values = vals[(fam['vi'] + idx) % len(vals)]
        where = 'model %d %s, %s of the definition history %s' % (idx, ident, stage, hist)
        case = {'family': {'assign': list(fam['assign']), 'history': list(fam['history']), 'vi': fam['vi'],
                           'model': idx, 'where': where},
                'types': list(names), 'values': [repr(v) for v in values]}

        def fp(why, label, composite, exc=None, group=group, stage=stage):
            return 'C38/family/%s/%s/%s' % (group, stage, why if exc is None else '%s-%s' % (why, exc))
        part.count('family_models')
        exercise(part, cls, keys, values, case, True, fp, mark='f%d#%d' % (fam['serial'], idx))


# ------------------------------------------------------------------------------------------------
# Value histories: statements executed one after the other on ONE model (nothing is reset between
# them) with different key values.  What matters for anything the model / statement machinery keeps
# between two statements is how the two key values relate:
#   python-equal, other bytes  : == and hash-equal in python but another partition for Cassandra
#                                (decimal 1.0 / 1.00 / 1 / 1E+1 vs 10: the scale is part of the encoding;
#                                float/double 0.0 / -0.0: the sign bit)
#   python-differs, same bytes : different python objects naming the same partition (1 / True / 1.0 in an int
#                                column, a uuid and its text form, naive / aware datetime of one instant,
#                                date / cassandra.util.Date, '::1' / '0:0:0:0:0:0:0:1', 0.1 / float32(0.1) in a float column)
#   python-equal, same bytes   : the value used again
#   distinct                   : unrelated values
# table: column class -> [(value handed to cqlengine, value as the column type holds it = input of the
# reference encoding)]; the second member is written by hand, never computed by driver code.
_hist = {}


def hist_values(name):
    if not _hist:
        world()
        from cassandra import util
        D = decimal.Decimal
        dt, d, t = datetime.datetime, datetime.date, datetime.time
        utc = datetime.timezone.utc
        plus2 = datetime.timezone(datetime.timedelta(hours=2))
        same = lambda vals: [(v, v) for v in vals]
        ints = [(0, 0), (False, 0), (1, 1), (True, 1), (1.0, 1), (-1, -1)]
        flo = [(0.0, 0.0), (-0.0, -0.0), (1.0, 1.0), (1, 1.0), (True, 1.0), (0.1, 0.1), (0.10000000149011612, 0.10000000149011612)]
        nanos = ((1 * 60 + 2) * 60 + 3) * 1000000000 + 4000
        day = (d(2024, 2, 29) - d(1970, 1, 1)).days
        _hist.update({
            'Integer': ints, 'TinyInt': ints, 'SmallInt': ints, 'BigInt': ints,
            'VarInt': ints + [(128, 128), (1 << 70, 1 << 70)],
            'Float': flo, 'Double': flo,
            'Decimal': same([D('1.0'), D('1.00'), D('1')]) + [(1, D('1')), (1.0, D('1.0'))] +
                       same([D('1E+1'), D('10'), D('0'), D('-0'), D('0.0'), D('-1.50'), D('-1.5')]),
            'Text': same(['a', 'A', 'a ', 'é', '\xe9']),
            'Ascii': same(['a', 'A', '']),
            'Boolean': same([False, True]),
            'Blob': [(b'a', b'a'), (bytearray(b'a'), b'a'), (b'', b''), (b'\x00', b'\x00'), (b'A', b'A')],
            'UUID': [(U3, U3), (str(U3), U3), (str(U3).upper(), U3), (uuid.UUID(int=U3.int), U3), (U1, U1)],
            'TimeUUID': [(T1, T1), (str(T1), T1), (T2, T2)],
            'DateTime': same([dt(2024, 2, 29, 12, 0, 1), dt(2024, 2, 29, 12, 0, 1, tzinfo=utc), dt(2024, 2, 29, 14, 0, 1, tzinfo=plus2),
                              dt(2024, 2, 29), d(2024, 2, 29), dt(1970, 1, 1)]),
            'Date': [(d(2024, 2, 29), d(2024, 2, 29)), (util.Date(day), d(2024, 2, 29)), (dt(2024, 2, 29, 13, 0), d(2024, 2, 29)),
                     (d(1970, 1, 1), d(1970, 1, 1)), (d(1969, 12, 31), d(1969, 12, 31))],
            'Time': [(t(1, 2, 3, 4), nanos), (util.Time(nanos), nanos), (util.Time(nanos + 1), nanos + 1), (t(0, 0), 0), (util.Time(0), 0)],
            'Inet': same(['::1', '0:0:0:0:0:0:0:1', '127.0.0.1', '2001:db8::ff00:42:8329', '2001:DB8::FF00:42:8329']),
        })
    return _hist[name]


# partner columns of the composite shapes: (class, two rows of its table)
PARTNER_P = ('Integer', (2, 5))
PARTNER_Q = ('Text', (0, 1))
RELATIONS = ('py-equal-other-bytes', 'py-differs-same-bytes', 'py-equal-same-bytes', 'distinct')


def py_equal(a, b):
    """== and (where hashable) hash-equal, component by component and as tuples."""
    try:
        if not (a == b):
            return False
    except Exception:
        return False
    try:
        return hash(a) == hash(b)
    except TypeError:
        return True


def relation(raw, enc, earlier):
    """How the key of a step relates to the keys of the earlier steps of its history (the strongest
    relation to any of them, in the order of RELATIONS); 'first' without earlier steps."""
    found = set()
    for praw, penc in earlier:
        eq = py_equal(praw, raw)
        found.add({(True, False): RELATIONS[0], (False, True): RELATIONS[1], (True, True): RELATIONS[2],
                   (False, False): RELATIONS[3]}[(eq, penc == enc)])
    for r in RELATIONS:
        if r in found:
            return r
    return 'first'


def run_history(part, h):
    """h = {'types': [column classes], 'steps': [[row of hist_values(class) per key column], ...], 'serial': int}:
    one fresh model; for every step in turn all statement kinds with that step's key values."""
    from vt.spec import minicql
    names = tuple(h['types'])
    M = make_model(names, 1000000 + h['serial'])
    keys = [('k%d' % i, n) for i, n in enumerate(names)]
    cql_types = [TYPE_BY_NAME[n][0] for n in names]
    tabs = [hist_values(n) for n in names]
    part.count('histories')
    earlier = []
    shape = 'single' if len(names) == 1 else 'composite'
    for si, idx in enumerate(h['steps']):
        raw = tuple(tabs[j][i][0] for j, i in enumerate(idx))
        ref = tuple(tabs[j][i][1] for j, i in enumerate(idx))
        enc = minicql.routing_key(cql_types, ref)
        rel = relation(raw, enc, earlier)
        earlier.append((raw, enc))
        part.count('history_steps')
        part.count('history_steps_' + rel)
        where = 'step %d of the statement history on one model with key values %s; relation to the earlier keys: %s' % (
            si, ' then '.join(repr(e[0]) for e in earlier), rel)
        case = {'history': {'types': list(names), 'steps': [list(x) for x in h['steps']], 'step': si, 'relation': rel, 'where': where},
                'types': list(names), 'values': [repr(v) for v in raw]}

        def fp(why, label, composite, exc=None, rel=rel):
            return 'C38/history/%s/%s/%s' % (rel, shape, why if exc is None else '%s-%s' % (why, exc))
        exercise(part, M, keys, raw, case, True, fp, mark='h%d#%d' % (h['serial'], si), ref_values=ref)


def histories(ctx):
    """Single-key models: every ordered pair of rows of the class's table (a row with itself included), the
    whole table forwards and backwards (thorough: also every ordered triple).  Composite models (class, Integer),
    (Integer, class), (Integer, class, Text): every ordered pair of rows for the class's component with the partner
    components unchanged, and every row twice with one partner component changed (thorough: every ordered pair with
    each partner change as well)."""
    out = []
    for name, _, _ in KEY_TYPES:
        n = len(hist_values(name))
        R = range(n)
        for a in R:
            for b in R:
                out.append({'types': [name], 'steps': [[a], [b]]})
        out.append({'types': [name], 'steps': [[i] for i in R]})
        out.append({'types': [name], 'steps': [[i] for i in reversed(R)]})
        if not ctx.quick:
            for a in R:
                for b in R:
                    for c in R:
                        out.append({'types': [name], 'steps': [[a], [b], [c]]})
        partner = {'P': PARTNER_P, 'Q': PARTNER_Q}
        for slots in ('XP', 'PX', 'PXQ'):
            types = [name if c == 'X' else partner[c][0] for c in slots]
            others = [c for c in slots if c != 'X']

            def row(x, alt=None, slots=slots, others=others):
                return [x if c == 'X' else partner[c][1][1 if alt is not None and others[alt] == c else 0] for c in slots]
            for a in R:
                for b in R:
                    out.append({'types': types, 'steps': [row(a), row(b)]})
                    if not ctx.quick:
                        for alt in range(len(others)):
                            out.append({'types': types, 'steps': [row(a), row(b, alt)]})
                if ctx.quick:
                    for alt in range(len(others)):
                        out.append({'types': types, 'steps': [row(a), row(a, alt)]})
    for i, h in enumerate(out):
        h['serial'] = i
    return out


def run_chunk(args):
    part = Part()
    for item in args:
        if item[0] == 'family':
            run_family(part, item[1])
        elif item[0] == 'history':
            run_history(part, item[1])
        else:
            serial, names, values, db_field, compute = item
            run_case(part, names, values, serial, db_field, compute)
    return part


def cases(ctx):
    names = [n for n, _, _ in KEY_TYPES]
    out = []
    for n in names:
        for vals in picks((n,), 'all'):
            out.append(((n,), vals, False, True))
    for a in names:
        for b in names:
            for vals in picks((a, b), 'cyclic3' if ctx.quick else 'all'):
                out.append(((a, b), vals, False, True))
    tri = REDUCED if ctx.quick else names
    for a in tri:
        for b in tri:
            for c in tri:
                for vals in picks((a, b, c), 'cyclic3' if ctx.quick else 'cyclic'):
                    out.append(((a, b, c), vals, False, True))
    # renamed db_field on the first key column; routing disabled by the model
    for a in names:
        out.append(((a, 'Integer'), (TYPE_BY_NAME[a][1][-1], 5), True, True))
        out.append(((a,), (TYPE_BY_NAME[a][1][0],), False, False))
    return out


def assignments(ctx):
    out = list(ASSIGN[:2])
    if not ctx.quick:
        out.append(ASSIGN[2])
        names = [n for n, _, _ in KEY_TYPES]
        for i in range(len(names)):
            a = tuple(names[(i + j) % len(names)] for j in range(len(SLOTS)))
            if a not in out:
                out.append(a)
    return out


def families(ctx):
    """Definition histories: every ordered pair of model shapes (a shape with itself included: two tables
    of the same layout), and the complete shape list defined in one family in every rotation of its
    order, forwards and backwards."""
    out = []
    for assign in assignments(ctx):
        for a in SHAPE_IDS:
            for b in SHAPE_IDS:
                out.append({'assign': assign, 'history': [a, b]})
        seqs = []
        for k in range(len(SHAPE_IDS)):
            seqs.append(SHAPE_IDS[k:] + SHAPE_IDS[:k])
        if ctx.quick:
            seqs = seqs[::8]
        for s in seqs:
            out.append({'assign': assign, 'history': list(s)})
            out.append({'assign': assign, 'history': list(reversed(s))})
    for i, f in enumerate(out):
        f['vi'] = i
        f['serial'] = i
    return out


def run(ctx):
    from vt.spec import minicql
    minicql.selftest()
    cs = cases(ctx)
    items = [(i, n, v, d, c) for i, (n, v, d, c) in enumerate(cs)]
    fams = families(ctx)
    items += [('family', f) for f in fams]
    hists = histories(ctx)
    items += [('history', h) for h in hists]
    items = ctx.rotate(items)
    nchunks = ctx.nproc * 4
    chunks = [items[i::nchunks] for i in range(nchunks)]
    for part in ctx.pmap(run_chunk, [c for c in chunks if c]):
        ctx.merge(part)
    ctx.count('models', len(cs))
    ctx.count('model_shapes', len(SHAPE_IDS))
    ctx.count('history_table_rows', sum(len(hist_values(n)) for n, _, _ in KEY_TYPES))
    ctx.cov['rule'] = ('%d generated (model, key values) cases: every single key class x every boundary value; every ordered pair of the '
                       '18 classes (%s value tuples: cyclic = i-th boundary value of each class for every i, cyclic3 = the first three of those); triples over %s; plus db_field-renamed first key and __compute_routing_key__=False '
                       'per class; each case runs 4 instance statements, 4-8 query-set statements with a full key and the partial / IN / range '
                       '/ no-key selects; an evaluation = one executed statement; non-trivial = (key classes, statement kind) whose routing key '
                       'was present and equal to the reference.  Families: %d definition histories over %d model shapes %r (groups %s) under %d '
                       'type assignment(s) of the slots %s: every ordered pair of shapes, and the whole shape list in %s rotation of its order '
                       'forwards and backwards; every concrete model of a history (counter family_models) runs the same statements after the '
                       'last class of the history has been defined; non-trivial there = (history, model, statement kind).  Value histories: '
                       '%d statement histories (counter histories; history_steps = steps, each running all statement kinds on the one model of its '
                       'history) over per-class value tables of %s rows: single-key models: every ordered pair of rows%s, the whole table forwards and '
                       'backwards; composite models (X,Integer), (Integer,X), (Integer,X,Text): every ordered pair of rows of X %s; counters '
                       'history_steps_<relation> = steps whose key is py-equal-other-bytes / py-differs-same-bytes / py-equal-same-bytes / distinct '
                       'with respect to an earlier key of the same history (strongest relation in that order; == and hash-equal on the python values '
                       'handed to cqlengine, bytes = reference encoding); non-trivial there = (history, step, statement kind)' % (
                           len(cs), 'cyclic3' if ctx.quick else 'all',
                           'the reduced list %r' % REDUCED if ctx.quick else 'all 18 classes',
                           len(fams), len(SHAPE_IDS), SHAPE_IDS, sorted(set(g for g, _, _ in SHAPES.values())),
                           len(assignments(ctx)), SLOTS, 'every 8th' if ctx.quick else 'every',
                           len(hists), dict((n, len(hist_values(n))) for n, _, _ in KEY_TYPES), '' if ctx.quick else ' and every ordered triple',
                           'with the partner components unchanged, and every row twice with one partner component changed' if ctx.quick
                           else 'with the partner components unchanged and with each single partner component changed'))
    ctx.cov['exhaustive'] = True
    ctx.assume('Cassandra hashes: single-component key = the value bytes; composite = per component 2-byte big-endian length, bytes, 0x00')
    ctx.assume('DateTime key values are whole seconds (the millisecond conversion of DateTime.to_database is C36\'s subject)')
    ctx.assume('a statement that restricts a key component with IN or a range does not "fix" the partition key: no routing key is required or allowed')
    ctx.assume('value histories: a python value of another type is used for a key column only where the column class converts it itself '
               '(int() for the integer classes, float() for float/double, Decimal() for decimal, UUID(text), date/datetime/util.Date for date, '
               'time/util.Time for time, bytes/bytearray for blob); Boolean gets only False / True (the query-set path binds other values unconverted); '
               'NaN and non-whole-second datetimes are not in the tables')
    ctx.assume('BatchQuery sends a plain string without routing key; batches are outside C38')
    ctx.assume('frozen collection / tuple / UDT partition keys are not generated')
    ctx.assume('the table of an inheriting model has the partition key cqlengine documents: inherited columns in base order, then own columns; '
               'each family model is cross-checked against the CREATE TABLE text cqlengine generates for it at definition time (harness error otherwise)')
    ctx.assume('an abstract base with a promoted (primary_key-only) key is not combined with partition_key=True mixins: which table results is '
               'not pinned down by the documentation')


def replay(ctx, data):
    part = Part()
    if 'history' in data:
        h = data['history']
        run_history(part, {'types': list(h['types']), 'steps': [list(x) for x in h['steps']], 'serial': 0})
    elif 'family' in data:
        f = data['family']
        run_family(part, {'assign': tuple(f['assign']), 'history': list(f['history']), 'vi': f['vi'], 'serial': 0})
    else:
        names = tuple(data['types'])
        for vals in picks(names, 'all'):
            if [repr(v) for v in vals] == data['values']:
                run_case(part, names, vals, 0, data.get('db_field', False), data.get('compute', True))
                break
        else:
            raise HarnessError('recorded key values not found in the generator: %r' % (data,))
    for fp, what, _ in part.violations:
        print(fp, '::', what)
    return bool(part.violations)
