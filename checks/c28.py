"""C28 Type descriptors round-trip between Cassandra and CQL notation.

Engine N: every type tree of a finite grid (scalars + list/set/map/tuple/UDT/vector/frozen/reversed,
fan-out <= 2, depth 3 quick / 4 thorough) is printed by an independent printer (vt.spec.values) in
Cassandra's marshal-class notation and in CQL notation; the driver's parsers/printers are run on the
strings and judged clause by clause.
"""
from vt.core import Part
from vt.spec import values as V
from vt.spec import valuegen as G
from vt import valbridge as B

META = {
    'level': 'exploration',
    'engine': 'N',
    'technique': 'bounded-exhaustive enumeration of type trees; parse/print round trips against an independent descriptor printer and differential codec comparison',
    'text': 'For every type tree up to depth 3 (quick) / 4 (thorough), fan-out <= 2, over 21 scalars and list, set, map, tuple, '
            'UDT (names: plain, hex made of decimal digits only, mixed case, non-ASCII, equal to a marshal class name; non-ASCII '
            'and non-identifier field names), vector, frozen, reversed: (parse) lookup_casstype of Cassandra\'s descriptor '
            'succeeds, prints the expected CQL name and encodes/decodes sample values exactly like the type built directly '
            'from the tree without wrappers; (reprint) lookup_casstype(T.cass_parameterized_type(full=True)) has the same CQL '
            'name and codec as T; (registry) built-in class names still resolve to the built-in classes afterwards; '
            '(cql) python_to_cqltype(cqltype_to_python(s)) == s modulo blanks for the CQL spelling s (with and without blanks '
            'after commas); (strip) strip_frozen(s) equals the tree printed without its frozen nodes; both clauses also for CQL-only '
            'trees: user type names with apostrophe, backslash, double quote, blank, and every ordered pair and triple of 8 user type '
            'names (mixed case, blank, apostrophe, backslash, double quote, non-ASCII, leading digit, plain) side by side in one type '
            'string as map keys/values, tuple members and inside nested frozen collections; (redefinition) for every '
            'ordered pair of 13 field types the descriptor of a user type is parsed after the descriptor of the same type name with '
            'the other field type (incl. a nested user type that was redefined): the second parse must describe the second definition.',
    'note': 'The expected CQL name follows the driver\'s documented conventions (tuples and UDTs are shown frozen, UDT names '
            'unquoted, vectors as pinned by tests/unit/test_types.py); no name is asserted for trees that contain reversed<>. '
            'The type registries are restored after every tree so that cases do not influence each other.',
    'design_ref': 'C28',
}

BUILTIN_NAMES = sorted(set(V._MARSHAL.values()) | set(['DateType', 'VarcharType']))


def tuplify(x):
    return tuple(tuplify(i) for i in x) if isinstance(x, (list, tuple)) else x


def norm_varchar(t):
    """Cassandra has no VarcharType class: varchar is UTF8Type, which prints as text."""
    if t[0] == 'varchar':
        return ('text',)
    if t[0] in V.SCALARS:
        return t
    if t[0] == 'udt':
        return ('udt', t[1], t[2], tuple((fn, norm_varchar(ft)) for fn, ft in t[3]))
    if t[0] == 'vector':
        return ('vector', norm_varchar(t[1]), t[2])
    return (t[0],) + tuple(norm_varchar(s) for s in t[1:])


def strip_wrappers(t, which=V.WRAPPERS):
    if t[0] in which:
        return strip_wrappers(t[1], which)
    if t[0] in V.SCALARS:
        return t
    if t[0] == 'udt':
        return ('udt', t[1], t[2], tuple((fn, strip_wrappers(ft, which)) for fn, ft in t[3]))
    if t[0] == 'vector':
        return ('vector', strip_wrappers(t[1], which), t[2])
    return (t[0],) + tuple(strip_wrappers(s, which) for s in t[1:])


def driver_cql(t):
    """Expected cql_parameterized_type() by the driver's conventions; None = not asserted."""
    k = t[0]
    if k in V.SCALARS:
        return k
    if k == 'reversed':
        return None
    subs = [driver_cql(s) for s in V.subtypes(t)]
    if any(s is None for s in subs):
        return None
    if k == 'udt':
        return 'frozen<%s>' % t[2]
    if k == 'tuple':
        return 'frozen<tuple<%s>>' % ', '.join(subs)
    if k == 'vector':
        return 'org.apache.cassandra.db.marshal.VectorType<%s, %d>' % (subs[0], t[2])
    return '%s<%s>' % (k, ', '.join(subs))


def feature(t):
    """Most specific descriptor feature of the tree, used to keep fingerprints narrow."""
    feats = set()
    for x in V.walk(t):
        if x[0] == 'udt':
            names = [x[2]] + [fn for fn, _ in x[3]]
            if V.hexname(x[2]).isdigit() or x[1].isdigit():
                feats.add('udt-name-hex-all-digits')
            if any(ord(c) > 127 for n in names for c in n):
                feats.add('udt-non-ascii-name')
            if x[2] in BUILTIN_NAMES:
                feats.add('udt-name-shadows-type-class')
            feats.add('udt')
        elif x[0] in ('vector', 'reversed', 'frozen', 'tuple'):
            feats.add(x[0])
    for f in ('udt-name-hex-all-digits', 'udt-non-ascii-name', 'udt-name-shadows-type-class', 'udt', 'vector', 'reversed', 'tuple', 'frozen'):
        if f in feats:
            return f
    return t[0] if t[0] not in V.SCALARS else 'scalar'


def culprit_kind(c):
    """Fingerprint component for the smallest failing subtree c: its node kind; for a UDT node
    the peculiarity of its own names."""
    if c[0] == 'udt':
        return feature(('udt', c[1], c[2], tuple((fn, ('int',)) for fn, _ in c[3])))
    return c[0] if c[0] not in V.SCALARS else 'scalar'


def smallest(t, fails):
    """Smallest subtree for which fails(subtree) still holds."""
    for s in V.subtypes(t):
        try:
            bad = fails(s)
        except Exception:
            bad = True
        if bad:
            return smallest(s, fails)
    return t


class Registries(object):
    def __init__(self):
        from cassandra import cqltypes as C
        self.C = C
        self.snap = (dict(C._casstypes), dict(C._cqltypes), dict(C.UserType._cache))

    def restore(self):
        C = self.C
        for live, snap in zip((C._casstypes, C._cqltypes, C.UserType._cache), self.snap):
            live.clear()
            live.update(snap)
        B.reset()

    def shadowed(self):
        C = self.C
        return [n for n in BUILTIN_NAMES if C._casstypes.get(n) is not self.snap[0].get(n)]


def sample_values(t):
    """Values used to compare codecs: boundary values for scalars, the first shapes for
    containers; collection null elements are left to C01/C02."""
    vals = G.values(t)
    if t[0] not in V.SCALARS:
        vals = [v for v in vals if not G.has_null_element(t, v)][:6]
    return vals


def codec_difference(t_plain, T, U):
    """First observable difference between the codecs of driver types T and U on values of
    t_plain (U is the reference point); None if they agree."""
    for v in sample_values(t_plain):
        dv = B.to_driver(t_plain, v)
        for pv in (2, 4):
            try:
                bu = U.to_binary(dv, pv)
            except Exception:
                continue                      # not this property's business (C01/C02)
            try:
                bt = T.to_binary(dv, pv)
            except Exception as e:
                return 'to_binary(%s, %d) raised %r' % (B.short(v, 80), pv, e)
            if bt != bu:
                return 'to_binary(%s, %d) = %s, expected %s' % (B.short(v, 80), pv, bt[:40].hex(), bu[:40].hex())
            try:
                ru = repr(U.from_binary(bu, pv))
            except Exception:
                continue
            try:
                rt = repr(T.from_binary(bu, pv))
            except Exception as e:
                return 'from_binary(%s, %d) raised %r' % (bu[:40].hex(), pv, e)
            if ru != rt:
                return 'from_binary(%s, %d) = %s, expected %s' % (bu[:40].hex(), pv, rt[:120], ru[:120])
    return None


def structure_difference(C, t, T):
    """First difference between the parsed driver type T and the tree t; None if T is t."""
    k = t[0]
    try:
        if k in V.SCALARS:
            want = getattr(C, B._SCALAR_CLASS[k])
            return None if T is want else 'expected %s, got %r' % (want.__name__, T)
        base = {'list': C.ListType, 'set': C.SetType, 'map': C.MapType, 'tuple': C.TupleType, 'udt': C.UserType,
                'vector': C.VectorType, 'frozen': C.FrozenType, 'reversed': C.ReversedType}[k]
        if not (isinstance(T, type) and issubclass(T, base)) or (k == 'tuple' and issubclass(T, C.UserType)):
            return 'expected a %s, got %r' % (base.__name__, T)
        if k == 'vector':
            if T.vector_size != t[2]:
                return 'vector dimension %r instead of %r' % (T.vector_size, t[2])
            return structure_difference(C, t[1], T.subtype)
        if k == 'udt':
            got = (T.keyspace, T.typename, tuple(T.fieldnames))
            want = (t[1], t[2], tuple(fn for fn, _ in t[3]))
            if got != want:
                return 'UDT (keyspace, name, fields) read as %r instead of %r' % (got, want)
        subs = V.subtypes(t)
        if len(T.subtypes) != len(subs):
            return '%d parameters instead of %d' % (len(T.subtypes), len(subs))
        for st, ST in zip(subs, T.subtypes):
            d = structure_difference(C, st, ST)
            if d:
                return d
        return None
    except Exception as e:
        return 'inspecting %r raised %r' % (T, e)


# ------------------------------------------------------------------------------- clauses
def clause_parse(part, reg, t, case):
    """-> parsed driver type or None"""
    C = reg.C
    T = None
    for sep in (',', ', '):
        part.count('evaluations')
        desc = V.marshal_class(t, sep=sep)
        try:
            T = C.lookup_casstype(desc)
        except Exception as e:
            def fails(s):
                try:
                    C.lookup_casstype(V.marshal_class(s, sep=sep))
                    return False
                except Exception:
                    return True
            culprit = smallest(t, fails)
            part.violation('C28/parse/%s/%s' % (culprit_kind(culprit), type(e).__name__),
                           'lookup_casstype(%r) raised %r (smallest failing subtree: %s)' % (desc, e, V.marshal_class(culprit, full=False)), case)
            part.outcome(('parse', 'raises', feature(culprit)))
            return None
    bad = reg.shadowed()
    part.count('evaluations')
    if bad:
        part.violation('C28/registry/udt-name-shadows-type-class',
                       'after lookup_casstype(%r) the class name(s) %s no longer resolve to the built-in type classes '
                       '(every later descriptor that mentions them gets the UDT instead)' % (V.marshal_class(t), ', '.join(bad)), case)
        part.outcome(('parse', 'registry-shadowed'))
        return None
    part.count('evaluations')
    why = structure_difference(C, t, T)
    if why:
        culprit = smallest(t, lambda s: structure_difference(C, s, C.lookup_casstype(V.marshal_class(s))) is not None)
        part.violation('C28/parse-structure/%s' % culprit_kind(culprit),
                       'lookup_casstype(%r) is not the described type: %s' % (V.marshal_class(t), why), case)
        part.outcome(('parse', 'structure-differs', feature(culprit)))
        return None
    want = driver_cql(t)
    part.count('evaluations')
    try:
        got = T.cql_parameterized_type()
    except Exception as e:
        part.violation('C28/parse-cql-name/%s/%s' % (feature(t), type(e).__name__),
                       'cql_parameterized_type() of lookup_casstype(%r) raised %r' % (V.marshal_class(t), e), case)
        return None
    if want is not None and got != want:
        def fails(s):
            w = driver_cql(s)
            return w is not None and C.lookup_casstype(V.marshal_class(s)).cql_parameterized_type() != w
        culprit = smallest(t, fails)
        part.violation('C28/parse-cql-name/%s' % culprit_kind(culprit),
                       'lookup_casstype(%r).cql_parameterized_type() = %r, expected %r' % (V.marshal_class(t), got, want), case)
        part.outcome(('parse', 'cql-name-differs', feature(culprit)))
    else:
        part.outcome(('parse', 'ok' if want is not None else 'ok-name-not-asserted'))
    # codec: the parsed type must behave like the type built from the tree without wrappers
    plain = strip_wrappers(t)
    part.count('evaluations')
    try:
        U = B.driver_type(plain)
        why = codec_difference(plain, T, U)
    except Exception as e:
        why = 'comparison raised %r' % (e,)
    if why:
        def fails(s):
            return codec_difference(strip_wrappers(s), C.lookup_casstype(V.marshal_class(s)), B.driver_type(strip_wrappers(s))) is not None
        culprit = smallest(t, fails)
        part.violation('C28/parse-codec/%s' % culprit_kind(culprit),
                       'type parsed from %r does not encode/decode like %s: %s' % (V.marshal_class(t), V.cql_name(plain), why), case)
        part.outcome(('parse-codec', 'differs', feature(culprit)))
    return T


def clause_reprint(part, reg, t, T, case):
    C = reg.C
    part.count('evaluations')
    try:
        desc2 = T.cass_parameterized_type(full=True)
        T2 = C.lookup_casstype(desc2)
        n1, n2 = T.cql_parameterized_type(), T2.cql_parameterized_type()
    except Exception as e:
        def fails(s):
            try:
                S = C.lookup_casstype(V.marshal_class(s))
                C.lookup_casstype(S.cass_parameterized_type(full=True)).cql_parameterized_type()
                return False
            except Exception:
                return True
        culprit = smallest(t, fails)
        part.violation('C28/reprint/%s/%s' % (culprit[0], type(e).__name__),
                       'the descriptor printed for %s cannot be read back: %r (printed: %r)' % (
                           V.marshal_class(t, full=False), e, _try(lambda: T.cass_parameterized_type(full=True))), case)
        part.outcome(('reprint', 'raises', culprit[0]))
        return
    if n1 != n2:
        part.violation('C28/reprint-cql-name/%s' % feature(t),
                       'lookup_casstype(%r) prints %r, the original type prints %r' % (desc2, n2, n1), case)
        part.outcome(('reprint', 'cql-name-differs', feature(t)))
        return
    plain = strip_wrappers(t)
    why = codec_difference(plain, T2, T)
    if why:
        part.violation('C28/reprint-codec/%s' % feature(t),
                       'lookup_casstype(%r) does not encode/decode like the original type: %s' % (desc2, why), case)
        part.outcome(('reprint', 'codec-differs', feature(t)))
        return
    part.outcome(('reprint', 'ok'))


def _try(f):
    try:
        return f()
    except Exception as e:
        return 'raised %r' % (e,)


def squeeze(s):
    """Remove blanks outside double quotes."""
    out, inq = [], False
    for c in s:
        if c == '"':
            inq = not inq
        if c == ' ' and not inq:
            continue
        out.append(c)
    return ''.join(out)


def name_feature(t):
    names = [x[2] for x in V.walk(t) if x[0] == 'udt']
    for label, pred in (('apostrophe', lambda n: "'" in n), ('backslash', lambda n: '\\' in n),
                        ('double-quote', lambda n: '"' in n), ('non-ascii', lambda n: any(ord(c) > 127 for c in n)),
                        ('quoted', lambda n: V.cql_ident(n) != n)):
        if any(pred(n) for n in names):
            return 'udt-name-' + label
    if any(x[0] == 'vector' for x in V.walk(t)):
        return 'vector'
    return 'plain'


def freeze_nested(t, top=True):
    """The tree as Cassandra spells it in system_schema: every collection, tuple or UDT below the
    top level is frozen, tuples are frozen everywhere."""
    k = t[0]
    if k in V.SCALARS:
        return t
    if k == 'frozen':
        return ('frozen', freeze_nested(t[1], False)[1] if freeze_nested(t[1], False)[0] == 'frozen' else freeze_nested(t[1], False))
    if k == 'udt':
        r = ('udt', t[1], t[2], tuple((fn, freeze_nested(ft, False)) for fn, ft in t[3]))
    elif k == 'vector':
        return ('vector', freeze_nested(t[1], False), t[2])
    else:
        r = (k,) + tuple(freeze_nested(s, False) for s in t[1:])
    return ('frozen', r) if (not top or k == 'tuple') else r


def clause_cql(part, reg, t, case):
    t = strip_wrappers(t, ('reversed',))
    _clause_cql(part, reg, t, case)
    f = freeze_nested(t)
    if f != t:
        _clause_cql(part, reg, f, case)


def cql_string_fails(C, t, sep):
    """does the CQL spelling of t fail the cql or the strip clause?"""
    s = V.cql_name(t, sep=sep)
    try:
        if squeeze(C.python_to_cqltype(C.cqltype_to_python(s))) != squeeze(s):
            return True
        return squeeze(C.strip_frozen(s)) != squeeze(V.cql_name(t, sep=sep, keep_frozen=False))
    except Exception:
        return True


def plain_names(t, names):
    """t with every user type renamed to a plain lower-case word (the same word for the same name)"""
    if t[0] in V.SCALARS:
        return t
    if t[0] == 'udt':
        return ('udt', t[1], names.setdefault(t[2], 'u%d' % len(names)), tuple((fn, plain_names(ft, names)) for fn, ft in t[3]))
    if t[0] == 'vector':
        return ('vector', plain_names(t[1], names), t[2])
    return (t[0],) + tuple(plain_names(x, names) for x in t[1:])


def cql_blame(C, t, sep):
    """Fingerprint component for a tree whose CQL spelling failed: 'plain' (or 'vector') when the same tree with plain
    user type names fails too (the names are not the reason); else the peculiarity of a user type name that fails on
    its own as frozen<name>; when every name is read correctly alone and the tree spells two or more quoted names, it
    is their coexistence in one string; otherwise the most peculiar name of the tree."""
    udts = list(dict.fromkeys(x for x in V.walk(t) if x[0] == 'udt'))
    if udts:
        p = plain_names(t, {})
        if cql_string_fails(C, p, sep):
            return name_feature(p)
    for u in udts:
        if cql_string_fails(C, ('frozen', u), sep):
            return name_feature(u)
    if sum(1 for x in V.walk(t) if x[0] == 'udt' and V.cql_ident(x[2]) != x[2]) >= 2:
        return 'several-quoted-names'
    return name_feature(t)


def _clause_cql(part, reg, t, case):
    C = reg.C
    for sep in (', ', ','):
        s = V.cql_name(t, sep=sep)
        part.count('evaluations')
        try:
            back = C.python_to_cqltype(C.cqltype_to_python(s))
        except Exception as e:
            part.violation('C28/cql-string/%s/%s' % (cql_blame(C, t, sep), type(e).__name__),
                           'python_to_cqltype(cqltype_to_python(%r)) raised %r' % (s, e), case)
            part.outcome(('cql', 'raises', cql_blame(C, t, sep)))
            continue
        if squeeze(back) != squeeze(s):
            part.violation('C28/cql-string/%s/differs' % cql_blame(C, t, sep),
                           'python_to_cqltype(cqltype_to_python(%r)) = %r' % (s, back), case)
            part.outcome(('cql', 'differs', cql_blame(C, t, sep)))
            continue                    # strip_frozen is built on the same two functions
        else:
            part.outcome(('cql', 'ok'))
        part.count('evaluations')
        want = V.cql_name(t, sep=sep, keep_frozen=False)
        try:
            got = C.strip_frozen(s)
        except Exception as e:
            part.violation('C28/strip-frozen/%s/%s' % (cql_blame(C, t, sep), type(e).__name__),
                           'strip_frozen(%r) raised %r' % (s, e), case)
            part.outcome(('strip', 'raises', cql_blame(C, t, sep)))
            continue
        if squeeze(got) != squeeze(want):
            part.violation('C28/strip-frozen/%s/differs' % cql_blame(C, t, sep),
                           'strip_frozen(%r) = %r, expected %r' % (s, got, want), case)
            part.outcome(('strip', 'differs', cql_blame(C, t, sep)))
        else:
            part.outcome(('strip', 'ok', 'had-frozen' if 'frozen' in s else 'no-frozen'))


def check_tree(part, reg, t, idx):
    case = {'type': t, 'type_repr': repr(t), 'descriptor': V.marshal_class(t, full=False)}
    part.count('trees')
    nt = norm_varchar(t)
    try:
        T = clause_parse(part, reg, nt, case)
        if T is not None:
            clause_reprint(part, reg, nt, T, case)
        clause_cql(part, reg, t, case)
    finally:
        reg.restore()
    if V.depth(t) > 1:
        part.mark_nontrivial(hash(t))
    if idx % 97 == 0:
        part.sample({'tree': V.cql_name(strip_wrappers(t, ('reversed',))), 'descriptor': V.marshal_class(t, full=False)}, limit=3)


def redefinition_pairs():
    """(t1, t2): the same user type name with the same field names, redefined with other field types - directly,
    only inside a parameter of the field type, or through a nested user type that was redefined"""
    I, X = ('int',), ('text',)
    fields = [I, X, ('list', I), ('list', X), ('set', I), ('map', I, X), ('map', X, I), ('tuple', I), ('tuple', X),
              G.udt('inner', (('a', I),)), G.udt('inner', (('a', X),)), ('frozen', ('list', I)), ('frozen', ('list', X))]
    out = []
    for a in fields:
        for b in fields:
            if a != b:
                out.append((G.udt('outer', (('f', a), ('g', I))), G.udt('outer', (('f', b), ('g', I)))))
    return out


def check_redefinition(part, reg, t1, t2):
    """descriptor of t2 parsed after the descriptor of t1 (same type name): the second parse must describe t2"""
    case = {'type': t2, 'after': t1, 'type_repr': repr(t2), 'after_repr': repr(t1), 'descriptor': V.marshal_class(t2, full=False), 'descriptor_before': V.marshal_class(t1, full=False)}
    part.count('trees')
    part.count('redefinitions')
    alone, after = Part(), Part()
    try:
        T = clause_parse(alone, reg, norm_varchar(t2), dict(case))
        if T is not None:
            clause_reprint(alone, reg, norm_varchar(t2), T, dict(case))
    finally:
        reg.restore()
    try:
        clause_parse(Part(), reg, norm_varchar(t1), dict(case))
        T = clause_parse(after, reg, norm_varchar(t2), dict(case))
        if T is not None:
            clause_reprint(after, reg, norm_varchar(t2), T, dict(case))
    finally:
        reg.restore()
    known = set(fp for fp, _, _ in alone.violations)
    for fp, what, _ in after.violations:
        if fp not in known:
            part.violation(fp + '/after-redefinition', 'after %s had been parsed: %s' % (case['descriptor_before'], what), case)
    part.outcome(('redefinition', bool(after.violations)))
    part.mark_nontrivial(hash((t1, t2)))


CQL_ONLY_NAMES = ("it's", 'a\\b', 'say "hi"', 'a b')


def cql_only_trees():
    """UDT names that only matter for the CQL-string clauses (any quoted identifier is legal)."""
    out = []
    I = ('int',)
    for n in CQL_ONLY_NAMES:
        u = G.udt(n, (('a', I),))
        out += [('frozen', u), ('map', ('text',), ('frozen', u)), ('list', ('frozen', ('tuple', u, I)))]
    out += [('frozen', ('frozen', ('list', I))), ('map', ('frozen', ('list', I)), ('frozen', ('set', I))),
            ('tuple', ('frozen', ('list', I)), ('frozen', ('set', I))), ('frozen', ('tuple', ('frozen', ('list', I)), I))]
    return out


# user type names for the trees that spell two or three user types in one CQL string: mixed case, blank, apostrophe,
# backslash, double quote (doubled when quoted), non-ASCII, leading digit (all must be written "quoted") and one plain name
SIDE_BY_SIDE_NAMES = ('Addr', 'Phone Number', "it's", 'a\\b', 'say "hi"', 'é', '1st', 'plain')


def several_names_trees():
    """Every ordered pair (incl. twice the same) and every ordered triple of SIDE_BY_SIDE_NAMES as user types side by side
    in a map, a tuple, and nested collections, frozen as Cassandra spells them (clause_cql also tries the spelling with every
    nested collection frozen)."""
    import itertools
    I = ('int',)
    U = dict((n, G.udt(n, (('a', I),))) for n in SIDE_BY_SIDE_NAMES)

    def F(x):
        return ('frozen', x)
    out = []
    for a, b in itertools.product(SIDE_BY_SIDE_NAMES, repeat=2):
        A, B = U[a], U[b]
        out += [('map', F(A), F(B)),
                ('tuple', F(A), F(B)),
                ('tuple', A, I, B),
                ('map', F(A), F(('list', F(B)))),
                ('list', F(('map', F(A), F(B)))),
                ('map', F(('set', F(A))), ('list', F(B)))]
    for a, b, c in itertools.product(SIDE_BY_SIDE_NAMES, repeat=3):
        A, B, C_ = U[a], U[b], U[c]
        out += [('tuple', F(A), F(B), F(C_)),
                ('map', F(A), F(('tuple', F(B), F(C_)))),
                ('map', F(('tuple', F(A), F(B))), F(C_)),
                ('list', F(('tuple', F(A), I, F(('map', F(B), F(('set', F(C_)))))))),]
    return out


def run_chunk(args):
    trees, cql_only, redefinitions = args
    import logging
    logging.disable(logging.CRITICAL)
    part = Part()
    reg = Registries()
    for idx, t in enumerate(trees):
        check_tree(part, reg, t, idx)
    for t in cql_only:
        part.count('trees')
        part.count('cql_only_trees')
        clause_cql(part, reg, t, {'type_repr': repr(t), 'cql': V.cql_name(t), 'cql_only': True})
        part.mark_nontrivial(hash(t))
    if redefinitions:
        for t1, t2 in redefinition_pairs():
            check_redefinition(part, reg, t1, t2)
    return part


def run(ctx):
    V.selftest()
    import cassandra.cqltypes       # before the fork
    depth = 3 if ctx.quick else 4
    levels = G.descriptor_type_trees(depth)
    trees = ctx.rotate([t for lvl in levels for t in lvl])
    n = 4 if ctx.quick else ctx.nproc * 4
    cql_only = list(dict.fromkeys(cql_only_trees() + several_names_trees()))
    n_cql_only = len(cql_only)
    cql_only = ctx.rotate(cql_only)
    chunks = [(trees[i::n], cql_only[i::n], i == 0) for i in range(n)]
    for part in ctx.pmap(run_chunk, [c for c in chunks if c[0] or c[1] or c[2]]):
        ctx.merge(part)
    ctx.cov['type_trees_per_level'] = [len(l) for l in levels]
    ctx.cov['rule'] = ('all type trees of depth <= %d of the grid (per level %s) + %d CQL-only trees (single quoted names, nested frozen, '
                       'and every ordered pair / triple of %d user type names side by side in 6 / 4 map, tuple and nested shapes); '
                       'per tree: 2 descriptor spellings '
                       'parsed, CQL name, codec comparison on up to 6 values x 2 protocol versions, reprint round trip, registry check, '
                       '2 CQL spellings through cqltype_to_python/python_to_cqltype and strip_frozen; non-trivial = distinct tree '
                       'that is not a bare scalar' % (depth, [len(l) for l in levels], n_cql_only, len(SIDE_BY_SIDE_NAMES)))
    ctx.cov['exhaustive'] = True
    ctx.assume('varchar has no marshal class of its own in Cassandra: its descriptor is UTF8Type and reads back as text')
    ctx.assume('the CQL name of a type containing reversed<> is not asserted (only that it is stable under reprinting)')
    ctx.assume('frozen<> is generated over collections only (Cassandra prints tuples and UDTs without a FrozenType wrapper)')


def replay(ctx, data):
    import ast
    # the JSON form of a deep tree is cut off by the recorder: the tree is also recorded as its python literal
    t = ast.literal_eval(data['type_repr']) if data.get('type_repr') else tuplify(data['type'])
    import logging
    logging.disable(logging.CRITICAL)
    part = Part()
    reg = Registries()
    if data.get('after') or data.get('after_repr'):
        t1 = ast.literal_eval(data['after_repr']) if data.get('after_repr') else tuplify(data['after'])
        check_redefinition(part, reg, t1, t)
    elif data.get('cql_only'):
        clause_cql(part, reg, t, {'type_repr': repr(t), 'cql_only': True})
    else:
        check_tree(part, reg, t, 1)
    for fp, what, _ in part.violations:
        print(fp, '::', what)
    return bool(part.violations)
