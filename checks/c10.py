"""C10 A failed connection fails every pending request exactly once.

Layer E (explore.bfs): bounded request histories on a real Connection (plain send_msg requests whose
handler returns or raises, a heartbeat, a continuous-paging session, a blocking wait_for_response) with a
fault injected at every event point and every continuation after the fault (late frames for the failed
streams, further sends, a second fault, the "error the rest from another thread" task).

Layer S (vt/c10sched.py): the failure runs on a reactor thread (optionally a second thread closes the
connection at the same time) while client threads take a stream id and call send_msg; every schedule with
at most one preemption, scheduling points at every source line of defunct / close / error_all_requests /
send_msg / process_msg.  Second family: the reactor thread processes the response of an outstanding request
(process_msg) while another thread runs defunct() / close(); every schedule with at most two preemptions.
"""
from vt.core import Part, HarnessError
from vt import explore, connlib

META = {
    'level': 'model_checking',
    'engine': 'E+S',
    'technique': 'explicit-state BFS over request/response/fault histories on the real Connection, canonical-state dedup, '
                 'plus stateless preemption-bounded schedule exploration of the failure (reactor thread) against concurrent send_msg calls (client threads) '
                 'and of a response being processed on the reactor thread against defunct() / close() on another thread',
    'text': 'Programs of up to 4 requests on a handshaken connection (send_msg with callbacks as the pools do, the callback either '
            'returning or raising whatever it is handed (plainx: a user errback / retry hook that blows up); HeartbeatFuture; '
            'a continuous-paging session created by the first page as ResponseFuture does; one blocking wait_for_response whose '
            'reply or fault arrives while it waits).  Events: next send, response per outstanding stream, next / last page, and at '
            'every point each fault {defunct(OSError), close(), undecodable frame on a stream, ERROR ProtocolError frame on a stream}; '
            'after a fault every order of {late frame per failed stream (bytes the reactor had already read), further send_msg, '
            'second defunct/close, run of the error-callbacks thread (CALLBACK_ERR_THREAD_THRESHOLD=2 variant)}.  Invariants in every '
            'state: no handler invoked twice; nothing delivered to a handler after the fault; once the connection is down and no '
            'callback thread is pending every request outstanding at the fault has been invoked exactly once with a connection '
            'error (the continuous-paging session: exactly one error and no page after it) whether or not other handlers raised; '
            'send_msg raises ConnectionShutdown.  '
            'Schedule layer: 2-3 requests outstanding (handlers returning / raising), then a reactor thread applies the fault '
            '{defunct(OSError), close(), undecodable frame, ERROR ProtocolError frame; defunct with a second thread calling close()} '
            'while 1-2 client threads borrow a stream id under the lock and call send_msg (as HostConnection.borrow_connection + '
            'ResponseFuture._query do); inline and CALLBACK_ERR_THREAD_THRESHOLD=2 (the error-callbacks thread is a scheduled thread); '
            'all schedules with <= 1 preemption (thorough: <= 2, 3 for the smallest), scheduling points at every virtual lock / event / '
            'thread start and every source line of Connection.defunct, error_all_requests (and its nested functions), '
            'error_all_cp_sessions, send_msg, process_msg and the reactor close().  Oracle per execution: a send that starts when '
            'is_defunct or is_closed is already set is refused with ConnectionShutdown; every request whose send_msg returned '
            'normally, before or during the failure, has its callback invoked exactly once with a connection error; the callback '
            'of a refused send is never invoked; no handler stays registered; no deadlock.  '
            'Response family: 2-3 requests outstanding, the reactor thread reads the RESULT frame of one of them (thorough: two in a row; '
            'handler returning / raising) and runs process_msg while another thread calls defunct(OSError) or close() (or two threads one each; '
            'inline and threshold 2; one variant with a racing send_msg; thorough: the reactor then reads an undecodable / ProtocolError '
            'frame while a thread closes); all schedules with <= 2 preemptions (1 with three threads) at the same '
            'scheduling points, i.e. the failing thread stopped between any two lines of defunct / close / error_all_requests while the '
            'reactor is stopped between any two lines of process_msg.  Oracle: every outstanding handler is invoked exactly once; the '
            'request whose response is being processed gets either that response or a connection error (never both, never neither), the '
            'others a connection error; no handler stays registered.',
    'note': 'Layer E: single-threaded interleavings.  Layer S: preemption granularity is the source line in the named functions and the '
            'virtual primitive elsewhere; "started after the mark" is read by the client thread immediately before the call (no '
            'scheduling point in between).  Response family: the request whose response the reactor is processing counts as completed by '
            'whichever of the response / the connection error reaches its handler (the statement\'s "exactly once" is what is judged); '
            'interleavings inside one source line (e.g. between loading self._requests and calling pop on it) are not explored.  An undecodable frame on the stream of a handler that raises is left out (process_msg hands '
            'the decode error to the handler before defunct(); where the handler\'s exception goes is reactor-specific).  VConnection.close() is the '
            'contract common to the shipped reactors.  The continuous-paging glue (create the session on the first page) copies '
            'ResponseFuture._handle_continuous_paging_first_response.  The stream whose own frame is undecodable / a ProtocolError '
            'may receive that error object instead of ConnectionShutdown.',
    'design_ref': 'C10',
}

VERSION = 0x42
COLS = None


def cols():
    from vt.world import wire
    return [('k', wire.T_INT)]


class Req(object):
    def __init__(self, idx, kind):
        self.idx, self.kind = idx, kind
        self.stream = None
        self.calls = []            # (phase, class name) ; phase = 'live' | 'down'
        self.answered = False      # the server sent its (first) normal response
        self.at_fault = None       # outstanding when the connection went down?
        self.late_done = False
        self.session = None
        self.pages_sent = 0
        self.cp_finished = False   # last page sent
        self.hb = None
        self.wait_result = None
        self.fault_stream = False  # the fault was a frame on this request's own stream
        self.pages_at_fault = None


class St(object):
    pass


SIMPLE = ('plain', 'plainx', 'hb')       # plainx: a plain request whose handler raises whatever it is handed


class HandlerRaises(RuntimeError):
    pass


def classify(x):
    from cassandra.connection import ConnectionShutdown, ConnectionException
    from cassandra.protocol import ErrorMessage
    if isinstance(x, ConnectionShutdown):
        return 'ConnectionShutdown'
    if isinstance(x, ConnectionException):
        return 'ConnectionException'
    if isinstance(x, ErrorMessage):
        return 'ErrorMessage'
    if isinstance(x, BaseException):
        return 'exc:' + type(x).__name__
    return 'resp:' + type(x).__name__


class _Scripted(object):
    """outbox entry delivered by World.pump() while wait_for_response blocks"""
    def __init__(self, fn):
        self.fn = fn

    def feed(self, data):
        self.fn()


class H(explore.Harness):
    name = 'c10'

    # ------------------------------------------------------------------ build
    def init(self):
        from vt.world.vworld import World, VServer
        from cassandra.connection import Connection
        st = St()
        st.srv = VServer()
        st.w = World(st.srv, manual=True)
        st.w.__enter__()
        st.saved_threshold = Connection.CALLBACK_ERR_THREAD_THRESHOLD
        try:
            if self.params.get('threshold'):
                Connection.CALLBACK_ERR_THREAD_THRESHOLD = self.params['threshold']
            st.conn = connlib.bare_connection(st.w, VERSION)
            st.srv.hold = lambda c, r: True
            st.reqs = []
            st.down = False            # a fault happened
            st.nfaults = 0
            st.sent_after = None       # outcome of a send after the fault
            st.fault = None
            st.threads_run = 0
            st.problems = []           # oracle observations made while applying events
        except BaseException:
            self.cleanup(st)
            raise
        return st

    def cleanup(self, st):
        from cassandra.connection import Connection
        Connection.CALLBACK_ERR_THREAD_THRESHOLD = st.saved_threshold
        st.w.__exit__()

    # ------------------------------------------------------------------ helpers
    def phase(self, st):
        return 'down' if st.down else 'live'

    def pending_of(self, st, r):
        for p in st.srv.pending:
            if p.stream == r.stream and not p.answered:
                return p
        return None

    def frame(self, st, r, op, body):
        from vt.world import wire
        return wire.frame(VERSION, r.stream, op, body)

    def normal_response(self, st, r):
        from vt.world import wire
        if r.kind in ('hb', 'wait'):
            return self.frame(st, r, wire.OP_SUPPORTED, wire.supported({'CQL_VERSION': ['3.4.5'], 'COMPRESSION': []}))
        if r.kind == 'cp':
            return self.frame(st, r, wire.OP_RESULT, wire.result_rows_cp(cols(), [[1]], VERSION, 1, False))
        return self.frame(st, r, wire.OP_RESULT, wire.result_void())

    def fault_frame(self, st, r, what):
        from vt.world import wire
        if what == 'garbage':
            return self.frame(st, r, wire.OP_RESULT, b'\x00\x00')
        return self.frame(st, r, wire.OP_ERROR, wire.error(wire.ERR_PROTOCOL, 'Invalid value for opcode'))

    def mark_fault(self, st, own=None):
        """called just before a fault is applied"""
        if not st.down:
            for r in st.reqs:
                r.at_fault = self.outstanding(r)
                if r.session is not None:
                    r.pages_at_fault = len([e for e in r.session._page_queue if e[2] is None])
            if own is not None:
                own.fault_stream = True
        st.nfaults += 1

    def outstanding(self, r):
        if r.stream is None:
            return False
        if r.kind == 'cp':
            return (not r.answered) or (r.session is not None and not r.cp_finished)
        return not r.answered

    def sync_down(self, st):
        if st.conn.is_closed or st.conn.is_defunct:
            st.down = True

    # ------------------------------------------------------------------ events
    def events(self, st):
        prog = self.params['program']
        evs = []
        if not st.down:
            if len(st.reqs) < len(prog):
                k = prog[len(st.reqs)]
                if k == 'wait':
                    for script in ('resp', 'garbage', 'proto', 'defunct', 'close'):
                        evs.append((('sendwait', script), 0))
                else:
                    evs.append((('send',), 0))
            for r in st.reqs:
                if r.kind == 'wait':
                    continue
                if not r.answered:
                    evs.append((('resp', r.idx), 0))
                elif r.kind == 'cp' and r.session is not None and not r.cp_finished and r.pages_sent < 3:
                    evs.append((('page', r.idx, 0), 0))
                    evs.append((('page', r.idx, 1), 0))
            evs.append((('defunct',), 0))
            evs.append((('close',), 0))
            for r in st.reqs:
                if self.outstanding(r) and r.kind != 'wait':
                    if r.kind != 'plainx':       # see META note / ctx.assume
                        evs.append((('garbage', r.idx), 0))
                    evs.append((('proto', r.idx), 0))
        else:
            if st.w.thread_tasks:
                evs.append((('thread',), 0))
            for r in st.reqs:
                if r.at_fault and not r.late_done and r.kind != 'wait':
                    evs.append((('late', r.idx), 0))
            if st.sent_after is None:
                evs.append((('send_after',), 0))
            if st.nfaults < 2:
                evs.append((('defunct',), 0))
                evs.append((('close',), 0))
        return evs

    def apply(self, st, ev):
        from cassandra.protocol import OptionsMessage, QueryMessage, ResultMessage, ProtocolHandler
        from cassandra.connection import ConnectionShutdown, HeartbeatFuture
        conn = st.conn
        kind = ev[0]
        if kind == 'send':
            r = Req(len(st.reqs), self.params['program'][len(st.reqs)])
            st.reqs.append(r)
            if r.kind == 'hb':
                harness = self

                class HB(HeartbeatFuture):
                    def _options_callback(hself, response):
                        r.calls.append((harness.phase(st), classify(response)))
                        HeartbeatFuture._options_callback(hself, response)
                before = set(conn._requests)
                r.hb = HB(conn, None)
                new = set(conn._requests) - before
                if len(new) != 1:
                    raise HarnessError('heartbeat did not register one request: %r' % (new,))
                r.stream = new.pop()
                return
            with conn.lock:            # what HostConnection.borrow_connection does
                conn.in_flight += 1
                r.stream = conn.get_request_id()
            if r.kind == 'plain':
                conn.send_msg(QueryMessage('SELECT * FROM t', 1), r.stream,
                              lambda resp: r.calls.append((self.phase(st), classify(resp))))
            elif r.kind == 'plainx':
                def raising(resp):
                    r.calls.append((self.phase(st), classify(resp)))
                    raise HandlerRaises('handler of request %d raises' % r.idx)
                conn.send_msg(QueryMessage('SELECT * FROM t', 1), r.stream, raising)
            else:
                def first(resp):
                    r.calls.append((self.phase(st), classify(resp)))
                    if isinstance(resp, ResultMessage):
                        # ResponseFuture._handle_continuous_paging_first_response
                        r.session = conn.new_continuous_paging_session(resp.stream_id, ProtocolHandler.decode_message,
                                                                       lambda names, rows: rows, None)
                        r.session.on_message(resp)
                conn.send_msg(QueryMessage('SELECT * FROM t', 1), r.stream, first)
        elif kind == 'sendwait':
            script = ev[1]
            r = Req(len(st.reqs), 'wait')
            st.reqs.append(r)
            others = [x for x in st.reqs if x is not r]

            def reactor():
                # runs from World.pump() while wait_for_response blocks: the reactor thread's next action
                p = [p for p in st.srv.pending if not p.answered and p.req['op'] == 'OPTIONS'][-1]
                r.stream = p.stream
                if script == 'resp':
                    r.answered = True
                    conn.feed(self.normal_response(st, r))
                    return
                for x in others:
                    x.at_fault = self.outstanding(x)
                    if x.session is not None:
                        x.pages_at_fault = len([e for e in x.session._page_queue if e[2] is None])
                r.at_fault = True
                st.nfaults += 1
                if script == 'defunct':
                    conn.defunct(OSError(104, 'Connection reset by peer'))
                elif script == 'close':
                    conn.close()
                else:
                    r.fault_stream = True
                    conn.feed(self.fault_frame(st, r, script))
                st.down = True
            st.srv.outbox.append((_Scripted(reactor), b''))
            try:
                resp = conn.wait_for_response(OptionsMessage(), timeout=2.0)
                r.wait_result = 'resp:' + type(resp).__name__
            except Exception as e:
                r.wait_result = classify(e) if not type(e).__name__ == 'OperationTimedOut' else 'OperationTimedOut'
            r.calls.append((self.phase(st), r.wait_result))
            st.fault = script if script != 'resp' else st.fault
            self.sync_down(st)
        elif kind == 'resp':
            r = st.reqs[ev[1]]
            r.answered = True
            p = self.pending_of(st, r)
            if p is not None:
                p.answered = True
            if r.kind == 'cp':
                r.pages_sent = 1
            conn.feed(self.normal_response(st, r))
        elif kind == 'page':
            from vt.world import wire
            r = st.reqs[ev[1]]
            r.pages_sent += 1
            if ev[2]:
                r.cp_finished = True
            conn.feed(self.frame(st, r, wire.OP_RESULT, wire.result_rows_cp(cols(), [[r.pages_sent]], VERSION, r.pages_sent, bool(ev[2]))))
        elif kind in ('defunct', 'close'):
            self.mark_fault(st)
            if st.fault is None:
                st.fault = kind
            if kind == 'defunct':
                conn.defunct(OSError(104, 'Connection reset by peer'))
            else:
                conn.close()
            st.down = True
        elif kind in ('garbage', 'proto'):
            r = st.reqs[ev[1]]
            self.mark_fault(st, own=r)
            st.fault = kind
            conn.feed(self.fault_frame(st, r, kind))
            st.down = True
            if not (conn.is_closed or conn.is_defunct):
                st.problems.append(('fault-ignored/%s' % kind, 'connection still open after a %s frame' % kind))
        elif kind == 'late':
            from vt.world import wire
            r = st.reqs[ev[1]]
            r.late_done = True
            if r.kind == 'cp' and r.session is not None:
                data = self.frame(st, r, wire.OP_RESULT, wire.result_rows_cp(cols(), [[9]], VERSION, 9, False))
            else:
                data = self.normal_response(st, r)
            # bytes the reactor thread had already read when the connection went down
            conn._iobuf.write(data)
            conn.process_io_buffer()
        elif kind == 'send_after':
            try:
                with conn.lock:
                    rid = conn.get_request_id()
                conn.send_msg(OptionsMessage(), rid, lambda resp: st.problems.append(
                    ('callback-of-refused-send', 'callback of a send on a dead connection invoked with %s' % classify(resp))))
                st.sent_after = 'accepted'
            except ConnectionShutdown:
                st.sent_after = 'ConnectionShutdown'
            except Exception as e:
                st.sent_after = 'exc:' + type(e).__name__
        elif kind == 'thread':
            st.w.run_thread_task(0)
            st.threads_run += 1
        else:
            raise HarnessError('unknown event %r' % (ev,))

    # ------------------------------------------------------------------ observation
    def cp_view(self, r):
        """(pages before an error, errors, pages after the first error) as the consumer's queue shows them"""
        if r.session is None:
            return None
        q = list(r.session._page_queue)      # appendleft: newest first
        q.reverse()
        errs = [i for i, e in enumerate(q) if e[2] is not None]
        if not errs:
            return (len(q), 0, 0, None)
        first = errs[0]
        return (first, len(errs), len([e for e in q[first:] if e[2] is None]), classify(q[first][2]))

    def canon(self, st):
        c = st.conn
        return (self.params['program'], self.params.get('threshold'), c.is_closed, c.is_defunct, st.down, st.nfaults, st.fault,
                st.sent_after, len(st.w.thread_tasks), st.threads_run,
                tuple((r.kind, r.stream, tuple(r.calls), r.answered, r.at_fault, r.late_done, r.pages_sent, r.cp_finished,
                       self.cp_view(r), r.wait_result, r.fault_stream) for r in st.reqs),
                tuple(sorted(c._requests)), tuple(sorted(c._continuous_paging_sessions)))

    def check(self, st, part, hist):
        conn = st.conn
        tag = 't%s' % self.params.get('threshold') if self.params.get('threshold') else 'inline'

        def viol(fp, what):
            part.violation('C10/%s' % fp, '%s; program %r, history %r' % (what, self.params['program'], hist),
                           {'params': self.params, 'history': [list(e) for e in hist]})
        for fp, what in st.problems:
            viol(fp, what)
        settled = st.down and not st.w.thread_tasks
        for r in st.reqs:
            n = len(r.calls)
            if n > 1:
                viol('invoked-twice/%s/after-%s/%s' % (r.kind, st.fault, tag), 'request %d (%s) handler invoked %d times: %r' % (r.idx, r.kind, n, r.calls))
            live = [c for c in r.calls if c[0] == 'live']
            down = [c for c in r.calls if c[0] == 'down']
            if r.kind != 'wait' and st.down and r.at_fault is False and down:
                viol('delivery-after-failure/%s/after-%s' % (r.kind, st.fault),
                     'request %d (%s) was not outstanding at the fault but its handler ran afterwards: %r' % (r.idx, r.kind, r.calls))
            if r.kind in SIMPLE and r.at_fault and any(c[1].startswith('resp:') for c in down):
                viol('response-after-failure/%s/after-%s' % (r.kind, st.fault), 'request %d got a response after the connection failed: %r' % (r.idx, r.calls))
            if r.kind in SIMPLE and settled and r.at_fault:
                if n == 0:
                    viol('never-failed/%s/after-%s/%s' % (r.kind, st.fault, tag), 'request %d (%s, stream %s) outstanding at the fault was never completed' % (r.idx, r.kind, r.stream))
                elif n == 1:
                    cls = r.calls[0][1]
                    ok = cls in ('ConnectionShutdown', 'ConnectionException') or \
                        (r.fault_stream and (cls.startswith('exc:') or cls == 'ErrorMessage'))
                    if not ok:
                        viol('failed-with-non-connection-error/%s/after-%s' % (r.kind, st.fault), 'request %d completed with %s' % (r.idx, cls))
            if r.kind == 'cp':
                v = self.cp_view(r)
                if v is None:
                    # session never created: the initial request behaves like a plain one
                    if settled and r.at_fault and n == 0:
                        viol('never-failed/cp-first-request/after-%s/%s' % (st.fault, tag), 'paging request %d was never completed' % r.idx)
                else:
                    before, errs, after, ecls = v
                    if errs > 1:
                        viol('invoked-twice/cp-session/after-%s' % st.fault, 'continuous paging session of request %d received %d errors' % (r.idx, errs))
                    if after:
                        viol('delivery-after-failure/cp-session/late-page',
                             'continuous paging session of request %d received %d page(s) after its error (fault: %s)' % (r.idx, after, st.fault))
                    if r.at_fault is False and errs:
                        viol('delivery-after-failure/cp-session-finished/after-%s' % st.fault, 'finished session got an error')
                    if settled and r.at_fault and errs == 0:
                        viol('never-failed/cp-session/after-%s' % st.fault,
                             'continuous paging session of request %d (stream %s) was active when the connection went down and never '
                             'received an error (its consumer waits forever)' % (r.idx, r.stream))
                    if st.down and not errs and r.pages_at_fault is not None and before > r.pages_at_fault:
                        viol('delivery-after-failure/cp-session/late-page',
                             'continuous paging session of request %d received a page after the connection went down (fault: %s)' % (r.idx, st.fault))
            if r.kind == 'wait' and r.wait_result is not None:
                script = [e for e in hist if e[0] == 'sendwait'][0][1]
                if script == 'resp':
                    if not r.wait_result.startswith('resp:'):
                        viol('waiter/response-lost', 'wait_for_response raised %s although the response arrived' % r.wait_result)
                else:
                    ok = r.wait_result in ('ConnectionShutdown', 'ConnectionException') or \
                        (script in ('garbage', 'proto') and (r.wait_result.startswith('exc:') or r.wait_result == 'ErrorMessage'))
                    if not ok:
                        viol('waiter/%s/after-%s' % (r.wait_result.split(':')[0], script), 'wait_for_response ended with %s after %s' % (r.wait_result, script))
        if st.sent_after is not None and st.sent_after != 'ConnectionShutdown':
            viol('send-not-refused/after-%s' % st.fault, 'send_msg on the failed connection: %s' % st.sent_after)
        if st.down and conn._requests and not st.w.thread_tasks:
            viol('handlers-left-registered/after-%s' % st.fault, 'streams %r still registered on the dead connection' % sorted(conn._requests))
        part.outcome((st.fault, st.down, tuple(sorted(set(c[1] for r in st.reqs for c in r.calls)))))


PROGRAMS_Q = [
    {'program': ('plain', 'plain', 'hb'), 'depth': 24},
    {'program': ('plain', 'cp', 'plain'), 'depth': 24},
    {'program': ('cp', 'hb'), 'depth': 24},
    {'program': ('plain', 'wait'), 'depth': 24},
    {'program': ('plain', 'plain', 'plain', 'hb'), 'threshold': 2, 'depth': 24},
    {'program': ('cp', 'plain', 'plain', 'plain'), 'threshold': 2, 'depth': 24},
    # handlers that raise while being failed: three and four outstanding, the raising one first / in the middle / last
    {'program': ('plainx', 'plain', 'plain'), 'depth': 24},
    {'program': ('plain', 'plainx', 'plainx'), 'depth': 24},
    {'program': ('plain', 'plainx', 'plain', 'hb'), 'threshold': 2, 'depth': 24},
    {'program': ('plainx', 'cp', 'plain'), 'depth': 24},
]
def _programs_thorough():
    """every program of 4 requests over {plain, cp, hb} with at most one cp and one hb, and the same with exactly one raising
    handler (plainx) and no cp, inline and with the callback thread (threshold 2); every program of 3 requests over
    {plain, plainx, cp} with a raising handler (at most one cp); plus the blocking waiter after every 2-request prefix"""
    import itertools
    out = []
    for t in itertools.product(('plain', 'plainx', 'cp', 'hb'), repeat=4):
        if t.count('cp') <= 1 and t.count('hb') <= 1 and (t.count('plainx') == 0 or (t.count('plainx') == 1 and 'cp' not in t)):
            out.append({'program': t, 'depth': 40})
            out.append({'program': t, 'threshold': 2, 'depth': 40})
    for t in itertools.product(('plain', 'plainx', 'cp'), repeat=3):
        if t.count('plainx') >= 1 and t.count('cp') <= 1:
            out.append({'program': t, 'depth': 40})
            out.append({'program': t, 'threshold': 2, 'depth': 40})
    for t in itertools.product(('plain', 'cp', 'hb'), repeat=2):
        if t.count('cp') <= 1 and t.count('hb') <= 1:
            out.append({'program': t + ('wait',), 'depth': 40})
    return out


PROGRAMS_T = _programs_thorough()


def run(ctx):
    connlib.quiet_driver_logs()
    connlib.before_fork()
    progs = PROGRAMS_Q if ctx.quick else PROGRAMS_T
    for p in ctx.rotate(progs):
        params = {k: v for k, v in p.items() if k != 'depth'}
        label = 'c10/%s%s' % ('-'.join(p['program']), '/t%d' % p['threshold'] if p.get('threshold') else '')
        explore.bfs(ctx, H, params, max_depth=p['depth'], label=label)
    run_sched(ctx)
    ctx.count('transitions', ctx.counters.get('executions', 0) + ctx.counters.get('sched_steps', 0))
    ctx.count('evaluations', ctx.counters.get('executions', 0) + ctx.counters.get('sched_executions', 0))
    ctx.cov['rule'] = ('programs %r explored breadth-first until no new state appears (the depth bounds are never reached: complete_to_depth / frontier_left=0 per harness) with every enabled event at every state (fault at every '
                       'event point; after the fault every continuation order); states deduplicated on (connection flags, per-request '
                       'handler log / server state, registered streams, pending callback thread); schedule layer: every execution with '
                       '<= bound preemptions of each configuration in vt.c10sched.configs (harnesses.c10-sched), non-trivial = executions '
                       'that deviate from the default schedule' % (progs,))
    ctx.cov['distinct_nontrivial'] = ctx.counters.get('states', 0) + len(ctx.nontrivial)
    ctx.assume('handlers are registered exactly as the pools / HeartbeatFuture / ResponseFuture do (send_msg with a callback; session on first page)')
    ctx.assume('an undecodable frame on the stream of a handler that raises is not generated: process_msg hands the decode error to the '
               'handler before it calls defunct(), the handler\'s exception leaves process_msg and what the reactor does with it is '
               'reactor-specific (the connection may not become defunct at all, which the statement does not cover)')
    ctx.assume('schedule layer, response family: the frame being processed is a complete, decodable RESULT for an outstanding stream; the failure '
               'comes from a thread other than the reactor (heartbeat failure, pool / cluster shutdown, a writer reporting a socket error)')
    ctx.assume('schedule layer: one reactor thread; preemption only at the scheduling points named in META; a racing send counts as '
               '"started after the failure" when is_defunct / is_closed was set immediately before the call')
    ctx.assume('a late frame is delivered by writing to _iobuf and calling process_io_buffer(), i.e. the reactor had read the bytes before the '
               'connection went down; VConnection.feed() itself drops data once the connection is closed, as reactors stop reading')


def run_sched(ctx):
    from vt import c10sched
    jobs = list(ctx.rotate(c10sched.configs(ctx.thorough)))
    roots = ctx.pmap(c10sched.root, jobs)
    sub = []
    maxpts = 0
    for (params, bound), (part, kids, npts) in zip(jobs, roots):
        ctx.merge(part)
        maxpts = max(maxpts, npts)
        k = max(1, min(len(kids), 8 if bound <= 1 else 32))
        sub += [(params, bound, kids[i::k]) for i in range(k) if kids[i::k]]
    for part in ctx.pmap(c10sched.sub, sub):
        ctx.merge(part)
    ctx.cov.setdefault('harnesses', {})['c10-sched'] = {
        'configs': [{'params': p, 'preemption_bound': b} for p, b in jobs], 'executions': ctx.counters.get('sched_executions', 0),
        'max_choice_points': maxpts, 'complete': True}


def replay(ctx, data):
    connlib.quiet_driver_logs()
    if data.get('layer') == 'sched':
        from vt import c10sched
        part = Part()
        c10sched.harness(data['params'], data['prefix'], part)
        for fp, what, _ in part.violations:
            print(fp, '::', what[:500])
        return bool(part.violations)
    params = dict(data['params'])
    params['program'] = tuple(params['program'])
    hist = [tuple(e) for e in data['history']]
    part = explore.replay(H, params, hist)
    for fp, what, _ in part.violations:
        print(fp, '::', what[:500])
    return bool(part.violations)
