"""./check <Cxx> [--tier quick|thorough] [--replay FILE] [--list]"""
import argparse
import importlib
import json
import os
import sys
import traceback

from vt import core


def main(argv=None):
    ap = argparse.ArgumentParser(prog='check')
    ap.add_argument('prop')
    ap.add_argument('--tier', default=os.environ.get('VERIF_TIER') or 'quick', choices=['quick', 'thorough'])
    ap.add_argument('--replay', default=None)
    ap.add_argument('--seed', type=int, default=None)
    args = ap.parse_args(argv)
    seed = args.seed
    if seed is None:
        try:
            seed = int(os.environ.get('VERIF_SEED', '0') or 0)
        except ValueError:
            seed = 0
    prop = args.prop.upper()
    core.setup_repo_path()
    try:
        mod = importlib.import_module('checks.%s' % prop.lower())
    except ImportError:
        traceback.print_exc()
        print('no check module for %s' % prop)
        return 2
    ctx = core.Ctx(prop, tier=args.tier, seed=seed, replaying=bool(args.replay))
    if 'level' in getattr(mod, 'META', {}):
        ctx.level = mod.META['level']
    if args.replay:
        with open(args.replay) as f:
            art = json.load(f)
        if not hasattr(mod, 'replay'):
            print('check %s has no replay()' % prop)
            return 2
        still = mod.replay(ctx, art['data'])
        if still:
            print('REPLAY: violation reproduced: %s' % art.get('fingerprint'))
            return 1
        print('REPLAY: no violation for this case on the current tree')
        return 0
    try:
        mod.run(ctx)
    except core.HarnessError:
        traceback.print_exc()
        print('HARNESS-ERROR property=%s (not a verdict about the driver)' % prop)
        return 2
    ev = ctx.finish()
    cov = ev['coverage']
    print('%s tier=%s seed=%d wall=%.1fs evaluations=%s states=%s transitions=%s distinct_nontrivial=%s '
          'outcomes=%s exhaustive=%s violations=%d known=%d' % (
              prop, ctx.tier, seed, ev['wall_s'], cov.get('evaluations'), cov.get('states'),
              cov.get('transitions'), cov.get('distinct_nontrivial'), cov.get('distinct_outcomes'),
              cov.get('exhaustive'), ev['violations'], len(cov['known_findings_hit'])))
    return 1 if ctx.failed else 0


if __name__ == '__main__':
    sys.exit(main())
