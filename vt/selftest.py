"""Framework self-test run by setup_cmd (kept fast)."""
import sys

def main():
    ok = True
    try:
        from vt import sched
        ok &= sched.selftest()
    except ImportError:
        pass
    try:
        from vt import explore
        ok &= explore.selftest()
    except ImportError:
        pass
    print('selftest', 'ok' if ok else 'FAILED')
    return 0 if ok else 1

if __name__ == '__main__':
    sys.exit(main())
