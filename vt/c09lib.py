"""World, alphabet and oracle shared by the two layers of C09 (stream-id multiplexing).

A real Cluster/Session with ONE host over the virtual server.  The connection class is a
VConnection whose id space is scaled down (`max_in_flight` 3..4 instead of 32768, the initial free
list 1..2 ids instead of 300, `orphaned_threshold` 2 instead of 24576) so that exhaustion, growth
of `highest_request_id`, reuse and orphan handling all happen within 3-5 requests.  The server
holds every application request; an answer is a rows result with one int, the tag found in the
query text of the request *that arrived on that stream* - so whoever receives it can tell whether
it is the answer to its own request.  With `prepared` every request is an EXECUTE of its own
prepared statement (the statement id names the tag); the server may answer it UNPREPARED, and
answers the PREPARE the driver then sends with the id of the statement text that arrived on that
stream.  With `max_unwritable` the socket of a pooled connection may stop being writable
(`Connection._socket_writable`, cleared by the libev reactor on EAGAIN): send_msg then refuses.
With `n_block` a caller may issue blocking requests through `Connection.wait_for_response(timeout=...)` on a
pooled connection: answered within the timeout, or the timed wait expires and the request stays on the wire.

The oracle observes (a) the wire: what the server received, on which connection and stream, and
what is still unanswered; (b) the application: what each future's callbacks were called with;
(c) the four state variables the property names (`request_ids`, `_requests`,
`orphaned_request_ids`, `in_flight`) of every open connection.  It does not copy driver logic.
"""
from collections import deque

from vt.reqworld import ReqWorld, VConnection, Observer
from cassandra.query import SimpleStatement
from cassandra import ConsistencyLevel, OperationTimedOut
from cassandra.protocol import QueryMessage
from vt.world import wire
from vt.vthreading import WouldBlock

TAG0 = 100
BLOCK_TAG0 = 500        # tags of the blocking requests (Connection.wait_for_response), apart from those of the futures
ROWS_COLS = [('v', wire.T_INT)]


def protocol_max_stream(v):
    """Largest stream id the native protocol allows (spec: 1-byte signed id in v1/v2, 2-byte signed in v3+)."""
    return 2 ** 15 - 1 if v >= 3 else 2 ** 7 - 1


def conn_class(max_in_flight, orphaned_threshold, initial_ids=None):
    class C09Connection(VConnection):
        """VConnection with a scaled-down id space (class attributes the driver documents as tunable)."""
        def _send_options_message(self):
            # first use of a stream id on a connection.  The driver starts v3+ connections with
            # min(300, max_in_flight) free ids and mints the others on demand; scale the 300 down too.
            if self.c09_initial_ids is not None and self.protocol_version >= 3 and not self.c09_scaled:
                self.c09_scaled = True
                self.request_ids = deque(range(self.c09_initial_ids))
                self.highest_request_id = self.c09_initial_ids - 1
            return VConnection._send_options_message(self)
    C09Connection.max_in_flight = max_in_flight
    C09Connection.orphaned_threshold = orphaned_threshold
    C09Connection.c09_initial_ids = initial_ids
    C09Connection.c09_scaled = False
    return C09Connection


class NotEnabled(Exception):
    """A recorded history asks for an event that the current tree does not offer at that point."""


class SpinClock(object):
    """Virtual clock on which a busy-wait makes time pass.  HostConnection.borrow_connection spins on
    time.time() without sleeping while its connection is closed and not yet replaced; on a clock that
    only moves at explorer events that loop would never end.  After SPIN_READS readings without any
    advance the clock moves by SPIN_STEP (deterministic: a replay makes the same readings)."""
    SPIN_READS = 1000
    SPIN_STEP = 1.0

    def __init__(self, start):
        self._now = start
        self.reads = 0
        self.spins = 0

    @property
    def now(self):
        self.reads += 1
        if self.reads > self.SPIN_READS:
            self._now += self.SPIN_STEP
            self.reads = 0
            self.spins += 1
        return self._now

    @now.setter
    def now(self, v):
        self._now = v
        self.reads = 0

    def advance(self, d):
        if d > 0:
            self.now = self._now + d

    def advance_to(self, t):
        if t > self._now:
            self.now = t


def _midpoint(a, b):
    return (a + b) // 2


PREP_COLS = [('v', wire.T_INT)]


def prepared_query(tag):
    """Text of the statement prepared for the request tagged `tag` (one statement per tag: an EXECUTE names its tag by its id)."""
    return 'SELECT v FROM t WHERE k = %d' % tag


def query_id_of(tag):
    return b'qid-%d' % tag


def tag_of_request(req):
    if req.get('op') == 'EXECUTE':
        try:
            return int(req['query_id'][4:])
        except (ValueError, KeyError):
            return None
    if req.get('op') == 'PREPARE':
        # the PREPARE the driver sends on behalf of a request whose EXECUTE was answered UNPREPARED
        try:
            return 'PREPARE %d' % int(req['query'].split()[-1])
        except (ValueError, IndexError, KeyError):
            return 'PREPARE ?'
    q = req.get('query', '')
    if is_use(req):
        return q.strip()        # 'USE ks1' (the application's statement) / 'USE "ks1"' (the driver switching a connection)
    try:
        return int(q.split()[-1])
    except (ValueError, IndexError):
        return None


def is_use(req):
    return req.get('op') == 'QUERY' and req.get('query', '').strip().upper().startswith('USE ')


def use_keyspace(req):
    return req['query'].strip()[4:].strip().strip('"')


def is_prepare(req):
    return req.get('op') == 'PREPARE'


def is_internal_use(req):
    """Connection.set_keyspace_async/_blocking quote the name; the application statements of this world do not."""
    return is_use(req) and '"' in req['query']


def timer_owner(t):
    """(future, callback name) of a connection timer created by a ResponseFuture"""
    cb = t.callback
    cb = getattr(cb, 'func', cb)
    return getattr(cb, '__self__', None), getattr(cb, '__name__', '?')


class W9(ReqWorld):
    """params: protocol_version, max_in_flight, orphaned_threshold, initial_ids, timeout, n_req, max_faults, sched,
    prepared (requests are EXECUTEs of prepared statements), max_unprepared (UNPREPARED answers per history),
    max_unwritable (socket-not-writable faults per history), n_block (blocking requests through Connection.wait_for_response
    per history), block_timeout (their client-side timeout, 1.0), prologue (events applied before the explorer takes over)"""

    def __init__(self, params):
        p = dict(params)
        p.setdefault('hosts', 1)
        p.setdefault('timeout', 100.0)
        v = p.setdefault('protocol_version', 4)
        self.mif = p.get('max_in_flight', 4)
        ckw = dict(p.get('cluster_kw', {}))
        ckw['connection_class'] = conn_class(self.mif, p.get('orphaned_threshold', 2), p.get('initial_ids'))
        p['cluster_kw'] = ckw
        self.proto_max = protocol_max_stream(v)
        # the id space configured for this run: ids 0..max_id (v3+: max_in_flight ids; v1/2: max_in_flight+1)
        self.max_id = min(self.mif - 1 if v >= 3 else self.mif, self.proto_max)
        self.arrivals = []          # (conn vid, stream, tag) of every application request, in arrival order
        self.wire_violations = []   # (clause, text) noticed when a request arrives
        self.flags = set()          # what really happened in this execution (non-vacuity)
        self.faults = 0
        self.stuck = False          # the event-loop thread is busy-waiting inside set_keyspace_async (see apply)
        # the reconnection schedules draw a random jitter; pin it (the delays appear in the canonical state)
        import cassandra.policies as _policies
        _policies.randint = _midpoint
        ReqWorld.__init__(self, p)
        self.w.clock = SpinClock(self.w.clock.now)
        self.n_unprepared = 0       # EXECUTEs answered UNPREPARED so far
        self.n_unwritable = 0       # 'socket not writable' faults so far
        self.handling = []          # (executor task, connection): an answer taken off that connection whose handler the
        #                             driver queued on the executor (the continuation of a re-prepare) and that has not run yet
        self.prepared = {}
        self.blocks = []            # blocking requests issued through Connection.wait_for_response: {'tag', 'conn', 'outcome', 'got'}
        self._auto_block = None     # tag of the blocking request the node answers within the caller's timeout
        try:
            if p.get('prepared'):
                self._prepare_statements()
            self.server.hold = self._hold9
            self.initial_pool_conns = len(self.pool_conns())
            self.initial_highest = dict((c.vid, c.highest_request_id) for c in self.w.conns)
            for ev in p.get('prologue', ()):      # layer E: the history every explored history starts with
                self.apply(tuple(ev))
        except BaseException:
            self.close()
            raise

    def _prepare_statements(self):
        """One prepared statement per request tag, prepared through the real Session.prepare against the auto server
        (which answers every PREPARE with the id of that statement) before the explorer takes over."""
        def on_request(server, conn, stream, req):
            if req['op'] == 'PREPARE':
                tag = int(req['query'].split()[-1])
                return wire.OP_RESULT, wire.result_prepared(query_id_of(tag), [], PREP_COLS, req['version'])
            return None
        hold, on_req = self.server.hold, self.server.on_request
        self.server.hold, self.server.on_request, self.w.manual = (lambda conn, req: False), on_request, False
        for k in range(self.p.get('n_req', 4)):
            tag = TAG0 + k
            self.prepared[tag] = self.session.prepare(prepared_query(tag))
            self.w.settle()
        self.server.hold, self.server.on_request, self.w.manual = hold, on_req, True

    # ---------------------------------------------------------------- wire observation
    def _published(self, conn):
        """conn is one of the connections a pool of the session currently hands out"""
        for pool in list(self.session._pools.values()):
            if conn is getattr(pool, '_connection', None) or conn in list(getattr(pool, '_connections', ())):
                return True
        return False

    def _hold9(self, conn, req):
        held = ReqWorld._hold(conn, req)
        if not held and self.p.get('keyspaces') and is_use(req) and self._published(conn):
            # a keyspace switch multiplexed on a connection in service (the application's USE and the USE
            # Connection.set_keyspace_async sends): the explorer decides when it is answered.  USE on a connection
            # that is still being opened (set_keyspace_blocking = wait_for_response, the opener blocks) is answered
            # by the auto server like the rest of the handshake.
            held = True
        auto = False
        if held and self._auto_block is not None and tag_of_request(req) == self._auto_block:
            # the blocking request of an ('block', conn, 'answered') event: the node answers it at once (the caller is still waiting)
            held, auto = False, True
        if held or auto:
            vid, stream, _ = self.server.received[-1]
            tag = tag_of_request(req)
            for q in self.server.pending:
                if q.conn is conn and q.stream == stream:
                    self.wire_violations.append((
                        'shared-stream-id',
                        'request %r was sent on connection #%d stream %d while request %r is still outstanding on that stream'
                        % (tag, vid, stream, tag_of_request(q.req))))
            if not 0 <= stream <= self.max_id:
                self.wire_violations.append((
                    'stream-id-beyond-max',
                    'request %r was sent on connection #%d with stream id %d; ids are limited to 0..%d' % (tag, vid, stream, self.max_id)))
            if any(a[0] == vid and a[1] == stream for a in self.arrivals):
                self.flags.add('reuse')
            if is_prepare(req):
                self.flags.add('reprepare-sent')
            elif req.get('op') == 'EXECUTE' and self.n_unprepared and any(a[2] == tag for a in self.arrivals):
                self.flags.add('re-executed')
            self.arrivals.append((vid, stream, tag))
        return held

    # ---------------------------------------------------------------- client / server / environment actions
    def send(self, tag=None):
        if tag is None:
            tag = TAG0 + len(self.futures)
        if tag in self.prepared:
            stmt = self.prepared[tag].bind(())      # an EXECUTE of the statement prepared for this tag
            stmt.is_idempotent = True
        else:
            stmt = SimpleStatement('SELECT %d' % tag, is_idempotent=True)
        f = self.session.execute_async(stmt)
        f._vtag = tag
        # (client threads of layer S interleave here: the observer is tied to its future, never paired by position)
        f._vobs = Observer(f, self.w)
        self.futures.append(f)
        return f

    @property
    def observers(self):
        return [f._vobs for f in self.futures]

    @observers.setter
    def observers(self, v):
        pass

    def send_use(self, k):
        """The application switches the session's keyspace: session.set_keyspace(ks) without the blocking wait."""
        ks = self.p['keyspaces'][k]
        f = self.session.execute_async(SimpleStatement('USE %s' % ks))
        f._vtag = 'use%d:%s' % (len(self.futures), ks)
        f._vuse = ks
        f._vobs = Observer(f, self.w)
        self.futures.append(f)
        return f

    def block(self, conn, answered):
        """A thread other than the event loop issues a blocking request on `conn` through Connection.wait_for_response with a
        client-side timeout (what the control connection, set_keyspace_blocking and register_watcher do).  Either the node answers
        while the caller waits, or the timed wait expires in virtual time (OperationTimedOut) and the request stays unanswered on
        the wire: the explorer may answer it later like any other held request."""
        tag = BLOCK_TAG0 + len(self.blocks)
        rec = {'tag': tag, 'conn': conn.vid, 'outcome': None, 'got': None}
        self.blocks.append(rec)
        msg = QueryMessage('SELECT %d' % tag, ConsistencyLevel.ONE)
        before = len(self.arrivals)
        on_req = self.server.on_request
        if answered:
            def on_request(server, c, stream, req):
                # (the tag the node found in the request that arrived on that stream)
                if req['op'] == 'QUERY' and tag_of_request(req) == tag:
                    return wire.OP_RESULT, wire.result_rows(ROWS_COLS, [[tag]], req['version'])
                return None
            self._auto_block, self.server.on_request = tag, on_request
        try:
            try:
                r = conn.wait_for_response(msg, timeout=self.p.get('block_timeout', 1.0))
            finally:
                self._auto_block, self.server.on_request = None, on_req
        except OperationTimedOut:
            # 'no-slot': every id of the connection was taken for the whole of the timeout, nothing was sent
            rec['outcome'] = 'timed-out' if len(self.arrivals) > before else 'no-slot'
        except Exception as e:
            rec['outcome'] = 'error:' + type(e).__name__
        else:
            rec['outcome'] = 'answered'
            try:
                rec['got'] = list(r.parsed_rows)[0][0]
            except Exception:
                rec['got'] = repr(r)
        self.flags.add('block-' + rec['outcome'].split(':')[0])
        return rec

    def n_sent(self, use):
        return len([f for f in self.futures if (getattr(f, '_vuse', None) is not None) == use])

    def answer(self, p):
        """The server answers held request p with the tag it received on that stream."""
        late = p.stream in p.conn.orphaned_request_ids and not (p.conn.is_closed or p.conn.is_defunct)
        if late:
            self.flags.add('late')
        if not (p.conn.is_closed or p.conn.is_defunct) and \
                any(b['tag'] == tag_of_request(p.req) and b['outcome'] == 'timed-out' for b in self.blocks):
            self.flags.add('block-late')        # the answer to a blocking request whose caller gave up arrives on a live connection
        if is_use(p.req):
            before = len(self.arrivals)
            internal = is_internal_use(p.req)
            live = not (p.conn.is_closed or p.conn.is_defunct)
            self.server.respond(p, wire.OP_RESULT, wire.result_set_keyspace(use_keyspace(p.req)), deliver=True)
            if internal:
                self.flags.add('use-switched')        # a connection in service was switched by a multiplexed USE
            elif live and not late:
                # the session now tells every pool; a connection already on that keyspace has nothing to send
                sent = [a for a in self.arrivals[before:] if isinstance(a[2], str) and a[2].upper().startswith('USE ')]
                self.flags.add('use-sent' if sent else 'use-noop')
            return
        tag = tag_of_request(p.req)
        if is_prepare(p.req):
            # the id of the statement whose text arrived on that stream; the driver hands the answer to an executor task
            live = not (p.conn.is_closed or p.conn.is_defunct)
            before = [t[0] for t in self.w.tasks]
            self.server.respond(p, wire.OP_RESULT, wire.result_prepared(query_id_of(int(tag.split()[-1])), [], PREP_COLS,
                                                                         p.req['version']), deliver=True)
            if live and not late:
                self.flags.add('reprepared')
                self.handling += [(t[0], p.conn) for t in self.w.tasks if t[0] not in before]
            return
        self.server.respond(p, wire.OP_RESULT, wire.result_rows(ROWS_COLS, [[tag]], p.req['version']), deliver=True)

    def answer_unprepared(self, p):
        """The node does not know the statement of this EXECUTE (it restarted, or evicted it from its cache)."""
        if p.stream in p.conn.orphaned_request_ids and not (p.conn.is_closed or p.conn.is_defunct):
            self.flags.add('late')
        self.n_unprepared += 1
        self.flags.add('unprepared')
        self.server.respond(p, wire.OP_ERROR, wire.error(wire.ERR_UNPREPARED, 'unprepared', query_id=p.req['query_id']), deliver=True)

    def being_handled(self, conn):
        """Answers taken off `conn` whose handler is still queued on the executor: the request is answered on the wire,
        the driver has not dealt with the answer yet (it keeps the slot until then)."""
        queued = [t[0] for t in self.w.tasks]
        self.handling = [(t, c) for t, c in self.handling if t in queued]
        return len([1 for t, c in self.handling if c is conn])

    def answer_retry(self, p):
        """The server answers 'overloaded' and the retry policy says: again on the same host (the request is sent
        again, same tag, on a newly borrowed stream id, from an executor task)."""
        if p.stream in p.conn.orphaned_request_ids and not (p.conn.is_closed or p.conn.is_defunct):
            self.flags.add('late')
        self.flags.add('retry')
        self.retry.next = ('RETRY', None)
        self.server.respond(p, wire.OP_ERROR, wire.error(wire.ERR_OVERLOADED, 'ov'), deliver=True)
        self.retry.next = ('RETHROW', None)

    def timeout_timers(self):
        """[(future, timer)] live client-timeout timers"""
        out = []
        for t in self.w.live_timers():
            f, name = timer_owner(t)
            if name == '_on_timeout' and f is not None:
                out.append((f, t))
        return out

    def fire_timeout(self, f):
        for g, t in self.timeout_timers():
            if g is f:
                had = f._connection is not None and f._req_id in f._connection._requests
                if any(getattr(getattr(x[1], 'func', x[1]), '__self__', None) is f or f in x[2] for x in self.w.tasks):
                    self.flags.add('timeout-task-queued')       # a retry / re-prepare step of this request waits on the executor
                if had and any(q.conn is f._connection and q.stream == f._req_id and is_prepare(q.req) for q in self.server.pending):
                    self.flags.add('timeout-prepare-outstanding')
                self.w.fire_timer(t)
                if had and f._req_id in f._connection.orphaned_request_ids:
                    self.flags.add('orphan')
                return True
        return False

    def pool_conns(self):
        return [c for c in self.w.conns if not c.is_control_connection]

    def fail_connection(self, conn):
        # the server side of this connection is gone: what it had not answered will never be answered
        for q in list(self.server.pending):
            if q.conn is conn:
                self.server.pending.remove(q)
        self.faults += 1
        self.flags.add('defunct')
        conn.defunct(OSError(104, 'Connection reset by peer'))

    def normalize(self):
        """Answers to a connection the driver has closed go nowhere (every reactor stops reading)."""
        for q in list(self.server.pending):
            if q.conn.is_closed or q.conn.is_defunct:
                self.server.pending.remove(q)
        for c in self.w.conns:
            if c.highest_request_id > self.initial_highest.setdefault(c.vid, c.highest_request_id):
                self.flags.add('grow')
            if c.orphaned_threshold_reached:
                self.flags.add('threshold')
        if len(self.pool_conns()) > self.initial_pool_conns:
            self.flags.add('replaced')
        if self.w.clock.spins:
            self.flags.add('spin')
        for f in self.futures:
            if any(type(e).__name__ == 'ConnectionBusy' for e in f._errors.values()):
                self.flags.add('send-refused')
            if type(f._final_exception).__name__ == 'NoHostAvailable' and \
                    any(type(e).__name__ == 'NoConnectionsAvailable' for e in f._final_exception.errors.values()):
                self.flags.add('exhausted')

    # ---------------------------------------------------------------- engine E alphabet
    def enabled(self):
        p = self.p
        evs = []
        if self.stuck:
            return evs
        if self.n_sent(False) < p.get('n_req', 4):
            evs.append((('send',), 0))
        if self.n_sent(True) < p.get('n_use', 0):
            # the keyspace names are interchangeable: a name is offered once every name before it has been used
            # (by an earlier switch or by Cluster.connect(keyspace))
            used = set(f._vuse for f in self.futures if getattr(f, '_vuse', None) is not None) | set([p.get('keyspace')])
            for k, ks in enumerate(p['keyspaces']):
                evs.append((('use', k), 0))
                if ks not in used:
                    break
        for k, q in enumerate(self.pending()):
            evs.append((('respond', k), 0))
            if p.get('retry_kind') and not is_internal_use(q.req) and not is_prepare(q.req):
                evs.append((('respond', k, 'retry'), 0))
            if q.req.get('op') == 'EXECUTE' and self.n_unprepared < p.get('max_unprepared', 0):
                evs.append((('respond', k, 'unprepared'), 0))
        for f, t in self.timeout_timers():
            evs.append((('timeout', self.futures.index(f)), 0))
        if len(self.blocks) < p.get('n_block', 0):
            for c in self.pool_conns():
                if not (c.is_closed or c.is_defunct) and self._published(c):
                    evs.append((('block', c.vid), 0))                   # ... and its client-side timeout expires
                    evs.append((('block', c.vid, 'answered'), 0))       # ... and the node answers in time
        if self.w.tasks:
            evs.append((('task',), 0))
        if p.get('sched') and self.w.sched_tasks:
            evs.append((('sched',), 0))
        if self.faults < p.get('max_faults', 0):
            for c in self.pool_conns():
                if not (c.is_closed or c.is_defunct):
                    evs.append((('defunct', c.vid), 0))
        for c in self.pool_conns():
            if c.is_closed or c.is_defunct:
                continue
            if not c._socket_writable:
                evs.append((('writable', c.vid), 0))
            elif self.n_unwritable < p.get('max_unwritable', 0):
                evs.append((('unwritable', c.vid), 0))
        return evs

    def apply(self, ev):
        if ev not in [e for e, _ in self.enabled()]:
            raise NotEnabled('event %r is not enabled here (enabled: %r)' % (ev, [e for e, _ in self.enabled()]))
        try:
            self._dispatch(ev)
        except WouldBlock as e:
            # The handler cannot return.  Two driver behaviours that are not a matter of this property end the history
            # here (flagged and counted; nothing is judged in the half-finished handler):
            #  - Connection.set_keyspace_async busy-waits (time.sleep in a loop) for a free slot of a connection at full
            #    capacity - on the event-loop thread, the only one that could free a slot;
            #  - the thread asks for a non-reentrant lock it holds itself.
            # Anything else (a wait for something only the explorer can provide) is a harness problem and propagates.
            tb, names = e.__traceback__, []
            while tb is not None:
                names.append(tb.tb_frame.f_code.co_name)
                tb = tb.tb_next
            if 'set_keyspace_async' in names and 'sleep' in names:
                self.flags.add('loop-busy-wait')
            elif 'held by' in str(e):
                self.flags.add('self-deadlock')
            else:
                raise
            self.stuck = True
            return
        self.w.deliver_outbox()
        self.normalize()

    def _dispatch(self, ev):
        k = ev[0]
        if k == 'send':
            self.send()
        elif k == 'use':
            self.send_use(ev[1])
        elif k == 'respond':
            if len(ev) > 2 and ev[2] == 'unprepared':
                self.answer_unprepared(self.pending()[ev[1]])
            elif len(ev) > 2:
                self.answer_retry(self.pending()[ev[1]])
            else:
                self.answer(self.pending()[ev[1]])
        elif k == 'timeout':
            self.fire_timeout(self.futures[ev[1]])
        elif k == 'block':
            self.block(self.w.conns[ev[1]], len(ev) > 2)
        elif k == 'task':
            self.w.run_task(0)
        elif k == 'sched':
            self.w.fire_sched(sorted(self.w.sched_tasks, key=lambda t: (t[0], t[1]))[0])
        elif k == 'defunct':
            self.fail_connection(self.w.conns[ev[1]])
        elif k == 'unwritable':
            # the kernel's send buffer of this socket is full: the reactor got EAGAIN and marked the connection
            # (Connection._socket_writable; send_msg refuses with ConnectionBusy until the socket drains)
            self.n_unwritable += 1
            self.flags.add('unwritable')
            self.w.conns[ev[1]]._socket_writable = False
        elif k == 'writable':
            self.w.conns[ev[1]]._socket_writable = True
        else:
            raise ValueError(ev)

    def canon(self):
        now = self.w.clock._now
        conns = tuple((c.vid, c.is_control_connection, c.is_closed, c.is_defunct, c.in_flight, tuple(c.request_ids),
                       c.highest_request_id, tuple(sorted(c._requests, key=repr)), tuple(sorted(c.orphaned_request_ids, key=repr)),
                       c.orphaned_threshold_reached, c.signaled_error, c.keyspace, c._socket_writable) for c in self.w.conns)
        futs = tuple((f._vtag, f._event.is_set(), len(o.results), len(o.errors), type(f._final_exception).__name__,
                      f._req_id, f._connection.vid if f._connection is not None else None)
                     for f, o in ((f, f._vobs) for f in self.futures))
        pend = tuple((q.conn.vid, q.stream, tag_of_request(q.req)) for q in self.pending())
        timers = tuple((timer_owner(t)[1], getattr(timer_owner(t)[0], '_vtag', None), round(t.end - now, 4)) for t in self.w.live_timers())
        tasks = self.tasks_canon()
        scheds = tuple(sorted((getattr(t[2][0], '__qualname__', repr(t[2][0])), round(t[0] - now, 4)) for t in self.w.sched_tasks))
        pools = []
        for host, pool in sorted(self.session._pools.items(), key=lambda hp: hp[0].endpoint.address):
            c = getattr(pool, '_connection', None)
            pools.append((type(pool).__name__, pool.is_shutdown, host.is_up, c.vid if c is not None else None,
                          getattr(pool, '_is_replacing', None), tuple(sorted(t.vid for t in getattr(pool, '_trash', ()))),
                          tuple(sorted(x.vid for x in getattr(pool, '_connections', ()))), getattr(pool, '_keyspace', None)))
        handling = tuple(sorted(c.vid for c in self.w.conns for _ in range(self.being_handled(c))))
        blocks = tuple((b['tag'], b['conn'], b['outcome'], b['got']) for b in self.blocks)
        return (conns, futs, pend, timers, tasks, scheds, tuple(pools), self.faults, self.session.keyspace, self.stuck,
                self.n_unprepared, self.n_unwritable, handling, blocks)


# ---------------------------------------------------------------------------------------- oracle
def result_tags(o):
    """tags carried by the responses an observer's callback was called with"""
    out = []
    for rows in o.results:
        try:
            rows = list(rows)
            out.append(rows[0][0] if rows else None)
        except Exception:
            out.append(repr(rows))
    return out


def judge(st, part, data, site):
    """Evaluate every clause of the property on the current (handler-quiescent) state."""
    # -- the wire: no two outstanding requests of a connection share a stream id; no id beyond the maximum
    for clause, text in st.wire_violations:
        part.violation('C09/%s/%s' % (clause, site), text, data)
    if st.max_id > st.proto_max:
        part.violation('C09/stream-id-beyond-max/config/%s' % site, 'configured id space 0..%d exceeds the protocol maximum %d'
                       % (st.max_id, st.proto_max), data)
    if getattr(st, 'stuck', False):
        return      # a handler did not return (event-loop thread busy-waiting): no handler-quiescent state to judge
    # -- the application: a callback only ever sees the answer to its own request, once
    for f in list(st.futures):
        if getattr(f, '_vuse', None) is not None:
            # a keyspace switch completes with None (the set_keyspace result carries no rows to compare)
            got = list(f._vobs.results)
            if any(r is not None for r in got):
                part.violation('C09/foreign-response/%s' % site, 'the keyspace switch %r received the response(s) %r (arrivals: %r)'
                               % (f._vtag, got, st.arrivals), data)
            elif len(got) > 1:
                part.violation('C09/response-delivered-twice/%s' % site, 'keyspace switch %r completed %d times' % (f._vtag, len(got)), data)
            continue
        tags = result_tags(f._vobs)
        foreign = [t for t in tags if t != f._vtag]
        if foreign:
            part.violation('C09/foreign-response/%s' % site,
                           'the request tagged %r received the response(s) %r (arrivals (conn, stream, tag): %r)'
                           % (f._vtag, tags, st.arrivals), data)
        elif len(tags) > 1:
            part.violation('C09/response-delivered-twice/%s' % site, 'request %r got its response %d times' % (f._vtag, len(tags)), data)
    for b in getattr(st, 'blocks', ()):
        # a blocking caller (Connection.wait_for_response) that got a response got the one to its own request
        if b['outcome'] == 'answered' and b['got'] != b['tag']:
            part.violation('C09/foreign-response/blocking/%s' % site,
                           'the blocking request tagged %r on connection #%d returned the response %r (arrivals (conn, stream, tag): %r)'
                           % (b['tag'], b['conn'], b['got'], st.arrivals), data)
    # -- the connection state the property names
    for c in st.w.conns:
        if c.is_closed or c.is_defunct:
            continue
        outstanding = sorted(q.stream for q in st.server.pending if q.conn is c)
        waited, orph, free = sorted(c._requests, key=repr), sorted(c.orphaned_request_ids, key=repr), list(c.request_ids)
        desc = ('connection #%d: in_flight=%d _requests=%r orphaned=%r free=%r highest=%d; unanswered on the wire: %r'
                % (c.vid, c.in_flight, waited, orph, free, c.highest_request_id, outstanding))
        if c.highest_request_id > st.max_id or any(not (isinstance(i, int) and 0 <= i <= st.max_id) for i in free + waited + orph):
            part.violation('C09/stream-id-beyond-max/state/%s' % site, desc, data)
        if len(set(free)) != len(free):
            part.violation('C09/free-id-duplicated/%s' % site, desc, data)
        if set(free) & (set(waited) | set(orph)):
            part.violation('C09/in-use-id-is-free/%s' % site, desc, data)
        handled = st.being_handled(c) if hasattr(st, 'being_handled') else 0
        if outstanding or handled:
            if c.in_flight != len(outstanding) + handled:
                part.violation('C09/in-flight-count/%s' % site,
                               'in_flight differs from the number of requests sent and not yet answered%s; %s'
                               % (' plus the %d answered one(s) whose handler still waits on the executor' % handled if handled else '',
                                  desc), data)
        else:
            # every request sent on this connection has been answered (late answers included)
            if c.in_flight != 0:
                part.violation('C09/answered/in-flight-nonzero/%s' % site, desc, data)
            if orph:
                part.violation('C09/answered/orphans-left/%s' % site, desc, data)
            if waited:
                part.violation('C09/answered/requests-left/%s' % site, desc, data)
            if sorted(free) != list(range(c.highest_request_id + 1)):
                part.violation('C09/answered/ids-not-all-available/%s' % site, desc, data)


def flags_key(st):
    return tuple(sorted(st.flags))
