"""Runner core: context object handed to every check, evidence writing, known findings,
violation artefacts, parallel map.

A check module (checks/cNN.py) defines

    META = {...}                       # manifest entry fields (see gen_manifest.py)
    def run(ctx): ...                  # explore; call ctx.violation(...) for each failing case
    def replay(ctx, data): ...         # optional: re-run one recorded case, return True if it still fails

Nothing here samples: `ctx.rotate(seq)` only rotates the order of an already finite sequence.
"""
import hashlib
import json
import multiprocessing
import os
import sys
import time
import traceback

ROOT = os.path.dirname(os.path.dirname(os.path.abspath(__file__)))
REPO = os.environ.get('VERIF_REPO', '/repo')
# replay artefacts of runs against a scratch tree (VERIF_REPO=...) go to out/scratch so they never
# overwrite the artefacts of runs against /repo
OUT = os.environ.get('VERIF_OUT') or os.path.join(ROOT, 'out', 'scratch' if REPO != '/repo' else '')
EVIDENCE_DIR = os.environ.get('VERIF_EVIDENCE_DIR') or os.path.join(ROOT, 'evidence')
KNOWN_FILE = os.path.join(ROOT, 'known_findings.json')

MAX_REPORTED = 12     # distinct fingerprints printed per run (all are counted)


def setup_repo_path():
    """Put the working tree of /repo first on sys.path (checks always see current sources)."""
    if REPO not in sys.path:
        sys.path.insert(0, REPO)
    stubs = os.path.join(ROOT, 'stubs')
    if stubs not in sys.path:
        sys.path.append(stubs)


def jsonable(x, depth=0):
    if depth > 8:
        return repr(x)
    if x is None or isinstance(x, (bool, int, str)):
        return x
    if isinstance(x, float):
        if x != x or x in (float('inf'), float('-inf')):
            return repr(x)
        return x
    if isinstance(x, (bytes, bytearray, memoryview)):
        return {'hex': bytes(x).hex()}
    if isinstance(x, dict):
        return {str(k) if not isinstance(k, str) else k: jsonable(v, depth + 1) for k, v in x.items()}
    if isinstance(x, (list, tuple)):
        return [jsonable(v, depth + 1) for v in x]
    if isinstance(x, (set, frozenset)):
        return sorted((jsonable(v, depth + 1) for v in x), key=repr)
    return repr(x)


class Ctx(object):
    def __init__(self, prop, tier='quick', seed=0, replaying=False, silent=False):
        self.silent = silent
        self.prop = prop
        self.tier = tier
        self.quick = tier == 'quick'
        self.thorough = tier == 'thorough'
        self.seed = seed
        self.replaying = replaying
        self.t0 = time.time()
        self.level = 'model_checking'
        self.cov = {}                 # free-form coverage keys
        self.counters = {}            # name -> int
        self.samples = []
        self.assumptions = []
        self.outcomes = {}            # distinct observed outcomes -> count (vacuity indicator)
        self.nontrivial = set()
        self._viol = {}               # fingerprint -> (what, replay_path)
        self._known_hit = {}
        self._nviol_total = 0
        self.caps_hit = []
        self.known = self._load_known()
        self.nproc = int(os.environ.get('VERIF_NPROC', '0')) or min(16, os.cpu_count() or 1)

    # ---------------------------------------------------------------- known findings
    def _load_known(self):
        try:
            with open(KNOWN_FILE) as f:
                data = json.load(f)
        except FileNotFoundError:
            return {}
        out = {}
        for e in data.get('findings', []):
            if e.get('property') == self.prop and e.get('status') == 'known':
                out[e['fingerprint']] = e
        return out

    # ---------------------------------------------------------------- counting
    def count(self, name, n=1):
        self.counters[name] = self.counters.get(name, 0) + n

    def outcome(self, key, n=1):
        key = key if isinstance(key, str) else repr(key)
        self.outcomes[key] = self.outcomes.get(key, 0) + n

    def mark_nontrivial(self, key):
        self.nontrivial.add(key if isinstance(key, (str, int)) else repr(key))

    def sample(self, x, limit=5):
        if len(self.samples) < limit:
            self.samples.append(jsonable(x))

    def assume(self, text):
        if text not in self.assumptions:
            self.assumptions.append(text)

    def cap(self, text):
        self.caps_hit.append(text)

    def rotate(self, seq):
        seq = list(seq)
        if not seq:
            return seq
        k = self.seed % len(seq)
        return seq[k:] + seq[:k]

    def elapsed(self):
        return time.time() - self.t0

    # ---------------------------------------------------------------- violations
    def violation(self, fingerprint, what, data=None):
        """Record one failing case.  `fingerprint` is the narrow identity of the failure
        (oracle clause + call site / input class); `data` is what --replay needs."""
        self._nviol_total += 1
        if fingerprint in self.known:
            if fingerprint not in self._known_hit:
                self._known_hit[fingerprint] = what
                print('KNOWN-FINDING: property=%s %s :: %s' % (self.prop, fingerprint, what))
                sys.stdout.flush()
            return
        if fingerprint in self._viol:
            return
        if self.silent:
            self._viol[fingerprint] = (what, None)
            return
        os.makedirs(os.path.join(OUT, 'replays'), exist_ok=True)
        h = hashlib.sha1((self.prop + fingerprint).encode()).hexdigest()[:10]
        path = os.path.join(OUT, 'replays', '%s-%s.json' % (self.prop, h))
        art = {'property': self.prop, 'fingerprint': fingerprint, 'what': what,
               'tier': self.tier, 'seed': self.seed, 'data': jsonable(data)}
        with open(path, 'w') as f:
            json.dump(art, f, indent=1, sort_keys=True)
        self._viol[fingerprint] = (what, path)
        if len(self._viol) <= MAX_REPORTED:
            print('VIOLATION property=%s replay=%s' % (self.prop, path))
            print('  fingerprint: %s' % fingerprint)
            print('  what: %s' % (what[:600],))
            sys.stdout.flush()

    def merge(self, part):
        """Merge a worker's partial result (see Part)."""
        for k, v in part.counters.items():
            self.count(k, v)
        for k, v in part.outcomes.items():
            self.outcome(k, v)
        self.nontrivial |= part.nontrivial
        for s in part.samples:
            self.sample(s)
        for fp, what, data in part.violations:
            self.violation(fp, what, data)
        for c in part.caps:
            self.cap(c)

    @property
    def failed(self):
        return bool(self._viol)

    # ---------------------------------------------------------------- parallel map
    def pmap(self, func, items, chunksize=1):
        """Run func(item) -> Part (or any picklable) over items on all cores (fork, long-lived
        workers).  Order of results follows items."""
        items = list(items)
        if self.nproc <= 1 or len(items) <= 1:
            return [func(i) for i in items]
        mp = multiprocessing.get_context('fork')
        import gc
        gc.freeze()     # keep the parent's objects out of the children's GC (no copy-on-write storms)
        with mp.Pool(min(self.nproc, len(items))) as pool:
            return pool.map(_Guard(func), items, chunksize)

    # ---------------------------------------------------------------- evidence
    def finish(self):
        cov = dict(self.cov)
        c = self.counters
        cov.setdefault('evaluations', c.get('evaluations', c.get('executions', 0)))
        cov.setdefault('distinct_nontrivial', len(self.nontrivial) if self.nontrivial
                       else c.get('distinct_nontrivial', 0))
        cov.setdefault('samples', self.samples)
        cov.setdefault('rule', '')
        if self.level == 'model_checking':
            cov.setdefault('states', c.get('states', 0))
            cov.setdefault('transitions', c.get('transitions', 0))
            cov.setdefault('traces_validated_against_impl',
                           c.get('traces_validated_against_impl', c.get('executions', cov['evaluations'])))
        cov['counters'] = dict(sorted(c.items()))
        cov['distinct_outcomes'] = len(self.outcomes)
        top = sorted(self.outcomes.items(), key=lambda kv: -kv[1])[:12]
        cov['outcome_histogram_top'] = {k[:120]: v for k, v in top}
        cov['caps_hit'] = self.caps_hit
        cov.setdefault('exhaustive', not self.caps_hit)
        cov['known_findings_hit'] = sorted(self._known_hit)
        ev = {
            'property_id': self.prop,
            'tier': self.tier,
            'seed': self.seed,
            'level': self.level,
            'coverage': cov,
            'assumptions': self.assumptions,
            'wall_s': round(time.time() - self.t0, 3),
            'violations': len(self._viol),
        }
        os.makedirs(EVIDENCE_DIR, exist_ok=True)
        path = os.path.join(EVIDENCE_DIR, '%s.json' % self.prop)
        tmp = path + '.tmp'
        with open(tmp, 'w') as f:
            json.dump(ev, f, indent=1, sort_keys=True)
            f.write('\n')
        os.replace(tmp, path)
        return ev


class Part(object):
    """Picklable partial result produced in a worker process."""
    def __init__(self):
        self.counters = {}
        self.outcomes = {}
        self.nontrivial = set()
        self.samples = []
        self.violations = []
        self.caps = []

    def count(self, name, n=1):
        self.counters[name] = self.counters.get(name, 0) + n

    def outcome(self, key, n=1):
        key = key if isinstance(key, str) else repr(key)
        self.outcomes[key] = self.outcomes.get(key, 0) + n

    def mark_nontrivial(self, key):
        self.nontrivial.add(key if isinstance(key, (str, int)) else repr(key))

    def sample(self, x, limit=3):
        if len(self.samples) < limit:
            self.samples.append(jsonable(x))

    def violation(self, fingerprint, what, data=None):
        # keep one per fingerprint per worker
        for fp, _, _ in self.violations:
            if fp == fingerprint:
                self.count('violating_cases')
                return
        self.count('violating_cases')
        self.violations.append((fingerprint, what, jsonable(data)))

    def cap(self, text):
        self.caps.append(text)


class _Guard(object):
    """Make worker exceptions loud (a harness error must never look like a pass)."""
    def __init__(self, func):
        self.func = func

    def __call__(self, item):
        try:
            return self.func(item)
        except BaseException:
            sys.stderr.write('HARNESS ERROR in worker for item %r\n%s\n' % (item, traceback.format_exc()))
            sys.stderr.flush()
            raise


class HarnessError(Exception):
    """The machinery (not the driver) misbehaved: nondeterministic replay, bad prefix, …"""
