"""Helpers shared by the connection-level checks (C05, C06, C10, C47): read splittings, a bare
handshaken VConnection, a recording decoder."""
import itertools
import logging

from vt.core import HarnessError


def quiet_driver_logs():
    """The driver logs every defunct / decode error with a traceback; the checks provoke
    thousands of them on purpose."""
    logging.getLogger('cassandra').setLevel(logging.CRITICAL + 1)
    logging.getLogger('cassandra').propagate = False
    if not logging.getLogger('cassandra').handlers:
        logging.getLogger('cassandra').addHandler(logging.NullHandler())


def before_fork():
    """Workers are forked: keep the collector from touching (and so copying) every inherited page."""
    import gc
    gc.collect()
    gc.freeze()


# ------------------------------------------------------------------ splittings
def cuts_of_mask(mask, length):
    """bit i of mask set <=> a read boundary after byte i+1 (i in 0..length-2)"""
    return tuple(i + 1 for i in range(length - 1) if mask >> i & 1)


def chunks(data, cuts):
    out, prev = [], 0
    for c in cuts:
        out.append(data[prev:c])
        prev = c
    out.append(data[prev:])
    return out


def k_cut_splits(length, kmax, positions=None):
    """all splittings with <= kmax cuts (cut positions from `positions`, default all)"""
    pos = list(range(1, length)) if positions is None else sorted(set(p for p in positions if 0 < p < length))
    for k in range(0, kmax + 1):
        for c in itertools.combinations(pos, k):
            yield c


def all_ones(length):
    return tuple(range(1, length))


def near(boundaries, radius, length):
    s = set()
    for b in boundaries:
        for d in range(-radius, radius + 1):
            if 0 < b + d < length:
                s.add(b + d)
    return sorted(s)


# ------------------------------------------------------------------ connection
def bare_connection(w, version, conn_cls=None, **kw):
    """A VConnection that completed the handshake against the auto server of world `w`
    (must be called inside `with w`)."""
    from vt.world.vworld import VConnection
    cls = conn_cls or VConnection
    if version == 6:
        kw.setdefault('allow_beta_protocol_version', True)
    c = cls(w.server.hosts[0].address, protocol_version=version, **kw)
    w.pump()
    if not c.connected_event.is_set() or c.last_error or c.is_closed or c.is_defunct:
        raise HarnessError('setup handshake failed for v%s: %r' % (version, c.last_error))
    return c


class RawResponse(object):
    """What the recording decoder returns in place of a decoded message."""
    __slots__ = ('version', 'stream', 'flags', 'opcode', 'body')

    def __init__(self, version, stream, flags, opcode, body):
        self.version, self.stream, self.flags, self.opcode, self.body = version, stream, flags, opcode, bytes(body)

    def key(self):
        return (self.version, self.stream, self.flags, self.opcode, self.body)


def raw_decoder(protocol_version, user_type_map, stream_id, flags, opcode, body, decompressor, result_metadata):
    """Per-request decoder (send_msg(decoder=...)) that hands the frame to the callback as is."""
    return RawResponse(protocol_version, stream_id, flags, opcode, body)


# ------------------------------------------------------------------ a server that speaks both v5 segment forms
def lz4_block_compress(data):
    import lz4.block
    return lz4.block.compress(bytes(data), store_size=False)


def lz4_block_decompress(block, size):
    import lz4.block
    return lz4.block.decompress(bytes(block), uncompressed_size=size)


def make_seg_server(**kw):
    """VServer whose v5 side follows the compression the client asked for in STARTUP: after READY /
    AUTHENTICATE it reads the client's segments with wire.SegmentLog (either header form, every
    segment recorded in conn.server_state['seglog'].segments) and wraps its own frames in the
    matching form.  conn.server_state['leave_uncompressed'] = True makes it write the
    "uncompressed payload inside a compressed connection" form.  Bytes of the client that the reader
    rejects raise ValueError out of push() and are listed in conn.server_state['unreadable']."""
    from vt.world.vworld import VServer
    from vt.world import wire

    class SegServer(VServer):
        def respond(self, p, op, body, deliver=False, **kw2):
            st = p.conn.server_state
            was = st.get('framed')
            if not was and p.req['op'] == 'STARTUP' and wire.uses_segments(p.req['version']) \
                    and op in (wire.OP_READY, wire.OP_AUTHENTICATE):
                # switch before delivering: the driver may answer (AUTH_RESPONSE) from inside feed()
                v = p.req['version']
                data = wire.frame(v, p.stream, op, body, **kw2)
                p.answered = True
                if p in self.pending:
                    self.pending.remove(p)
                lz4 = p.req.get('options', {}).get('COMPRESSION') == 'lz4'
                st['framed'] = True
                st['lz4'] = lz4
                st['seglog'] = wire.SegmentLog(compressed=lz4, decompress_block=lz4_block_decompress)
                st['segreader'] = st['seglog']
                if deliver:
                    p.conn.feed(data)
                else:
                    self.outbox.append((p.conn, data))
                return
            VServer.respond(self, p, op, body, deliver=deliver, **kw2)

        def on_data(self, conn, data):
            # added for C06's handshake variants: what the independent reader rejected is also kept in
            # conn.server_state['unreadable'] (the driver's defunct_on_error wrappers swallow the exception)
            try:
                VServer.on_data(self, conn, data)
            except ValueError as e:
                if conn.server_state.get('framed'):
                    conn.server_state.setdefault('unreadable', []).append('%s (%d bytes pushed: %s...)' % (
                        e, len(data), bytes(data[:12]).hex()))
                raise

        def wrap(self, conn, frame_bytes):
            st = conn.server_state
            if st.get('framed') and st.get('lz4'):
                return wire.segments_for_lz4(frame_bytes, None if st.get('leave_uncompressed') else lz4_block_compress)
            return VServer.wrap(self, conn, frame_bytes)

    return SegServer(**kw)


from vt.world.vworld import Livelock      # noqa: E402  (raised by VConnection.feed)


def guarded_feed(conn, data, cpu_seconds=None):
    """conn.feed(data); VConnection.feed itself runs process_io_buffer under a CPU-time budget and raises
    Livelock when a read loop stops consuming its buffer."""
    conn.feed(data)


def too_many_livelocks(limit=5):
    """True once `limit` reads have been caught spinning in this process: the run is failing already, and every
    further spinning read costs CPU budget; work items stop early (and say so with Part.cap)."""
    from vt.world import vworld
    return vworld._FEED_STATE['livelocks'] >= limit
