"""Harnesses and oracle for C11 (messages pushed concurrently reach the socket whole and in order).

Two closed worlds, both driven by engine S (vt.sched):

* asyncio: the REAL cassandra.io.asyncioreactor.AsyncioConnection (only `_connect_socket` is replaced, by a
  fake socket) on `VLoop`, an asyncio.BaseEventLoop subclass without selector.  The loop is ONE virtual
  thread; one step = one whole ready handle (callback / task step), exactly the atom of a real event
  loop.  Inside every function defined in cassandra/io/asyncioreactor.py (push, _push_msg, handle_write,
  handle_read, any helper; selected by file name, not by function name) every source line is a scheduling
  point as well, so a pusher thread may be scheduled in the middle of a handle that executes driver code;
  asyncio's own code is never traced.
* twisted: the REAL cassandra.io.twistedreactor.TwistedConnection over `VReactor` (callFromThread = append +
  scheduling point, connectTCP = build the protocol and attach the transport) and a transport that is
  twisted's real `abstract.FileDescriptor` buffer whose `writeSomeData` (the socket) accepts everything or
  only a part (environment answer).  Every function defined in cassandra/io/twistedreactor.py is
  preemptible at line granularity; twisted's own code is not traced.

Large-message worlds (asyncio: params chunk / slow / prefill / line_cap; twisted: slow_bytes): messages of hundreds
of chunks of the driver's real out_buffer_size against a peer that is fast, slow (one chunk per loop turn) or was
stalled while earlier pushes piled up; the scheduling points can be restricted to the hand-over primitives
(line_cap), because every chunk iteration would otherwise add several of them.

The oracle (`judge`) is plain byte arithmetic on tagged messages and knows nothing of the driver.
"""
import asyncio
import gc
import logging
import os
import threading
from asyncio import events

from vt import sched, vthreading
from vt.core import HarnessError

import cassandra.io.asyncioreactor as ar

try:
    import cassandra.io.twistedreactor as tr
    from twisted.internet import abstract as _tw_abstract
    TWISTED_ERROR = None
except Exception as _e:            # pragma: no cover - depends on the image
    tr = None
    _tw_abstract = None
    TWISTED_ERROR = '%s: %s' % (type(_e).__name__, _e)

logging.getLogger('asyncio').setLevel(logging.CRITICAL)

N = 8                               # out_buffer_size used by both harnesses
SIZES = (1, N - 1, N, N + 1, 2 * N + 1)
REAL_CHUNK = ar.AsyncioConnection.out_buffer_size      # the driver's own chunk size (used by the large-message worlds)
OPTIONS_V4 = b'\x04\x00\x00\x00\x05\x00\x00\x00\x00'      # v4 request header, stream 0, opcode OPTIONS, empty body


# ------------------------------------------------------------------------------ messages + oracle
BIG_LIMIT = 1 << 22                # largest taggable message (4 MiB)
_BIG = {}
_TUNED = []


def _tune_malloc():
    """Executions with megabyte messages allocate and free a few MB each; with glibc's default thresholds every one
    of them maps and unmaps that memory again (page faults cost tens of ms per execution on a loaded VM, against
    ~0.1 ms of copying).  Keep freed memory in the process instead.  Purely a cost matter; failure is ignored."""
    if _TUNED:
        return
    _TUNED.append(True)
    try:
        import ctypes
        libc = ctypes.CDLL(None)
        libc.mallopt(-1, 1 << 28)       # M_TRIM_THRESHOLD
        libc.mallopt(-3, 1 << 26)       # M_MMAP_THRESHOLD
    except Exception:
        pass


def make_msg(mid, size):
    """Message number `mid` (1..7).  Up to 31 bytes: byte i is (mid << 5) | i, so every byte says whose it is and
    where in the message it belongs.  Larger messages (up to 4 MiB): every byte still carries mid in its top three
    bits; the low five bits of bytes 4w..4w+3 are the four base-32 digits of w (least significant first), so every
    aligned 4-byte word of the message is different from every other one and any loss / repetition / transposition
    of pieces (of chunk size or not) changes the byte string."""
    if not (1 <= mid <= 7 and 0 < size <= BIG_LIMIT):
        raise HarnessError('message id/size out of the tagging range: %r %r' % (mid, size))
    if size < 32:
        return bytes(((mid << 5) | i) for i in range(size))
    m = _BIG.get((mid, size))
    if m is None:
        if size >= 1 << 16:
            _tune_malloc()
        words = (size + 3) // 4
        buf = bytearray(words * 4)
        for j in range(4):
            rep = 32 ** j                   # digit j of w: every value repeated 32**j times, period 32**(j+1)
            period = b''.join(bytes([(mid << 5) | d]) * rep for d in range(32))
            buf[j::4] = (period * (words // len(period) + 1))[:words]
        m = _BIG[(mid, size)] = bytes(buf[:size])
    return m


_TOP3 = bytes(b >> 5 for b in range(256))


def owners_in(data):
    """The set of message numbers (top three bits) that occur in `data`."""
    t = bytes(data).translate(_TOP3)
    if t and t.count(t[:1]) == len(t):
        return {t[0]}
    return set(t)


def name_of(m, names):
    n = names.get(m)
    return n if n is not None else m.hex()


def _lcp(a, ai, b, bi):
    """Length of the longest common prefix of a[ai:] and b[bi:] (slice comparisons only)."""
    n = min(len(a) - ai, len(b) - bi)
    if a[ai:ai + n] == b[bi:bi + n]:
        return n
    lo, hi = 0, n                  # a[ai:ai+lo] == b[bi:bi+lo] holds, ...hi does not
    while hi - lo > 1:
        mid = (lo + hi) // 2
        if a[ai + lo:ai + mid] == b[bi + lo:bi + mid]:
            lo = mid
        else:
            hi = mid
    return lo


def render(wire, programs):
    """Readable form of a byte stream made of tagged messages: runs like pusher0#0[0:8] (bytes 0..7 of the
    first message of pusher0); bytes that belong to no tagged message in hex."""
    if any(len(m) >= 32 for _, ms in programs for m in ms):
        return _render_big(wire, programs)
    owner = {}
    for tname, ms in programs:
        for k, m in enumerate(ms):
            if m != OPTIONS_V4:
                owner[m[0] >> 5] = '%s#%d' % (tname, k)
    runs = []
    for b in wire:
        who, at = owner.get(b >> 5), b & 31
        if who is None:
            who, at = 'raw', None
        if runs and runs[-1][0] == who and (at is None or runs[-1][2] == at):
            runs[-1][2] = None if at is None else at + 1
            runs[-1][3].append(b)
        else:
            runs.append([who, at, None if at is None else at + 1, [b]])
    return ' '.join('%s[%d:%d]' % (w, a, e) if a is not None else 'raw(%s)' % bytes(bs).hex() for w, a, e, bs in runs)


def _render_big(wire, programs, max_runs=40):
    """render() for streams that contain large messages: maximal runs found by comparing with the messages."""
    owner = {}
    for tname, ms in programs:
        for k, m in enumerate(ms):
            if m != OPTIONS_V4:
                owner[m[0] >> 5] = ('%s#%d' % (tname, k), m)
    wire = bytes(wire)
    runs, pos, raw = [], 0, bytearray()
    cont = {}                      # owner -> where its previous run ended (preferred when the lookup is ambiguous)

    def flush():
        if raw:
            runs.append('raw(%s)' % bytes(raw[:32]).hex() + ('..%dB' % len(raw) if len(raw) > 32 else ''))
            del raw[:]

    while pos < len(wire):
        if len(runs) >= max_runs:
            flush()
            runs.append('...(%d more bytes)' % (len(wire) - pos))
            break
        ent = owner.get(wire[pos] >> 5)
        off = -1
        if ent is not None:
            name, m = ent
            if len(m) < 32:
                off = wire[pos] & 31
                if off >= len(m):
                    off = -1
            else:
                for k in (16, 8, 4, 1):
                    piece = wire[pos:pos + k]
                    off = cont[name] if m.startswith(piece, cont.get(name, len(m))) else m.find(piece)
                    if off >= 0:
                        break
        if off < 0:
            raw.append(wire[pos])
            pos += 1
            continue
        flush()
        n = max(1, _lcp(wire, pos, m, off))
        runs.append('%s[%d:%d]' % (name, off, off + n))
        cont[name] = off + n
        pos += n
    else:
        flush()
    return ' '.join(runs)


def judge(wire, programs):
    """programs: list of (thread name, [message bytes in push order]).  Returns a list of
    (clause, text) for every clause of the statement that `wire` breaks:
      split       the bytes are not a concatenation of whole pushed messages (truncated / interleaved)
      lost        a pushed message is not on the wire (at quiescence)
      duplicated  a message is on the wire more than once
      order       two messages of one thread are on the wire against that thread's push order
    plus the order in which whole messages were found."""
    allm = [m for _, ms in programs for m in ms]
    names = {}
    for tname, ms in programs:
        for k, m in enumerate(ms):
            names[m] = '%s#%d(%dB)' % (tname, k, len(m))
    if len(set(m[0] for m in allm)) != len(allm):
        raise HarnessError('messages are not distinguishable by their first byte')
    by_first = dict((m[0], m) for m in allm)
    out = []
    seen = []
    pos = 0
    while pos < len(wire):
        m = by_first.get(wire[pos])
        if m is None or not wire.startswith(m, pos):
            out.append(('split', 'the socket bytes are not a sequence of whole messages (first break at offset %d): %s'
                        % (pos, render(wire, programs))))
            break
        seen.append(m)
        pos += len(m)
    else:
        missing = [m for m in allm if m not in seen]
        if missing:
            out.append(('lost', 'never written: %s; socket got %s' % ([name_of(x, names) for x in missing],
                                                                       [name_of(x, names) for x in seen])))
    dup = sorted(set(name_of(m, names) for m in seen if seen.count(m) > 1))
    if dup:
        out.append(('duplicated', 'written more than once: %s; socket got %s' % (dup, [name_of(x, names) for x in seen])))
    for tname, ms in programs:
        idx = [seen.index(m) for m in ms if m in seen]
        if idx != sorted(idx):
            out.append(('order', 'messages of %s reached the socket out of push order: %s' % (
                tname, [name_of(x, names) for x in seen])))
    return out, [name_of(m, names) for m in seen]


def selftest():
    a, b, c = make_msg(1, 17), make_msg(2, 9), make_msg(3, 1)
    prog = [('t0', [a, c]), ('t1', [b])]
    cases = [
        (a + b + c, []), (b + a + c, []), (a + c + b, []),
        (c + a + b, ['order']), (a + b, ['lost']), (b'', ['lost']), (a + b + c + b, ['duplicated']),
        (a[:8] + b + a[8:] + c, ['split']), (a[:16] + b + c, ['split']), (a + a[:3] + b + c, ['split']),
        (a[8:16] + a[:8] + a[16:] + b + c, ['split']),
    ]
    ok = True
    for wire, want in cases:
        got = [cl for cl, _ in judge(wire, prog)[0]]
        if got != want:
            print('c11lib selftest: judge(%s) = %r, expected %r' % (wire.hex(), got, want))
            ok = False
    return ok


def programs_of(params):
    """[(thread name, [messages])] in the fixed numbering used by the harnesses and the oracle."""
    progs = []
    mid = 1
    for ti, sizes in enumerate(params['msgs']):
        ms = []
        for n in sizes:
            ms.append(make_msg(mid, n))
            mid += 1
        progs.append(('pusher%d' % ti, ms))
    ms = []
    for n in params.get('loop') or ():
        ms.append(make_msg(mid, n))
        mid += 1
    if ms:
        progs.append(('loop', ms))
    ms = []
    for n in params.get('prefill') or ():
        ms.append(make_msg(mid, n))
        mid += 1
    if ms:
        progs.append(('earlier', ms))
    return progs


class Recorder(object):
    """Order of push() calls/returns and of socket writes in one execution (for the non-triviality rule)."""
    def __init__(self):
        self.ev = []

    def overlap(self, programs):
        """True iff two messages of different threads were in flight at the same time: each one's push()
        was entered before the other one's last byte reached the socket."""
        call, last = {}, {}
        owner = {}
        for tname, ms in programs:
            for m in ms:
                owner[m[0] >> 5] = tname
        for i, (kind, x) in enumerate(self.ev):
            if kind == 'call':
                call[x[0] >> 5] = i
            elif kind == 'sent':
                for b in owners_in(x):
                    last[b] = i
        ids = sorted(call)
        for a in ids:
            for b in ids:
                if a < b and owner.get(a) != owner.get(b):
                    if call[a] < last.get(b, 1 << 30) and call[b] < last.get(a, 1 << 30):
                        return True
        return False


# ------------------------------------------------------------------------------ scheduler with reused OS threads
class _Worker(object):
    """A long-lived OS thread that carries one virtual thread per execution.  (Creating an OS thread costs
    several milliseconds on this machine, an execution of this check a fraction of one.)"""
    def __init__(self):
        self.job = None
        self.go = threading.Semaphore(0)
        self.idle = threading.Event()
        self.idle.set()
        self.thread = threading.Thread(target=self._main, name='c11-worker')
        self.thread.daemon = True
        self.thread.start()

    def _main(self):
        while True:
            self.go.acquire()
            job, self.job = self.job, None
            try:
                job()
            finally:
                self.idle.set()

    def give(self, job):
        self.idle.clear()
        self.job = job
        self.go.release()


_POOL = {'pid': None, 'workers': []}


def _worker(i):
    if _POOL['pid'] != os.getpid():            # threads do not survive fork()
        _POOL['pid'], _POOL['workers'] = os.getpid(), []
    ws = _POOL['workers']
    while len(ws) <= i:
        ws.append(_Worker())
    return ws[i]


class PooledScheduler(sched.Scheduler):
    """vt.sched.Scheduler whose virtual threads are carried by reused OS threads; scheduling, choice
    points and replay are the base class's, only thread creation and the final join differ."""
    line_cap = None            # None: every traced line is a scheduling point; k: only its first k executions per thread are
    _line_hits = None

    def _local(self, frame, event, arg):
        if event == 'line':
            cap = self.line_cap
            if cap is not None:
                hits = self._line_hits
                if hits is None:
                    hits = self._line_hits = {}
                key = (self.current.tid if self.current is not None else -1, frame.f_code, frame.f_lineno)
                n = hits.get(key, 0) + 1
                hits[key] = n
                if n > cap:
                    return self._local
            self.point('line', (frame.f_code.co_name, frame.f_lineno))
        return self._local

    def spawn(self, target, name=None):
        vt = sched.VT(len(self.threads), name or 'T%d' % len(self.threads), target)
        w = _worker(vt.tid)
        if not w.idle.wait(5.0):
            raise HarnessError('worker thread of a previous execution is still busy')
        vt.os_thread = w.thread
        vt.worker = w
        self.threads.append(vt)
        w.give(lambda: self._bootstrap(vt))
        return vt

    def run(self, watchdog=120.0):
        vthreading.RT.sched = self
        try:
            order = sorted(self._enabled(), key=lambda t: t.tid)
            if order:
                c = self._pick(len(order), False, 'start', None, 0) if len(order) > 1 else 0
                self.current = order[c]
                order[c].sem.release()
                if not self.done_evt.wait(watchdog):
                    self._fail('harness', 'watchdog: execution did not finish in %ss current=%r steps=%d' % (
                        watchdog, self.current, self.steps))
                    self.done_evt.wait(2.0)
            else:
                self.aborting = True
            if self.aborting:
                for t in self.threads:
                    t.sem.release()
            for t in self.threads:
                if not t.worker.idle.wait(5.0):
                    _POOL['workers'] = []          # never reuse a stuck worker
                    raise HarnessError('execution hung: %s' % (self.failure,))
        finally:
            vthreading.RT.sched = None
        if self.failure and self.failure[0] == 'harness':
            raise HarnessError(self.failure[1])


# ------------------------------------------------------------------------------ asyncio world
class FakeSocket(object):
    def __init__(self, rec):
        self.sent = []
        self.rec = rec

    def setblocking(self, b):
        pass

    def fileno(self):
        return 99

    def close(self):
        pass

    def accept(self, data):
        data = bytes(data)
        self.sent.append(data)
        self.rec.ev.append(('sent', data))


class VLoop(asyncio.BaseEventLoop):
    """Event loop without selector and without threads of its own.  `_ready` is popped by the harness."""
    def __init__(self):
        asyncio.BaseEventLoop.__init__(self)
        self.vs = None              # Scheduler while the explored phase runs
        self.later_left = 0         # how many more sock_sendall calls may be answered "not now"
        self.laters = 0
        self.slow = 0               # slow peer: EVERY sock_sendall completes this many loop turns later (no choice)
        self.slowed = 0
        self.gate = None            # future: while set, the peer takes nothing (sock_sendall waits for it first)
        self.errors = []
        self.tasks = []
        self.set_exception_handler(self._on_error)

    def create_task(self, coro, **kw):
        t = asyncio.BaseEventLoop.create_task(self, coro, **kw)
        self.tasks.append(t)
        return t

    def task_errors(self):
        out = []
        for t in self.tasks:
            if t.done() and not t.cancelled() and t.exception() is not None:
                out.append('%s raised %r' % (getattr(t.get_coro(), '__qualname__', t.get_coro()), t.exception()))
        return out

    def _on_error(self, loop, context):
        self.errors.append('%s: %r' % (context.get('message'), context.get('exception')))

    def time(self):
        return 0.0

    def _process_events(self, event_list):
        pass

    def _write_to_self(self):
        # call_soon_threadsafe = append to _ready (done by the base class) + a scheduling point
        if self.vs is not None:
            self.vs.point('call_soon_threadsafe')

    async def sock_sendall(self, sock, data):
        # environment: the socket takes everything at once, or nothing now (EAGAIN) and everything one
        # loop turn later; a stalled peer (gate) takes nothing until it resumes, a slow one (slow=k) takes every
        # sendall k loop turns after it was issued
        if self.gate is not None:
            await self.gate
        for _ in range(self.slow):
            self.slowed += 1
            await asyncio.sleep(0)
        if self.vs is not None and self.later_left > 0 and self.vs.choose(2, 'sendall-later'):
            self.later_left -= 1
            self.laters += 1
            await asyncio.sleep(0)
        sock.accept(data)

    async def sock_recv(self, sock, n):
        return await self.create_future()      # the server stays silent

    def remove_reader(self, fd):
        pass

    def remove_writer(self, fd):
        pass

    def run_one(self):
        h = self._ready.popleft()
        if not h._cancelled:
            h._run()

    def drain(self, limit=1000):
        events._set_running_loop(self)
        try:
            n = 0
            while self._ready:
                self.run_one()
                n += 1
                if n > limit:
                    raise HarnessError('virtual loop does not become idle')
        finally:
            events._set_running_loop(None)

    def dispose(self):
        self.vs = None
        events._set_running_loop(self)
        try:
            for task in asyncio.all_tasks(self):
                task.cancel()
            n = 0
            while self._ready and n < 1000:
                self.run_one()
                n += 1
        except Exception:
            pass
        finally:
            events._set_running_loop(None)
            try:
                self.close()
            except Exception:
                pass


class _Ident(object):
    ident = None


class VAsyncioConnection(ar.AsyncioConnection):
    out_buffer_size = N
    _v_rec = None

    def _connect_socket(self):
        self._socket = FakeSocket(VAsyncioConnection._v_rec)


# Line-granular preemption applies to EVERY function defined in the reactor module (whichever thread runs it:
# push in a pusher thread, the coroutines and any helper the loop thread runs), not to a list of names: a
# hand-over helper added to the module is split at its source lines like push/_push_msg/handle_write are.
# asyncio's own code (Task, Queue, Lock, run_coroutine_threadsafe) and cassandra/connection.py stay untraced.
ASYNCIO_FOCUS_FILES = ('cassandra/io/asyncioreactor.py',)


def run_asyncio(params, prefix, part):
    """One execution.  params: msgs = message sizes per pusher thread, loop = sizes pushed from the loop
    thread inside one callback (arriving at a schedule-chosen moment), cold = the pushers start while the
    connection's watcher coroutines and its OPTIONS push are still queued, later = how many sock_sendall
    calls may be answered 'one turn later'.
    Large-message worlds: chunk = out_buffer_size of this connection (default N; REAL_CHUNK = the class's own
    value), slow = k: every sock_sendall completes k loop turns after it was issued (a peer that takes one chunk
    per k turns), prefill = sizes of messages pushed EARLIER (by a thread of their own, before the explored
    phase) while the peer was taking nothing: they sit in the connection's write path when the pushers start
    and the peer resumes; line_cap = k: a source line of the reactor module is a scheduling point only the
    first k times a thread executes it in this execution (None: always; 0: never, i.e. scheduling points only at the
    hand-over primitives call_soon_threadsafe / loop turn / thread start and end)."""
    progs = programs_of(params)
    rec = Recorder()
    cap = params.get('line_cap')
    s = PooledScheduler(prefix, focus_files=() if cap == 0 else ASYNCIO_FOCUS_FILES, horizon=params.get('horizon', 4000))
    s.line_cap = cap
    loop = VLoop()
    stub = _Ident()
    saved = (ar.AsyncioConnection._loop, ar.AsyncioConnection._loop_thread)
    ar.AsyncioConnection._loop, ar.AsyncioConnection._loop_thread = loop, stub
    VAsyncioConnection._v_rec = rec
    gc_was = gc.isenabled()
    gc.disable()
    state = {'done': 0}
    cold = bool(params.get('cold'))
    try:
        c = VAsyncioConnection('10.0.0.1', protocol_version=4)
        if not cold:
            loop.drain()                    # watchers parked at their awaits, OPTIONS written
        warm_sent = list(c._socket.sent)
        del c._socket.sent[:]
        del rec.ev[:]
        if params.get('chunk'):
            c.out_buffer_size = params['chunk']
        earlier = [ms for tname, ms in progs if tname == 'earlier']
        if earlier:
            # pushed by another thread before the explored phase, while the peer takes nothing
            loop.gate = loop.create_future()
            for m in earlier[0]:
                rec.ev.append(('call', m))
                c.push(m)
                rec.ev.append(('ret', m))
            loop.drain(limit=100000)
            if c._socket.sent:
                raise HarnessError('the stalled fake socket accepted bytes')
        loop.vs = s
        loop.later_left = params.get('later', 0)
        loop.slow = params.get('slow', 0)
        if loop.gate is not None:
            gate, loop.gate = loop.gate, None
            gate.set_result(None)           # the peer resumes: the parked sendall is the first ready handle
        nthreads = len([1 for tname, _ in progs if tname != 'earlier'])

        def pusher(ms):
            def body():
                try:
                    for m in ms:
                        rec.ev.append(('call', m))
                        c.push(m)
                        rec.ev.append(('ret', m))
                finally:
                    state['done'] += 1
            return body

        def loop_pushes(ms):
            # runs ON the loop thread (like a response callback that sends the next request)
            for m in ms:
                rec.ev.append(('call', m))
                c.push(m)
                rec.ev.append(('ret', m))

        def io_body(ms):
            def body():
                try:
                    loop.call_soon_threadsafe(loop_pushes, ms)
                finally:
                    state['done'] += 1
            return body

        def loop_body():
            events._set_running_loop(loop)
            try:
                while True:
                    if loop._ready:
                        loop.run_one()
                        s.point('loop-turn')
                    elif state['done'] >= nthreads:
                        break
                    else:
                        s.block(lambda: bool(loop._ready) or state['done'] >= nthreads, None, 'loop idle')
            finally:
                events._set_running_loop(None)

        lt = s.spawn(loop_body, 'loop')
        stub.ident = lt.os_thread.ident
        for tname, ms in progs:
            if tname != 'earlier':
                s.spawn(io_body(ms) if tname == 'loop' else pusher(ms), tname if tname != 'loop' else 'io')
        s.run()
        sent = list(c._socket.sent)
        loop.errors.extend(loop.task_errors())
    finally:
        loop.dispose()
        ar.AsyncioConnection._loop, ar.AsyncioConnection._loop_thread = saved
        VAsyncioConnection._v_rec = None
        if gc_was:
            gc.enable()
    if s.threads[0].exc is not None:
        raise HarnessError('virtual loop thread died: %s' % getattr(s.threads[0], 'exc_tb', s.threads[0].exc))
    # the whole stream since the connection was made is judged: the constructor's OPTIONS push is message 0
    progs = [('ctor', [OPTIONS_V4])] + progs
    extra = ''
    if loop.errors:
        extra += '; on the loop: %s' % '; '.join(sorted(set(loop.errors))[:3])
    for t in s.threads[1:]:
        if t.exc is not None and not s.failure:
            extra += ' %s raised %r' % (t.name, t.exc)
    _judge_execution('asyncio', params, s, progs, b''.join(warm_sent + sent), len(sent), rec, part, extra,
                     {'laters': loop.laters, 'slowed_sendalls': loop.slowed})
    return s


# ------------------------------------------------------------------------------ twisted world
class VReactor(object):
    """What TwistedConnection and twisted's endpoint/transport code need of a reactor."""
    running = True
    _stopped = False

    def __init__(self, rec):
        self.vs = None
        self.calls = []            # threadCallQueue
        self.writers = []
        self.rec = rec
        self.transports = []
        self.partial_left = 0
        self.partials = 0
        self.slow_bytes = 0        # slow peer: the socket takes at most this many bytes per doWrite (0: no limit)
        self.slowed = 0

    def callFromThread(self, f, *a, **kw):
        self.calls.append((f, a, kw))
        if self.vs is not None:
            self.vs.point('callFromThread')

    def connectTCP(self, host, port, factory, timeout=30, bindAddress=None):
        proto = factory.buildProtocol(None)
        t = VTransport(self)
        self.transports.append(t)
        proto.makeConnection(t)
        return t

    def addWriter(self, w):
        if w not in self.writers:
            self.writers.append(w)

    def removeWriter(self, w):
        if w in self.writers:
            self.writers.remove(w)

    def addReader(self, r):
        pass

    def removeReader(self, r):
        pass

    def turn(self):
        """One reactor iteration like ReactorBase.mainLoop: the thread calls that are queued now, then one
        doWrite per transport that has buffered data."""
        n = len(self.calls)
        for _ in range(n):
            f, a, kw = self.calls.pop(0)
            f(*a, **kw)
            if self.vs is not None:
                self.vs.point('reactor-call')
        for w in list(self.writers):
            w.doWrite()
            if self.vs is not None:
                self.vs.point('reactor-write')

    def idle(self):
        return not self.calls and not self.writers


if _tw_abstract is not None:
    class VTransport(_tw_abstract.FileDescriptor):
        """twisted's own write buffer (write/doWrite/_tempDataBuffer are the library's); the socket is fake."""
        def __init__(self, reactor):
            _tw_abstract.FileDescriptor.__init__(self, reactor)
            self.connected = 1
            self.sent = []

        def fileno(self):
            return 99

        def writeSomeData(self, data):
            r = self.reactor
            n = len(data)
            if r.slow_bytes and n > r.slow_bytes:
                n = r.slow_bytes                # slow peer: never more than this per doWrite (no choice)
                r.slowed += 1
            if r.vs is not None and n > 1 and r.partial_left > 0 and r.vs.choose(2, 'short-write'):
                r.partial_left -= 1
                r.partials += 1
                n = (n + 1) // 2
            chunk = bytes(data[:n])
            self.sent.append(chunk)
            r.rec.ev.append(('sent', chunk))
            return n

    class VTwistedConnection(tr.TwistedConnection):
        out_buffer_size = N

    # every function defined in the reactor module (push, and whatever the reactor thread runs of it)
    TWISTED_FOCUS_FILES = ('cassandra/io/twistedreactor.py',)


class _TwLoopStub(object):
    def maybe_start(self):
        pass

    def add_timer(self, timer):
        raise HarnessError('no timers in the C11 world')


def run_twisted(params, prefix, part):
    progs = programs_of(params)
    rec = Recorder()
    if params.get('prefill'):
        raise HarnessError('prefill is a parameter of the asyncio world')
    cap = params.get('line_cap')
    s = PooledScheduler(prefix, focus_files=() if cap == 0 else TWISTED_FOCUS_FILES, horizon=params.get('horizon', 4000))
    s.line_cap = cap
    r = VReactor(rec)
    saved = (tr.reactor, tr.TwistedConnection._loop)
    tr.reactor, tr.TwistedConnection._loop = r, _TwLoopStub()
    state = {'done': 0}
    gc_was = gc.isenabled()
    gc.disable()
    try:
        c = VTwistedConnection('10.0.0.1', protocol_version=4)
        guard = 0
        while not r.idle():
            r.turn()
            guard += 1
            if guard > 100:
                raise HarnessError('virtual reactor does not become idle')
        if c.transport is None:
            raise HarnessError('TwistedConnection did not get its transport from the virtual reactor')
        warm_sent = b''.join(c.transport.sent)
        del c.transport.sent[:]
        del rec.ev[:]
        if params.get('chunk'):
            c.out_buffer_size = params['chunk']
        r.vs = s
        r.partial_left = params.get('partial', 0)
        r.slow_bytes = params.get('slow_bytes', 0)
        nthreads = len(progs)

        def pusher(ms):
            def body():
                try:
                    for m in ms:
                        rec.ev.append(('call', m))
                        c.push(m)
                        rec.ev.append(('ret', m))
                finally:
                    state['done'] += 1
            return body

        def loop_pushes(ms):
            for m in ms:
                rec.ev.append(('call', m))
                c.push(m)
                rec.ev.append(('ret', m))

        def io_body(ms):
            def body():
                try:
                    r.callFromThread(loop_pushes, ms)
                finally:
                    state['done'] += 1
            return body

        def reactor_body():
            while True:
                if not r.idle():
                    r.turn()
                elif state['done'] >= nthreads:
                    break
                else:
                    s.block(lambda: not r.idle() or state['done'] >= nthreads, None, 'reactor idle')

        s.spawn(reactor_body, 'reactor')
        for tname, ms in progs:
            s.spawn(io_body(ms) if tname == 'loop' else pusher(ms), tname if tname != 'loop' else 'io')
        s.run()
        sent = list(c.transport.sent)
    finally:
        tr.reactor, tr.TwistedConnection._loop = saved
        if gc_was:
            gc.enable()
    if s.threads[0].exc is not None:
        raise HarnessError('virtual reactor thread died: %s' % getattr(s.threads[0], 'exc_tb', s.threads[0].exc))
    progs = [('ctor', [OPTIONS_V4])] + progs
    extra = ''
    for t in s.threads[1:]:
        if t.exc is not None and not s.failure:
            extra += ' %s raised %r' % (t.name, t.exc)
    _judge_execution('twisted', params, s, progs, warm_sent + b''.join(sent), len(sent), rec, part, extra,
                     {'partials': r.partials, 'slowed_writes': r.slowed})
    return s


# ------------------------------------------------------------------------------ judging one execution
def _judge_execution(reactor, params, s, progs, wire, nwrites, rec, part, extra, envinfo):
    data = {'params': params, 'prefix': s.choices()}
    if s.failure:
        part.violation('C11/no-quiescence/%s/%s' % (reactor, s.failure[0]),
                       'the execution does not come to rest: %s%s' % (s.failure[1], extra), data)
        part.outcome('%s:%s' % (reactor, s.failure[0]))
        return
    broken, order = judge(wire, progs)
    for clause, text in broken:
        part.violation('C11/%s/%s' % (clause, reactor), '%s [%s]%s' % (text, _describe(params), extra), data)
    part.outcome('%s:%s%s' % (reactor, ','.join(order), ' !' + '+'.join(cl for cl, _ in broken) if broken else ''))
    if rec.overlap(progs):
        part.count('executions_with_overlapping_pushes')
    if any(p.chosen for p in s.trace if p.cost):
        part.count('executions_with_preemption')
    if any(envinfo.values()):
        part.count('executions_with_delayed_or_short_socket_write')
    lp = list(params.get('loop') or ())
    if len(lp) > 1:
        part.count('executions_with_several_pushes_inside_one_loop_callback')
        if min(lp) <= N < max(lp):
            part.count('executions_with_chunked_and_single_chunk_pushes_inside_one_loop_callback')
    sizes = [n for m in params['msgs'] for n in m] + lp + list(params.get('prefill') or ())
    chunk = params.get('chunk') or N
    if sizes and max(sizes) >= 100 * chunk:
        part.count('executions_with_message_of_100_or_more_chunks')
    if params.get('slow') or params.get('slow_bytes'):
        part.count('executions_with_slow_peer')
    if params.get('prefill'):
        part.count('executions_with_prefilled_write_path')
    part.count('socket_writes', nwrites)
    # which driver functions offered a line-level choice point (and to which thread) in this execution
    for fn in set(p.info[0] for p in s.trace if p.kind == 'line' and p.info):
        part.count('executions_with_line_level_choice_inside:%s' % fn)
    npre = sum(1 for p in s.trace if p.cost and p.chosen)
    # prefer a sample that shows something: a preempted execution in which pushes overlapped
    kind = [reactor, bool(params.get('loop')), bool(params.get('cold')), len(params['msgs']),
            max([n for m in params['msgs'] for n in m] + list(params.get('loop') or ())) > N]
    if sizes and max(sizes) >= 100 * chunk:
        kind.append('large')
    if npre and rec.overlap(progs) and not any(x.get('kind') == kind for x in part.samples):
        runs = []
        for tid, _ in s.log:
            if runs and runs[-1][0] == tid:
                runs[-1][1] += 1
            else:
                runs.append([tid, 1])
        part.sample({'reactor': reactor, 'kind': kind, 'params': params, 'choices': s.choices(), 'preemptions': npre,
                     'thread_runs': ' '.join('%s*%d' % (s.threads[t].name, k) for t, k in runs),
                     'socket_stream': render(wire, progs), 'socket_writes': nwrites, 'env': envinfo}, limit=40)


def _describe(params):
    d = 'pushers %r' % (params['msgs'],)
    if params.get('loop'):
        d += ' loop-thread pushes %r' % (params['loop'],)
    if params.get('cold'):
        d += ' cold start'
    if params.get('chunk'):
        d += ' out_buffer_size %d' % params['chunk']
    if params.get('prefill'):
        d += ' earlier pushes %r still in the write path (peer stalled until now)' % (params['prefill'],)
    if params.get('slow'):
        d += ' slow peer (every sendall takes %d loop turn(s))' % params['slow']
    if params.get('slow_bytes'):
        d += ' slow peer (<=%d bytes per doWrite)' % params['slow_bytes']
    return d


HARNESS = {'asyncio': run_asyncio, 'twisted': run_twisted}


def run_any(params, prefix, part):
    return HARNESS[params['reactor']](params, prefix, part)
