"""Independent reference codec for CQL values (oracle of C01/C02/C28).

Written from the native protocol specification (v1..v5, section "Data type serialization
formats") and from the behaviour of Cassandra's serializers (BigInteger.toByteArray varints,
BigDecimal = int32 scale + unscaled varint, VIntCoding zig-zag vints for durations, dates as
unsigned days with 2^31 = epoch, collections as count + length-prefixed elements with a
negative length for null, vectors as concatenation or unsigned-vint-size-prefixed elements).
Only the python standard library is used; nothing here imports or copies the driver.

Type descriptions (hashable nested tuples)
    ('int',) ('text',) ...                      scalars, see SCALARS
    ('list', T) ('set', T) ('map', K, V)
    ('tuple', T1, ..., Tn)
    ('udt', keyspace, name, ((field, T), ...))
    ('vector', T, n)
    ('frozen', T) ('reversed', T)               transparent wrappers

Reference values (plain python)
    ascii/text/varchar str | blob bytes | boolean bool | tinyint..bigint/counter/varint int
    decimal decimal.Decimal | float/double float | uuid/timeuuid uuid.UUID | inet str
    timestamp int (milliseconds since epoch) | date int (days since epoch)
    time int (nanoseconds since midnight) | duration (months, days, nanoseconds)
    list/set/vector python list (a set is listed in the order it is written)
    map list of (key, value) pairs | tuple/udt python tuple (may be shorter than the type)
    None = null (only as an element / field)
"""
import decimal
import ipaddress
import struct
import uuid

SCALARS = ('ascii', 'text', 'varchar', 'blob', 'boolean', 'tinyint', 'smallint', 'int', 'bigint',
           'counter', 'varint', 'decimal', 'float', 'double', 'uuid', 'timeuuid', 'inet',
           'timestamp', 'date', 'time', 'duration')
COLLECTIONS = ('list', 'set', 'map')
WRAPPERS = ('frozen', 'reversed')

NANOS_PER_DAY = 86400 * 10 ** 9


class RefError(Exception):
    pass


class RefRangeError(RefError, ValueError):
    """The value is outside the range of the type: a conforming encoder must refuse it."""


class RefUnrepresentable(RefError):
    """The value has no encoding in this protocol version (null element before v3)."""


class RefUnknown(RefError):
    """The reference deliberately does not decide this case (see fixed_len)."""


class RefDecodeError(RefError):
    pass


# ------------------------------------------------------------------------------- type helpers
def kind(t):
    return t[0]


def unwrap(t):
    while t[0] in WRAPPERS:
        t = t[1]
    return t


def is_scalar(t):
    return t[0] in SCALARS


def subtypes(t):
    k = t[0]
    if k in SCALARS:
        return ()
    if k in ('list', 'set', 'frozen', 'reversed'):
        return (t[1],)
    if k == 'map':
        return (t[1], t[2])
    if k == 'tuple':
        return tuple(t[1:])
    if k == 'udt':
        return tuple(ft for _, ft in t[3])
    if k == 'vector':
        return (t[1],)
    raise RefError('unknown type %r' % (t,))


def depth(t):
    s = subtypes(t)
    return 1 + (max(depth(x) for x in s) if s else 0)


def walk(t):
    yield t
    for s in subtypes(t):
        for x in walk(s):
            yield x


UNKNOWN = 'unknown'

_FIXED = {'boolean': 1, 'int': 4, 'bigint': 8, 'float': 4, 'double': 8, 'uuid': 16, 'timeuuid': 16,
          'timestamp': 8}
_VARIABLE = ('ascii', 'text', 'varchar', 'blob', 'varint', 'decimal', 'duration', 'inet',
             'list', 'set', 'map', 'tuple', 'udt')


def fixed_len(t):
    """Serialized length if every value of the type has the same length in Cassandra 5
    (AbstractType.valueLengthIfFixed), None for variable length, UNKNOWN where the reference
    does not commit itself (tinyint, smallint, date, time, counter)."""
    t = unwrap(t)
    k = t[0]
    if k in _FIXED:
        return _FIXED[k]
    if k in _VARIABLE:
        return None
    if k == 'vector':
        e = fixed_len(t[1])
        if e is None or e == UNKNOWN:
            return e
        return e * t[2]
    return UNKNOWN


# ------------------------------------------------------------------------------- descriptors
_MARSHAL = {
    'ascii': 'AsciiType', 'text': 'UTF8Type', 'varchar': 'UTF8Type', 'blob': 'BytesType',
    'boolean': 'BooleanType', 'tinyint': 'ByteType', 'smallint': 'ShortType', 'int': 'Int32Type',
    'bigint': 'LongType', 'counter': 'CounterColumnType', 'varint': 'IntegerType',
    'decimal': 'DecimalType', 'float': 'FloatType', 'double': 'DoubleType', 'uuid': 'UUIDType',
    'timeuuid': 'TimeUUIDType', 'inet': 'InetAddressType', 'timestamp': 'TimestampType',
    'date': 'SimpleDateType', 'time': 'TimeType', 'duration': 'DurationType',
    'list': 'ListType', 'set': 'SetType', 'map': 'MapType', 'tuple': 'TupleType',
    'udt': 'UserType', 'vector': 'VectorType', 'frozen': 'FrozenType', 'reversed': 'ReversedType',
}
PREFIX = 'org.apache.cassandra.db.marshal.'


def hexname(s):
    return s.encode('utf-8').hex()


def marshal_class(t, full=True, sep=','):
    """The type as Cassandra's TypeParser notation (AbstractType.toString())."""
    k = t[0]
    name = (PREFIX if full else '') + _MARSHAL[k]
    if k in SCALARS:
        return name
    if k == 'udt':
        parts = [t[1], hexname(t[2])] + ['%s:%s' % (hexname(fn), marshal_class(ft, full, sep)) for fn, ft in t[3]]
        return '%s(%s)' % (name, sep.join(parts))
    if k == 'vector':
        return '%s(%s%s%d)' % (name, marshal_class(t[1], full, sep), sep, t[2])
    return '%s(%s)' % (name, sep.join(marshal_class(s, full, sep) for s in subtypes(t)))


_PLAIN_IDENT = set('abcdefghijklmnopqrstuvwxyz0123456789_')


def cql_ident(name):
    if name and all(c in _PLAIN_IDENT for c in name) and not name[0].isdigit():
        return name
    return '"%s"' % name.replace('"', '""')


def cql_name(t, sep=', ', keep_frozen=True):
    """CQL notation as Cassandra prints it in system_schema (CQL3Type.toString()); tuples and
    UDTs nested anywhere are printed inside frozen<> exactly when the tree says so."""
    k = t[0]
    if k in SCALARS:
        return k
    if k == 'udt':
        return cql_ident(t[2])
    if k == 'frozen':
        inner = cql_name(t[1], sep, keep_frozen)
        return 'frozen<%s>' % inner if keep_frozen else inner
    if k == 'reversed':
        return cql_name(t[1], sep, keep_frozen)
    if k == 'vector':
        return 'vector<%s%s%d>' % (cql_name(t[1], sep, keep_frozen), sep, t[2])
    return '%s<%s>' % (k, sep.join(cql_name(s, sep, keep_frozen) for s in subtypes(t)))


# ------------------------------------------------------------------------------- primitives
def varint_encode(n):
    """java.math.BigInteger.toByteArray(): minimal big-endian two's complement."""
    if n >= 0:
        length = n.bit_length() // 8 + 1
    else:
        length = (-n - 1).bit_length() // 8 + 1
    return n.to_bytes(length, 'big', signed=True)


def varint_decode(b):
    if not b:
        raise RefDecodeError('empty varint')
    return int.from_bytes(b, 'big', signed=True)


def uvint_encode(n):
    """VIntCoding.writeUnsignedVInt: the number of leading 1 bits of the first byte is the number
    of bytes that follow; 9 bytes carry a full 64-bit value."""
    if n < 0 or n >= 1 << 64:
        raise RefRangeError('unsigned vint out of range: %r' % (n,))
    for size in range(1, 9):
        if n < 1 << (7 * size):
            raw = bytearray(n.to_bytes(size, 'big'))
            raw[0] |= (0xFF << (9 - size)) & 0xFF
            return bytes(raw)
    return b'\xff' + n.to_bytes(8, 'big')


def uvint_decode(b, pos=0):
    """-> (value, new position)"""
    if pos >= len(b):
        raise RefDecodeError('truncated vint')
    first = b[pos]
    extra = 0
    while extra < 8 and first & (0x80 >> extra):
        extra += 1
    if pos + 1 + extra > len(b):
        raise RefDecodeError('truncated vint')
    val = first & (0xFF >> extra) if extra < 8 else 0
    for i in range(extra):
        val = (val << 8) | b[pos + 1 + i]
    return val, pos + 1 + extra


def zigzag(n):
    if not -(1 << 63) <= n < (1 << 63):
        raise RefRangeError('vint out of the 64-bit range: %r' % (n,))
    return 2 * n if n >= 0 else -2 * n - 1


def unzigzag(u):
    return u // 2 if u % 2 == 0 else -(u + 1) // 2


def vint_encode(n):
    return uvint_encode(zigzag(n))


def vint_decode(b, pos=0):
    u, pos = uvint_decode(b, pos)
    return unzigzag(u), pos


def _rng(name, v, lo, hi):
    if isinstance(v, bool) or not isinstance(v, int):
        raise RefRangeError('%s wants an int, got %r' % (name, v))
    if not lo <= v <= hi:
        raise RefRangeError('%s out of range: %r' % (name, v))


def inet_format(b):
    if len(b) == 4:
        return '.'.join(str(x) for x in b)
    if len(b) != 16:
        raise RefDecodeError('inet of %d bytes' % len(b))
    if b[:10] == b'\x00' * 10 and b[10:12] == b'\xff\xff':
        return '::ffff:' + '.'.join(str(x) for x in b[12:])
    return ipaddress.IPv6Address(bytes(b)).compressed


# ------------------------------------------------------------------------------- scalar codec
def _enc_scalar(k, v):
    if k in ('text', 'varchar'):
        if not isinstance(v, str):
            raise RefRangeError('text wants str')
        try:
            return v.encode('utf-8')
        except UnicodeEncodeError as e:
            raise RefRangeError(str(e))
    if k == 'ascii':
        if not isinstance(v, str) or not v.isascii():
            raise RefRangeError('not ascii: %r' % (v,))
        return v.encode('ascii')
    if k == 'blob':
        return bytes(v)
    if k == 'boolean':
        if not isinstance(v, bool):
            raise RefRangeError('boolean wants bool')
        return b'\x01' if v else b'\x00'
    if k == 'tinyint':
        _rng(k, v, -2 ** 7, 2 ** 7 - 1)
        return struct.pack('>b', v)
    if k == 'smallint':
        _rng(k, v, -2 ** 15, 2 ** 15 - 1)
        return struct.pack('>h', v)
    if k == 'int':
        _rng(k, v, -2 ** 31, 2 ** 31 - 1)
        return struct.pack('>i', v)
    if k in ('bigint', 'counter', 'timestamp'):
        _rng(k, v, -2 ** 63, 2 ** 63 - 1)
        return struct.pack('>q', v)
    if k == 'varint':
        _rng(k, v, v, v)
        return varint_encode(v)
    if k == 'decimal':
        if not isinstance(v, decimal.Decimal) or not v.is_finite():
            raise RefRangeError('decimal wants a finite Decimal: %r' % (v,))
        sign, digits, exp = v.as_tuple()
        unscaled = int(''.join(str(d) for d in digits))
        if sign:
            unscaled = -unscaled
        _rng('decimal scale', -exp, -2 ** 31, 2 ** 31 - 1)
        return struct.pack('>i', -exp) + varint_encode(unscaled)
    if k == 'float':
        if v != v or v in (float('inf'), float('-inf')):
            return struct.pack('>f', v)
        if abs(v) >= 2.0 ** 128:
            raise RefRangeError('float out of range: %r' % (v,))
        try:
            return struct.pack('>f', v)
        except OverflowError:
            raise RefRangeError('float out of range: %r' % (v,))
    if k == 'double':
        return struct.pack('>d', v)
    if k in ('uuid', 'timeuuid'):
        if not isinstance(v, uuid.UUID):
            raise RefRangeError('uuid wants UUID')
        return v.bytes
    if k == 'inet':
        try:
            return ipaddress.ip_address(v).packed
        except ValueError as e:
            raise RefRangeError(str(e))
    if k == 'date':
        _rng(k, v, -2 ** 31, 2 ** 31 - 1)
        return struct.pack('>I', v + 2 ** 31)
    if k == 'time':
        _rng(k, v, 0, NANOS_PER_DAY - 1)
        return struct.pack('>q', v)
    if k == 'duration':
        m, d, n = v
        _rng('duration months', m, -2 ** 31, 2 ** 31 - 1)
        _rng('duration days', d, -2 ** 31, 2 ** 31 - 1)
        _rng('duration nanoseconds', n, -2 ** 63, 2 ** 63 - 1)
        if (m < 0 or d < 0 or n < 0) and (m > 0 or d > 0 or n > 0):
            raise RefRangeError('duration components must have one sign: %r' % (v,))
        return vint_encode(m) + vint_encode(d) + vint_encode(n)
    raise RefError('unknown scalar %r' % (k,))


def _need(b, n, k):
    if len(b) != n:
        raise RefDecodeError('%s wants %d bytes, got %d' % (k, n, len(b)))


def _dec_scalar(k, b):
    if k in ('text', 'varchar'):
        return b.decode('utf-8')
    if k == 'ascii':
        return b.decode('ascii')
    if k == 'blob':
        return bytes(b)
    if k == 'boolean':
        _need(b, 1, k)
        return b != b'\x00'
    if k == 'tinyint':
        _need(b, 1, k)
        return struct.unpack('>b', b)[0]
    if k == 'smallint':
        _need(b, 2, k)
        return struct.unpack('>h', b)[0]
    if k == 'int':
        _need(b, 4, k)
        return struct.unpack('>i', b)[0]
    if k in ('bigint', 'counter', 'timestamp', 'time'):
        _need(b, 8, k)
        return struct.unpack('>q', b)[0]
    if k == 'varint':
        return varint_decode(b)
    if k == 'decimal':
        if len(b) < 5:
            raise RefDecodeError('short decimal')
        scale = struct.unpack('>i', b[:4])[0]
        unscaled = varint_decode(b[4:])
        digits = tuple(int(c) for c in str(abs(unscaled)))
        return decimal.Decimal((1 if unscaled < 0 else 0, digits, -scale))
    if k == 'float':
        _need(b, 4, k)
        return struct.unpack('>f', b)[0]
    if k == 'double':
        _need(b, 8, k)
        return struct.unpack('>d', b)[0]
    if k in ('uuid', 'timeuuid'):
        _need(b, 16, k)
        return uuid.UUID(bytes=bytes(b))
    if k == 'inet':
        return inet_format(b)
    if k == 'date':
        _need(b, 4, k)
        return struct.unpack('>I', b)[0] - 2 ** 31
    if k == 'duration':
        m, p = vint_decode(b, 0)
        d, p = vint_decode(b, p)
        n, p = vint_decode(b, p)
        if p != len(b):
            raise RefDecodeError('trailing bytes after duration')
        return (m, d, n)
    raise RefError('unknown scalar %r' % (k,))


# ------------------------------------------------------------------------------- composite codec
def _wide(pv):
    """Collections use 32-bit counts and lengths from protocol v3 on (DSE v1/v2 = 65/66 are
    built on v4), 16-bit unsigned ones in v1 and v2."""
    return pv >= 3


def _inner(pv):
    """Anything nested inside a collection, tuple or UDT is written in the v3 layout at least
    (Cassandra's CollectionSerializer.serialize() always packs with VERSION_3)."""
    return max(3, pv)


def _put_len(n, wide, what):
    if wide:
        _rng(what, n, -2 ** 31, 2 ** 31 - 1)
        return struct.pack('>i', n)
    if n < 0:
        raise RefUnrepresentable('protocol v1/v2 collections cannot carry a null %s' % what)
    if n > 0xFFFF:
        raise RefRangeError('%s does not fit 16 bits: %d' % (what, n))
    return struct.pack('>H', n)


def _put_elem(t, v, pv, wide):
    if v is None:
        return _put_len(-1, wide, 'element')
    b = encode(t, v, _inner(pv))
    return _put_len(len(b), wide, 'element length') + b


def encode(t, v, pv):
    """Bytes Cassandra's serializer of type `t` produces for the non-null value `v`."""
    k = t[0]
    if v is None:
        raise RefError('top-level null has no serialized form (it is a length of -1 in the frame)')
    if k in SCALARS:
        return _enc_scalar(k, v)
    if k in WRAPPERS:
        return encode(t[1], v, pv)
    if k in ('list', 'set'):
        wide = _wide(pv)
        out = [_put_len(len(v), wide, 'element count')]
        for x in v:
            out.append(_put_elem(t[1], x, pv, wide))
        return b''.join(out)
    if k == 'map':
        wide = _wide(pv)
        out = [_put_len(len(v), wide, 'entry count')]
        for key, val in v:
            out.append(_put_elem(t[1], key, pv, wide))
            out.append(_put_elem(t[2], val, pv, wide))
        return b''.join(out)
    if k in ('tuple', 'udt'):
        subs = subtypes(t)
        if len(v) > len(subs):
            raise RefRangeError('%d values for a %s of %d fields' % (len(v), k, len(subs)))
        out = []
        for st, x in zip(subs, v):
            out.append(_put_elem(st, x, pv, True))
        return b''.join(out)
    if k == 'vector':
        et, n = t[1], t[2]
        if len(v) != n:
            raise RefRangeError('vector of dimension %d given %d elements' % (n, len(v)))
        fl = fixed_len(et)
        if fl == UNKNOWN:
            raise RefUnknown('fixed length of %r is not decided by the reference' % (et,))
        out = []
        for x in v:
            if x is None:
                raise RefRangeError('vectors cannot hold null')
            b = encode(et, x, pv)
            if fl is None:
                out.append(uvint_encode(len(b)))
            elif len(b) != fl:
                raise RefError('reference bug: %r encoded to %d bytes' % (et, len(b)))
            out.append(b)
        return b''.join(out)
    raise RefError('unknown type %r' % (t,))


class _Reader(object):
    def __init__(self, b):
        self.b, self.p = bytes(b), 0

    def take(self, n):
        if n < 0 or self.p + n > len(self.b):
            raise RefDecodeError('truncated: want %d at %d of %d' % (n, self.p, len(self.b)))
        r = self.b[self.p:self.p + n]
        self.p += n
        return r

    def length(self, wide):
        if wide:
            return struct.unpack('>i', self.take(4))[0]
        return struct.unpack('>H', self.take(2))[0]

    def elem(self, t, pv, wide):
        n = self.length(wide)
        if n < 0:
            return None
        return decode(t, self.take(n), _inner(pv))

    def done(self):
        if self.p != len(self.b):
            raise RefDecodeError('%d trailing bytes' % (len(self.b) - self.p))


def decode(t, b, pv):
    """The value Cassandra means by the bytes `b` of type `t`."""
    k = t[0]
    if k in SCALARS:
        return _dec_scalar(k, bytes(b))
    if k in WRAPPERS:
        return decode(t[1], b, pv)
    r = _Reader(b)
    if k in ('list', 'set'):
        wide = _wide(pv)
        n = r.length(wide)
        out = [r.elem(t[1], pv, wide) for _ in range(n)]
        r.done()
        return out
    if k == 'map':
        wide = _wide(pv)
        n = r.length(wide)
        out = []
        for _ in range(n):
            key = r.elem(t[1], pv, wide)
            val = r.elem(t[2], pv, wide)
            out.append((key, val))
        r.done()
        return out
    if k in ('tuple', 'udt'):
        out = []
        for st in subtypes(t):
            if r.p == len(r.b):
                out.append(None)       # fields added later by ALTER TYPE are simply absent
            else:
                out.append(r.elem(st, pv, True))
        r.done()
        return tuple(out)
    if k == 'vector':
        et, n = t[1], t[2]
        fl = fixed_len(et)
        if fl == UNKNOWN:
            raise RefUnknown('fixed length of %r is not decided by the reference' % (et,))
        out = []
        for _ in range(n):
            if fl is None:
                size, r.p = uvint_decode(r.b, r.p)
                out.append(decode(et, r.take(size), pv))
            else:
                out.append(decode(et, r.take(fl), pv))
        r.done()
        return out
    raise RefError('unknown type %r' % (t,))


# ------------------------------------------------------------------------------- value equality
def same(t, a, b):
    """Structural equality of two reference values of type t (floats by bit pattern, sets
    irrespective of order, short tuples = padded with null)."""
    k = t[0]
    if k in WRAPPERS:
        return same(t[1], a, b)
    if a is None or b is None:
        return a is None and b is None
    if k in ('float', 'double'):
        fmt = '>f' if k == 'float' else '>d'
        try:
            return struct.pack(fmt, a) == struct.pack(fmt, b)
        except (OverflowError, struct.error, TypeError):
            return False
    if k == 'decimal':
        return isinstance(a, decimal.Decimal) and isinstance(b, decimal.Decimal) and \
            (a.as_tuple() == b.as_tuple() or (a == b == 0 and a.as_tuple()[2] == b.as_tuple()[2]))
    if k == 'boolean':
        return isinstance(a, bool) and isinstance(b, bool) and a == b
    if k in SCALARS:
        if k == 'duration':
            return tuple(a) == tuple(b)
        return type(a) == type(b) and a == b
    if k in ('list', 'vector'):
        return len(a) == len(b) and all(same(t[1], x, y) for x, y in zip(a, b))
    if k == 'set':
        if len(a) != len(b):
            return False
        rest = list(b)
        for x in a:
            for i, y in enumerate(rest):
                if same(t[1], x, y):
                    del rest[i]
                    break
            else:
                return False
        return True
    if k == 'map':
        return len(a) == len(b) and all(same(t[1], x[0], y[0]) and same(t[2], x[1], y[1]) for x, y in zip(a, b))
    if k in ('tuple', 'udt'):
        subs = subtypes(t)
        a = tuple(a) + (None,) * (len(subs) - len(a))
        b = tuple(b) + (None,) * (len(subs) - len(b))
        return len(a) == len(b) and all(same(st, x, y) for st, x, y in zip(subs, a, b))
    raise RefError('unknown type %r' % (t,))


# ------------------------------------------------------------------------------- self test
def selftest():
    """Fixed vectors: protocol-spec facts and the hand-checked vectors that ship with the driver's
    own unit tests (tests/unit/test_marshalling.py, test_types.py), retyped here as hex."""
    D = decimal.Decimal
    U = uuid.UUID
    I, T = ('int',), ('text',)
    vec = [
        (('ascii',), 'lorem ipsum dolor sit amet', 1, b'lorem ipsum dolor sit amet'),
        (('boolean',), True, 1, b'\x01'), (('boolean',), False, 1, b'\x00'),
        (('blob',), b'\xff\xfe\xfd\xfc\xfb', 1, b'\xff\xfe\xfd\xfc\xfb'),
        (('counter',), 9223372036854775807, 1, b'\x7f' + b'\xff' * 7),
        (('counter',), -9223372036854775808, 1, b'\x80' + b'\x00' * 7),
        (('timestamp',), 1320692149881, 1, b'\x00\x00\x013\x7fb\xeey'),          # 2011-11-07 18:55:49.881
        (('timestamp',), 1446422400000, 1, b'\x00\x00\x01P\xc5~L\x00'),          # 2015-11-02
        (('decimal',), D('1243878957943.1234124191998'), 1, b'\x00\x00\x00\r\nJ\x04"^\x91\x04\x8a\xb1\x18\xfe'),
        (('decimal',), D('-112233.441191'), 1, b'\x00\x00\x00\x06\xe5\xde]\x98Y'),
        (('decimal',), D('0.00000000000000064206'), 1, b'\x00\x00\x00\x14\x00\xfa\xce'),
        (('decimal',), D('-0.00000000000000064206'), 1, b'\x00\x00\x00\x14\xff\x052'),
        (('decimal',), D('64206e100'), 1, b'\xff\xff\xff\x9c\x00\xfa\xce'),
        (('double',), 19432.125, 1, b'@\xd2\xfa\x08\x00\x00\x00\x00'),
        (('double',), -19432.125, 1, b'\xc0\xd2\xfa\x08\x00\x00\x00\x00'),
        (('double',), 1.7415152243978685e+308, 1, b'\x7f\xef\x00\x00\x00\x00\x00\x00'),
        (('float',), 19432.125, 1, b'F\x97\xd0@'), (('float',), -19432.125, 1, b'\xc6\x97\xd0@'),
        (('float',), 338953138925153547590470800371487866880.0, 1, b'\x7f\x7f\x00\x00'),
        (('int',), 2135949312, 1, b'\x7f\x50\x00\x00'), (('int',), -144495, 1, b'\xff\xfd\xcb\x91'),
        (('varint',), 123456789123456789123456789, 1, b'f\x1e\xfd\xf2\xe3\xb1\x9f|\x04_\x15'),
        (('varint',), 0, 1, b'\x00'), (('varint',), 127, 1, b'\x7f'), (('varint',), 128, 1, b'\x00\x80'),
        (('varint',), -128, 1, b'\x80'), (('varint',), -129, 1, b'\xff\x7f'), (('varint',), -1, 1, b'\xff'),
        (('varint',), 255, 1, b'\x00\xff'), (('varint',), 256, 1, b'\x01\x00'), (('varint',), -256, 1, b'\xff\x00'),
        (('bigint',), 9223372036854775807, 1, b'\x7f' + b'\xff' * 7),
        (('inet',), '65.52.54.169', 1, b'A46\xa9'),
        (('inet',), '2a00:1328:e102:ccc0::122', 1, b'*\x00\x13(\xe1\x02\xcc\xc0\x00\x00\x00\x00\x00\x00\x01"'),
        (('text',), u'まして', 1, b'\xe3\x81\xbe\xe3\x81\x97\xe3\x81\xa6'),
        (('uuid',), U('49157efc-ef3c-9de3-1698-af801fb40b2a'), 1, b'I\x15~\xfc\xef<\x9d\xe3\x16\x98\xaf\x80\x1f\xb4\x0b*'),
        (('list', ('float',)), [], 1, b'\x00\x00'), (('set', ('varint',)), [], 2, b'\x00\x00'),
        (('map', ('decimal',), ('boolean',)), [], 1, b'\x00\x00'),
        (('list', ('float',)), [], 3, b'\x00\x00\x00\x00'),
        (('list', ('timeuuid',)), [U(bytes=b'\xafYC\xa3\xea<\x11\xe1\xabc\xc4,\x03"y\xf0')], 1,
         b'\x00\x01\x00\x10\xafYC\xa3\xea<\x11\xe1\xabc\xc4,\x03"y\xf0'),
        (('date',), 1, 1, b'\x80\x00\x00\x01'), (('date',), -1, 1, b'\x7f\xff\xff\xff'),
        (('date',), 0, 4, b'\x80\x00\x00\x00'), (('date',), -2 ** 31, 4, b'\x00\x00\x00\x00'),
        (('date',), 2 ** 31 - 1, 4, b'\xff\xff\xff\xff'),
        (('time',), 1, 1, b'\x00\x00\x00\x00\x00\x00\x00\x01'),
        (('tinyint',), 127, 1, b'\x7f'), (('tinyint',), -128, 1, b'\x80'),
        (('smallint',), 32767, 1, b'\x7f\xff'), (('smallint',), -32768, 1, b'\x80\x00'),
        (('map', T, I), [(u'みbob', 199), (u'', -1), (u'\\', 0)], 1,
         b'\x00\x03\x00\x06\xe3\x81\xbfbob\x00\x04\x00\x00\x00\xc7\x00\x00\x00\x04\xff\xff\xff\xff\x00\x01\\\x00\x04\x00\x00\x00\x00'),
        (('set', ('double',)), [2.2, 5.0], 1, b'\x00\x02\x00\x08@\x01\x99\x99\x99\x99\x99\x9a\x00\x08@\x14\x00\x00\x00\x00\x00\x00'),
        # test_collection_null_support (PYTHON-1123)
        (('list', I), [None, 42], 3, b'\x00\x00\x00\x02\xff\xff\xff\xff\x00\x00\x00\x04\x00\x00\x00\x2a'),
        (('map', I, I), [(42, None), (None, 42)], 3,
         b'\x00\x00\x00\x02' b'\x00\x00\x00\x04\x00\x00\x00\x2a' b'\xff\xff\xff\xff' b'\xff\xff\xff\xff' b'\x00\x00\x00\x04\x00\x00\x00\x2a'),
        # protocol spec: tuple = sequence of [bytes], null = -1
        (('tuple', I, T, I), (1, None, 2), 3, b'\x00\x00\x00\x04\x00\x00\x00\x01\xff\xff\xff\xff\x00\x00\x00\x04\x00\x00\x00\x02'),
        (('tuple', I, T), (7, 'ab'), 1, b'\x00\x00\x00\x04\x00\x00\x00\x07\x00\x00\x00\x02ab'),
        # a list nested in a v2 list: outer 16-bit, inner 32-bit
        (('list', ('list', I)), [[5]], 2, b'\x00\x01' b'\x00\x0c' b'\x00\x00\x00\x01\x00\x00\x00\x04\x00\x00\x00\x05'),
        (('list', ('list', I)), [[5]], 4, b'\x00\x00\x00\x01' b'\x00\x00\x00\x0c' b'\x00\x00\x00\x01\x00\x00\x00\x04\x00\x00\x00\x05'),
        # vints (native_protocol_v5.spec [vint]: zig-zag, leading ones count the extra bytes)
        (('duration',), (0, 0, 0), 5, b'\x00\x00\x00'), (('duration',), (1, 2, 3), 5, b'\x02\x04\x06'),
        (('duration',), (-1, -2, -3), 5, b'\x01\x03\x05'),
        (('duration',), (63, 64, 0), 5, b'\x7e\x80\x80\x00'),
        (('duration',), (0, 0, 86400 * 10 ** 9), 5, b'\x00\x00\xfc\x9d\x29\x22\x9e\x00\x00'),
        (('duration',), (2 ** 31 - 1, 2 ** 31 - 1, 2 ** 63 - 1), 5,
         b'\xf0\xff\xff\xff\xfe' * 2 + b'\xff\xff\xff\xff\xff\xff\xff\xff\xfe'),
        (('duration',), (-2 ** 31, -2 ** 31, -2 ** 63), 5,
         b'\xf0\xff\xff\xff\xff' * 2 + b'\xff\xff\xff\xff\xff\xff\xff\xff\xff'),
        # vectors: fixed width = concatenation; variable width = unsigned vint size + bytes
        (('vector', ('float',), 2), [1.0, -2.0], 4, b'\x3f\x80\x00\x00\xc0\x00\x00\x00'),
        (('vector', T, 2), ['ab', ''], 4, b'\x02ab\x00'),
        (('vector', T, 1), ['x' * 128], 4, b'\x80\x80' + b'x' * 128),
        (('vector', ('varint',), 2), [1, 256], 4, b'\x01\x01\x02\x01\x00'),
        (('vector', ('vector', ('int',), 2), 2), [[1, 2], [3, 4]], 4,
         b'\x00\x00\x00\x01\x00\x00\x00\x02\x00\x00\x00\x03\x00\x00\x00\x04'),
        (('frozen', ('list', I)), [1], 4, b'\x00\x00\x00\x01\x00\x00\x00\x04\x00\x00\x00\x01'),
        (('reversed', I), 1, 4, b'\x00\x00\x00\x01'),
        (('udt', 'ks', 't', (('a', I), ('b', T))), (1, None), 4, b'\x00\x00\x00\x04\x00\x00\x00\x01\xff\xff\xff\xff'),
    ]
    n = 0
    for t, v, pv, b in vec:
        got = encode(t, v, pv)
        assert got == b, ('encode', t, v, pv, got.hex(), b.hex())
        back = decode(t, b, pv)
        assert same(t, back, v), ('decode', t, b.hex(), pv, back, v)
        n += 1
    # unsigned vints
    for val, hx in [(0, '00'), (127, '7f'), (128, '8080'), (16383, 'bfff'), (16384, 'c04000'),
                    (2 ** 21 - 1, 'dfffff'), (2 ** 21, 'e0200000'), (2 ** 56 - 1, 'fe' + 'ff' * 7),
                    (2 ** 56, 'ff01' + '00' * 7), (2 ** 64 - 1, 'ff' * 9)]:
        assert uvint_encode(val).hex() == hx, (val, uvint_encode(val).hex(), hx)
        assert uvint_decode(bytes.fromhex(hx)) == (val, len(hx) // 2)
        n += 1
    for val in (0, 1, -1, 2 ** 31, -2 ** 31 - 1, 2 ** 63 - 1, -2 ** 63):
        assert unzigzag(zigzag(val)) == val
    # short UDT (field added later) pads with null
    assert decode(('udt', 'ks', 't', (('a', I), ('b', T))), b'\x00\x00\x00\x04\x00\x00\x00\x01', 4) == (1, None)
    # ranges
    for t, v in [(('tinyint',), 128), (('smallint',), -32769), (('int',), 2 ** 31), (('bigint',), 2 ** 63),
                 (('date',), 2 ** 31), (('time',), NANOS_PER_DAY), (('time',), -1), (('duration',), (2 ** 31, 0, 0)),
                 (('duration',), (0, 0, 2 ** 63)), (('ascii',), u'\xe9'), (('float',), 1e39),
                 (('vector', I, 2), [1]), (('tuple', I), (1, 2))]:
        try:
            encode(t, v, 4)
        except RefRangeError:
            n += 1
        else:
            raise AssertionError(('no range error', t, v))
    try:
        encode(('list', I), [None], 2)
    except RefUnrepresentable:
        n += 1
    else:
        raise AssertionError('null element in v2')
    # descriptors
    u = ('udt', 'ks', 'Ty', (('a', I), (u'\xe9', ('list', T))))
    assert marshal_class(u) == (PREFIX + 'UserType(ks,5479,61:' + PREFIX + 'Int32Type,c3a9:' + PREFIX + 'ListType(' + PREFIX + 'UTF8Type))')
    assert cql_name(('map', T, ('frozen', ('list', I)))) == 'map<text, frozen<list<int>>>'
    assert cql_name(('frozen', u)) == 'frozen<"Ty">'
    assert cql_name(('map', T, ('frozen', ('list', I))), keep_frozen=False) == 'map<text, list<int>>'
    assert cql_name(('vector', ('float',), 3)) == 'vector<float, 3>'
    assert inet_format(bytes(15) + b'\x01') == '::1' and inet_format(bytes(10) + b'\xff\xff\x01\x02\x03\x04') == '::ffff:1.2.3.4'
    return n


if __name__ == '__main__':
    print('values.selftest: %d vectors ok' % selftest())
