"""Independent reference for the CQL native protocol framing (v1-v5, v6 = v5 layout, DSE_V1/DSE_V2).

Written from the native_protocol_v{1..5}.spec documents (and, for the two DSE dialects, from
DataStax's published notes on them); shares no code with the driver and imports only the stdlib.

Two halves:

* ``parse_request(frame_bytes, decompress=None) -> dict``: a *strict* reader for what a client may
  send: header layout per version, length == body length, no trailing bytes, only the flag bits
  and fields the version defines.  Anything else raises ``SpecError``.
* ``build_response(version, desc, ...) -> bytes``: produces a complete response frame (header +
  optional tracing id / warnings / custom payload + body) from a plain-dict description, for
  every response opcode.  ``build_body`` gives just the message body.

Version differences that matter here

  header        v1,v2: version flags stream(int8) opcode length   (8 bytes)
                v3+  : version flags stream(int16) opcode length  (9 bytes)
  frame flags   0x01 compression (body compressed; not used on v5+ where the outer segment layer
                compresses), 0x02 tracing, 0x04 custom payload (v4+), 0x08 warning (v4+, responses),
                0x10 use-beta (v5+; on older versions the bit is "unused and ignored")
  QUERY         v1: <query><consistency>; v2+: <query><consistency><flags>...; flags are one
                byte up to v4 and an [int] on v5+/DSE
  EXECUTE       v1: <id><n><values><consistency>; v2+: <id>[<result_metadata_id> v5/DSE2]<params>
  BATCH         v2: ...<consistency>; v3+: ...<consistency><flags>[serial][timestamp][keyspace]
  PREPARE       v5/DSE2: <query><flags:int>[<keyspace>]
  values        [bytes] with n=-1 null; n=-2 "not set" from v4
  ERROR         read/write failure carry <numfailures:int> on v4 and a reason map on v5+/DSE
  RESULT        prepared: pk indexes from v4, result_metadata_id on v5/DSE2; rows: new_metadata_id
                flag 0x0008 on v5/DSE2
  EVENT/schema  v1,v2: <change><keyspace><table>; v3+: <change><target><options>

DSE dialects (0x41, 0x42), as far as the public notes pin them down:
  DSE_V1 = v4 + [int] query/batch flags + continuous paging options on QUERY/EXECUTE
           (flag 0x80000000: <max_pages:int><pages_per_second:int>; flag 0x40000000: page size is
           in bytes) + failure reason maps + REVISE_REQUEST (opcode 0xFF) with revision type 1
           (cancel) + continuous paging result flags.
  DSE_V2 = DSE_V1 + per-request keyspace (QUERY/BATCH flag 0x80, PREPARE flags) + result metadata
           ids + <next_pages:int> after pages_per_second + REVISE_REQUEST type 2 (<next_pages>).
"""
import socket
import struct
import uuid as _uuid

V1, V2, V3, V4, V5, V6 = 1, 2, 3, 4, 5, 6
DSE_V1, DSE_V2 = 0x41, 0x42
VERSIONS = (V1, V2, V3, V4, V5, V6, DSE_V1, DSE_V2)


class SpecError(Exception):
    """The bytes (or the description to build) do not conform to the specification."""


# ----------------------------------------------------------------------------- version predicates
def is_dse(v):
    return v in (DSE_V1, DSE_V2)


def header_len(v):
    return 8 if v in (V1, V2) else 9


def max_stream(v):
    return 127 if v in (V1, V2) else 32767


def int_query_flags(v):
    return v in (V5, V6, DSE_V1, DSE_V2)


def carries_keyspace(v):
    return v in (V5, V6, DSE_V2)


def prepare_has_flags(v):
    return v in (V5, V6, DSE_V2)


def has_metadata_id(v):
    return v in (V5, V6, DSE_V2)


def carries_payload(v):
    return v >= V4


def carries_unset(v):
    return v >= V4


def carries_timestamp(v):
    return v >= V3


def carries_paging(v):
    return v >= V2


def carries_continuous_paging(v):
    return is_dse(v)


def carries_next_pages(v):
    return v == DSE_V2


def carries_now_in_seconds(v):
    return v in (V5, V6)


def failure_reason_map(v):
    return v in (V5, V6, DSE_V1, DSE_V2)


def segment_layer(v):
    """v5+ of the open protocol compress/checksum in an outer framing layer, not per frame."""
    return v in (V5, V6)


def collection_short_lengths(v):
    return v in (V1, V2)


# ----------------------------------------------------------------------------- constants
REQ_OPCODES = {0x01: 'STARTUP', 0x04: 'CREDENTIALS', 0x05: 'OPTIONS', 0x07: 'QUERY', 0x09: 'PREPARE',
               0x0A: 'EXECUTE', 0x0B: 'REGISTER', 0x0D: 'BATCH', 0x0F: 'AUTH_RESPONSE', 0xFF: 'REVISE_REQUEST'}
RESP_OPCODES = {'ERROR': 0x00, 'READY': 0x02, 'AUTHENTICATE': 0x03, 'SUPPORTED': 0x06, 'RESULT': 0x08,
                'EVENT': 0x0C, 'AUTH_CHALLENGE': 0x0E, 'AUTH_SUCCESS': 0x10}

F_COMPRESS, F_TRACING, F_PAYLOAD, F_WARNING, F_BETA = 0x01, 0x02, 0x04, 0x08, 0x10

Q_VALUES, Q_SKIP_METADATA, Q_PAGE_SIZE, Q_PAGING_STATE, Q_SERIAL, Q_TIMESTAMP, Q_NAMES, Q_KEYSPACE = \
    0x01, 0x02, 0x04, 0x08, 0x10, 0x20, 0x40, 0x80
Q_NOW_IN_SECONDS = 0x100
Q_PAGE_SIZE_BYTES = 0x40000000
Q_CONTINUOUS = 0x80000000

CONSISTENCIES = {0: 'ANY', 1: 'ONE', 2: 'TWO', 3: 'THREE', 4: 'QUORUM', 5: 'ALL', 6: 'LOCAL_QUORUM',
                 7: 'EACH_QUORUM', 8: 'SERIAL', 9: 'LOCAL_SERIAL', 10: 'LOCAL_ONE'}
SERIAL_CLS = (8, 9)
EVENT_TYPES = ('TOPOLOGY_CHANGE', 'STATUS_CHANGE', 'SCHEMA_CHANGE')
UNSET = ('unset',)      # marker for a "not set" bound value (length -2)

ERR = {
    'SERVER_ERROR': 0x0000, 'PROTOCOL_ERROR': 0x000A, 'AUTH_ERROR': 0x0100, 'UNAVAILABLE': 0x1000,
    'OVERLOADED': 0x1001, 'IS_BOOTSTRAPPING': 0x1002, 'TRUNCATE_ERROR': 0x1003, 'WRITE_TIMEOUT': 0x1100,
    'READ_TIMEOUT': 0x1200, 'READ_FAILURE': 0x1300, 'FUNCTION_FAILURE': 0x1400, 'WRITE_FAILURE': 0x1500,
    'CDC_WRITE_FAILURE': 0x1600, 'CAS_WRITE_UNKNOWN': 0x1700, 'SYNTAX_ERROR': 0x2000, 'UNAUTHORIZED': 0x2100,
    'INVALID': 0x2200, 'CONFIG_ERROR': 0x2300, 'ALREADY_EXISTS': 0x2400, 'UNPREPARED': 0x2500,
    'CLIENT_WRITE_FAILURE': 0x8000,     # DSE
}
WRITE_TYPES = ('SIMPLE', 'BATCH', 'UNLOGGED_BATCH', 'COUNTER', 'BATCH_LOG', 'CAS', 'VIEW', 'CDC')

TYPE_CODES = {
    'custom': 0x0000, 'ascii': 0x0001, 'bigint': 0x0002, 'blob': 0x0003, 'boolean': 0x0004, 'counter': 0x0005,
    'decimal': 0x0006, 'double': 0x0007, 'float': 0x0008, 'int': 0x0009, 'text': 0x000A, 'timestamp': 0x000B,
    'uuid': 0x000C, 'varchar': 0x000D, 'varint': 0x000E, 'timeuuid': 0x000F, 'inet': 0x0010, 'date': 0x0011,
    'time': 0x0012, 'smallint': 0x0013, 'tinyint': 0x0014, 'duration': 0x0015, 'list': 0x0020, 'map': 0x0021,
    'set': 0x0022, 'udt': 0x0030, 'tuple': 0x0031,
}
# first protocol version in which a type code exists (0x000A "text" exists only in v1/v2)
TYPE_MIN_VERSION = {'date': 4, 'time': 4, 'smallint': 4, 'tinyint': 4, 'duration': 5, 'udt': 3, 'tuple': 3}

R_GLOBAL_SPEC, R_HAS_MORE_PAGES, R_NO_METADATA, R_METADATA_CHANGED = 0x0001, 0x0002, 0x0004, 0x0008
R_CONTINUOUS, R_CONTINUOUS_LAST = 0x40000000, 0x80000000


def type_allowed(name, v):
    if name == 'text':
        return v in (V1, V2)
    if name == 'duration':
        return v in (V5, V6, DSE_V1, DSE_V2)
    return v >= TYPE_MIN_VERSION.get(name, 1)


# ----------------------------------------------------------------------------- primitive writers
def w_byte(n):
    if not 0 <= n <= 0xFF:
        raise SpecError('byte out of range: %r' % (n,))
    return struct.pack('>B', n)


def w_short(n):
    if not 0 <= n <= 0xFFFF:
        raise SpecError('short out of range: %r' % (n,))
    return struct.pack('>H', n)


def w_int(n):
    if not -2 ** 31 <= n < 2 ** 31:
        raise SpecError('int out of range: %r' % (n,))
    return struct.pack('>i', n)


def w_uint(n):
    if not 0 <= n < 2 ** 32:
        raise SpecError('unsigned int out of range: %r' % (n,))
    return struct.pack('>I', n)


def w_long(n):
    if not -2 ** 63 <= n < 2 ** 63:
        raise SpecError('long out of range: %r' % (n,))
    return struct.pack('>q', n)


def w_string(s):
    b = s.encode('utf-8') if isinstance(s, str) else bytes(s)
    return w_short(len(b)) + b


def w_long_string(s):
    b = s.encode('utf-8') if isinstance(s, str) else bytes(s)
    return w_int(len(b)) + b


def w_bytes(b):
    """[bytes]: None is the null value (length -1)."""
    if b is None:
        return w_int(-1)
    return w_int(len(b)) + bytes(b)


def w_short_bytes(b):
    return w_short(len(b)) + bytes(b)


def w_string_list(lst):
    return w_short(len(lst)) + b''.join(w_string(s) for s in lst)


def w_string_map(m):
    return w_short(len(m)) + b''.join(w_string(k) + w_string(v) for k, v in m.items())


def w_string_multimap(m):
    return w_short(len(m)) + b''.join(w_string(k) + w_string_list(v) for k, v in m.items())


def w_bytes_map(m):
    return w_short(len(m)) + b''.join(w_string(k) + w_bytes(v) for k, v in m.items())


def w_inetaddr(addr):
    """[inetaddr]: one byte size (4 or 16) + raw address."""
    raw = socket.inet_pton(socket.AF_INET6 if ':' in addr else socket.AF_INET, addr)
    return w_byte(len(raw)) + raw


def w_inet(addr, port):
    return w_inetaddr(addr) + w_int(port)


def w_uuid(u):
    if isinstance(u, _uuid.UUID):
        return u.bytes
    if isinstance(u, (bytes, bytearray)) and len(u) == 16:
        return bytes(u)
    return _uuid.UUID(u).bytes


def w_consistency(c):
    if c not in CONSISTENCIES:
        raise SpecError('unknown consistency %r' % (c,))
    return w_short(c)


# ----------------------------------------------------------------------------- reader
class Reader(object):
    def __init__(self, data):
        self.d = bytes(data)
        self.p = 0

    def take(self, n):
        if n < 0 or self.p + n > len(self.d):
            raise SpecError('body too short: need %d bytes at offset %d of %d' % (n, self.p, len(self.d)))
        b = self.d[self.p:self.p + n]
        self.p += n
        return b

    def remaining(self):
        return len(self.d) - self.p

    def byte(self):
        return self.take(1)[0]

    def short(self):
        return struct.unpack('>H', self.take(2))[0]

    def int(self):
        return struct.unpack('>i', self.take(4))[0]

    def uint(self):
        return struct.unpack('>I', self.take(4))[0]

    def long(self):
        return struct.unpack('>q', self.take(8))[0]

    def string(self):
        b = self.take(self.short())
        try:
            return b.decode('utf-8')
        except UnicodeDecodeError:
            raise SpecError('[string] is not UTF-8: %r' % (b,))

    def long_string(self):
        n = self.int()
        if n < 0:
            raise SpecError('[long string] with negative length %d' % n)
        b = self.take(n)
        try:
            return b.decode('utf-8')
        except UnicodeDecodeError:
            raise SpecError('[long string] is not UTF-8')

    def bytes_(self):
        n = self.int()
        if n < 0:
            if n != -1:
                raise SpecError('[bytes] with length %d' % n)
            return None
        return self.take(n)

    def value(self, version):
        """[value]: like [bytes] plus -2 = not set (v4+)."""
        n = self.int()
        if n == -1:
            return None
        if n == -2:
            if not carries_unset(version):
                raise SpecError('"not set" value (length -2) does not exist in protocol version %d' % version)
            return UNSET
        if n < 0:
            raise SpecError('[value] with length %d' % n)
        return self.take(n)

    def short_bytes(self):
        return self.take(self.short())

    def string_list(self):
        return [self.string() for _ in range(self.short())]

    def string_map(self):
        out = {}
        for _ in range(self.short()):
            k = self.string()
            if k in out:
                raise SpecError('duplicate key %r in [string map]' % k)
            out[k] = self.string()
        return out

    def string_multimap(self):
        out = {}
        for _ in range(self.short()):
            k = self.string()
            out[k] = self.string_list()
        return out

    def bytes_map(self):
        out = {}
        for _ in range(self.short()):
            k = self.string()
            if k in out:
                raise SpecError('duplicate key %r in [bytes map]' % k)
            out[k] = self.bytes_()
        return out

    def inetaddr(self):
        n = self.byte()
        if n not in (4, 16):
            raise SpecError('[inetaddr] of size %d' % n)
        raw = self.take(n)
        return socket.inet_ntop(socket.AF_INET if n == 4 else socket.AF_INET6, raw)

    def inet(self):
        a = self.inetaddr()
        return (a, self.int())

    def consistency(self):
        c = self.short()
        if c not in CONSISTENCIES:
            raise SpecError('unknown consistency level 0x%04x' % c)
        return c

    def end(self, what):
        if self.p != len(self.d):
            raise SpecError('%d trailing byte(s) after %s: %r' % (len(self.d) - self.p, what, self.d[self.p:self.p + 16]))


# ----------------------------------------------------------------------------- request parser
def split_header(frame):
    """Return (version, is_response, flags, stream, opcode, length, body_offset) of a frame."""
    frame = bytes(frame)
    if len(frame) < 1:
        raise SpecError('empty frame')
    vb = frame[0]
    version = vb & 0x7F
    if version not in VERSIONS:
        raise SpecError('unknown protocol version byte 0x%02x' % vb)
    hl = header_len(version)
    if len(frame) < hl:
        raise SpecError('frame shorter than its %d-byte header' % hl)
    if hl == 8:
        flags, stream, opcode, length = struct.unpack('>BbBi', frame[1:8])
    else:
        flags, stream, opcode, length = struct.unpack('>BhBi', frame[1:9])
    return version, bool(vb & 0x80), flags, stream, opcode, length, hl


def parse_request(frame, decompress=None):
    """Strictly parse one request frame; returns a dict of everything it carries.

    Common keys: version, stream, opcode (name), tracing, beta, compressed, payload (dict|None),
    body_len (declared = actual length of the on-wire body).  Message keys per opcode, e.g.
    QUERY: query, consistency, flags, values (None | list of bytes|None|UNSET), names (None|list),
    skip_metadata, page_size, page_size_in_bytes, paging_state, serial_consistency, timestamp,
    keyspace, now_in_seconds, continuous (None | dict(max_pages, pages_per_second[, next_pages])).
    Absent optional fields are None (False for booleans).
    """
    version, is_resp, flags, stream, opcode, length, hl = split_header(frame)
    if is_resp:
        raise SpecError('direction bit says response')
    body = bytes(frame[hl:])
    if length < 0:
        raise SpecError('negative body length %d' % length)
    if length != len(body):
        raise SpecError('header length %d != body length %d' % (length, len(body)))
    if stream < 0:
        raise SpecError('negative stream id %d in a request' % stream)
    name = REQ_OPCODES.get(opcode)
    if name is None:
        raise SpecError('opcode 0x%02x is not a request' % opcode)
    known = F_COMPRESS | F_TRACING | F_BETA | (F_PAYLOAD if carries_payload(version) else 0)
    if flags & ~known:
        raise SpecError('frame flag bits 0x%02x not defined for a request of protocol version %d' % (flags & ~known, version))
    out = {'version': version, 'stream': stream, 'opcode': name, 'flags_byte': flags, 'body_len': length,
           'tracing': bool(flags & F_TRACING), 'beta': bool(flags & F_BETA),
           'compressed': bool(flags & F_COMPRESS), 'payload': None}
    if flags & F_COMPRESS:
        if segment_layer(version):
            raise SpecError('compression flag on a v%d frame (compression belongs to the segment layer)' % version)
        if name == 'STARTUP':
            raise SpecError('STARTUP must not be compressed')
        if decompress is None:
            raise SpecError('compressed frame but no decompressor given')
        if not body:
            raise SpecError('compression flag on an empty body')
        body = decompress(body)
    r = Reader(body)
    if flags & F_PAYLOAD:
        out['payload'] = r.bytes_map()
    # opcode availability
    if name == 'CREDENTIALS' and version != V1:
        raise SpecError('CREDENTIALS exists only in protocol version 1')
    if name in ('AUTH_RESPONSE', 'BATCH') and version == V1:
        raise SpecError('%s does not exist in protocol version 1' % name)
    if name == 'REVISE_REQUEST' and not is_dse(version):
        raise SpecError('REVISE_REQUEST exists only in the DSE dialects')
    _REQ_PARSERS[name](r, version, out)
    r.end('%s body' % name)
    return out


def _p_startup(r, v, out):
    opts = r.string_map()
    if 'CQL_VERSION' not in opts:
        raise SpecError('STARTUP without the mandatory CQL_VERSION option')
    out['options'] = opts


def _p_credentials(r, v, out):
    out['credentials'] = r.string_map()


def _p_options(r, v, out):
    pass


def _p_auth_response(r, v, out):
    out['token'] = r.bytes_()


def _p_register(r, v, out):
    ev = r.string_list()
    for e in ev:
        if e not in EVENT_TYPES:
            raise SpecError('REGISTER for unknown event type %r' % e)
    out['events'] = ev


def _query_flag_mask(v, batch=False):
    if batch:
        m = Q_SERIAL | Q_TIMESTAMP        # 0x40 (names) is documented as unusable for BATCH
    else:
        m = Q_VALUES | Q_SKIP_METADATA | Q_PAGE_SIZE | Q_PAGING_STATE | Q_SERIAL
        if carries_timestamp(v):
            m |= Q_TIMESTAMP | Q_NAMES
        if carries_continuous_paging(v):
            m |= Q_PAGE_SIZE_BYTES | Q_CONTINUOUS
    if carries_keyspace(v):
        m |= Q_KEYSPACE
    if carries_now_in_seconds(v):
        m |= Q_NOW_IN_SECONDS
    return m


def _p_values(r, v, named):
    n = r.short()
    names = [] if named else None
    vals = []
    for _ in range(n):
        if named:
            names.append(r.string())
        vals.append(r.value(v))
    return vals, names


def _p_query_params(r, v, out):
    """<consistency><flags>[<n>[name_1]<value_1>...][<result_page_size>][<paging_state>]
    [<serial_consistency>][<timestamp>][<keyspace>][<now_in_seconds>] + DSE continuous options."""
    out['consistency'] = r.consistency()
    flags = r.uint() if int_query_flags(v) else r.byte()
    bad = flags & ~_query_flag_mask(v)
    if bad:
        raise SpecError('query flag bits 0x%x not defined in protocol version %d' % (bad, v))
    out['flags'] = flags
    out.update(values=None, names=None, skip_metadata=bool(flags & Q_SKIP_METADATA), page_size=None,
               page_size_in_bytes=bool(flags & Q_PAGE_SIZE_BYTES), paging_state=None,
               serial_consistency=None, timestamp=None, keyspace=None, now_in_seconds=None, continuous=None)
    if flags & Q_NAMES and not flags & Q_VALUES:
        raise SpecError('names-for-values flag without the values flag')
    if flags & Q_VALUES:
        out['values'], out['names'] = _p_values(r, v, bool(flags & Q_NAMES))
    if flags & Q_PAGE_SIZE:
        out['page_size'] = r.int()
    elif flags & Q_PAGE_SIZE_BYTES:
        raise SpecError('page-size-in-bytes flag without a page size')
    if flags & Q_PAGING_STATE:
        ps = r.bytes_()
        if ps is None:
            raise SpecError('null paging state')
        out['paging_state'] = ps
    if flags & Q_SERIAL:
        c = r.consistency()
        if c not in SERIAL_CLS:
            raise SpecError('serial consistency must be SERIAL or LOCAL_SERIAL, got %s' % CONSISTENCIES[c])
        out['serial_consistency'] = c
    if flags & Q_TIMESTAMP:
        out['timestamp'] = r.long()
    if flags & Q_KEYSPACE:
        out['keyspace'] = r.string()
    if flags & Q_NOW_IN_SECONDS:
        out['now_in_seconds'] = r.int()
    if flags & Q_CONTINUOUS:
        c = {'max_pages': r.int(), 'pages_per_second': r.int()}
        if carries_next_pages(v):
            c['next_pages'] = r.int()
        out['continuous'] = c


def _p_query(r, v, out):
    out['query'] = r.long_string()
    if v == V1:
        out['consistency'] = r.consistency()
        out.update(flags=None, values=None, names=None, skip_metadata=False, page_size=None,
                   page_size_in_bytes=False, paging_state=None, serial_consistency=None, timestamp=None,
                   keyspace=None, now_in_seconds=None, continuous=None)
        return
    _p_query_params(r, v, out)


def _p_prepare(r, v, out):
    out['query'] = r.long_string()
    out['keyspace'] = None
    out['flags'] = None
    if prepare_has_flags(v):
        flags = r.uint()
        if flags & ~0x01:
            raise SpecError('PREPARE flag bits 0x%x not defined' % (flags & ~0x01))
        out['flags'] = flags
        if flags & 0x01:
            out['keyspace'] = r.string()


def _p_execute(r, v, out):
    out['query_id'] = r.short_bytes()
    out['result_metadata_id'] = r.short_bytes() if has_metadata_id(v) else None
    if v == V1:
        vals, _ = _p_values(r, v, False)
        out.update(flags=None, values=vals, names=None, skip_metadata=False, page_size=None,
                   page_size_in_bytes=False, paging_state=None, serial_consistency=None, timestamp=None,
                   keyspace=None, now_in_seconds=None, continuous=None)
        out['consistency'] = r.consistency()
        return
    _p_query_params(r, v, out)


def _p_batch(r, v, out):
    t = r.byte()
    if t not in (0, 1, 2):
        raise SpecError('batch type %d' % t)
    out['batch_type'] = t
    qs = []
    for _ in range(r.short()):
        kind = r.byte()
        if kind == 0:
            q = {'prepared': False, 'query': r.long_string()}
        elif kind == 1:
            q = {'prepared': True, 'query_id': r.short_bytes()}
        else:
            raise SpecError('batch query kind %d' % kind)
        q['values'], _ = _p_values(r, v, False)
        qs.append(q)
    out['queries'] = qs
    out['consistency'] = r.consistency()
    out.update(flags=None, serial_consistency=None, timestamp=None, keyspace=None, now_in_seconds=None)
    if v >= V3:
        flags = r.uint() if int_query_flags(v) else r.byte()
        bad = flags & ~_query_flag_mask(v, batch=True)
        if bad:
            raise SpecError('batch flag bits 0x%x not defined in protocol version %d' % (bad, v))
        out['flags'] = flags
        if flags & Q_SERIAL:
            c = r.consistency()
            if c not in SERIAL_CLS:
                raise SpecError('serial consistency must be SERIAL or LOCAL_SERIAL, got %s' % CONSISTENCIES[c])
            out['serial_consistency'] = c
        if flags & Q_TIMESTAMP:
            out['timestamp'] = r.long()
        if flags & Q_KEYSPACE:
            out['keyspace'] = r.string()
        if flags & Q_NOW_IN_SECONDS:
            out['now_in_seconds'] = r.int()


def _p_revise(r, v, out):
    t = r.int()
    out['revision_type'] = t
    out['target_stream'] = r.int()
    out['next_pages'] = None
    if t == 1:
        pass
    elif t == 2:
        if not carries_next_pages(v):
            raise SpecError('REVISE_REQUEST type 2 (more pages) needs DSE_V2')
        n = r.int()
        if n <= 0:
            raise SpecError('REVISE_REQUEST next_pages %d' % n)
        out['next_pages'] = n
    else:
        raise SpecError('REVISE_REQUEST revision type %d' % t)


_REQ_PARSERS = {'STARTUP': _p_startup, 'CREDENTIALS': _p_credentials, 'OPTIONS': _p_options,
                'AUTH_RESPONSE': _p_auth_response, 'REGISTER': _p_register, 'QUERY': _p_query,
                'PREPARE': _p_prepare, 'EXECUTE': _p_execute, 'BATCH': _p_batch, 'REVISE_REQUEST': _p_revise}


# ----------------------------------------------------------------------------- minimal value codec
def enc_value(t, val, v):
    """Encode `val` of type tree `t` (see enc_type) as the *content* of a [bytes] cell.
    Only the handful of types the frame-level checks need."""
    name = t if isinstance(t, str) else t[0]
    if name == 'int':
        return struct.pack('>i', val)
    if name in ('bigint', 'counter'):
        return struct.pack('>q', val)
    if name == 'smallint':
        return struct.pack('>h', val)
    if name == 'tinyint':
        return struct.pack('>b', val)
    if name == 'boolean':
        return b'\x01' if val else b'\x00'
    if name in ('text', 'varchar', 'ascii'):
        return val.encode('utf-8')
    if name == 'blob':
        return bytes(val)
    if name == 'double':
        return struct.pack('>d', val)
    if name == 'float':
        return struct.pack('>f', val)
    if name == 'uuid' or name == 'timeuuid':
        return w_uuid(val)
    if name == 'custom':
        return bytes(val)
    short = collection_short_lengths(v)

    def cell(tt, x):
        if x is None:
            if short:
                raise SpecError('null collection element not expressible with 16-bit lengths')
            return w_int(-1)
        b = enc_value(tt, x, v)
        return (w_short(len(b)) if short else w_int(len(b))) + b
    if name in ('list', 'set'):
        items = list(val)
        return (w_short(len(items)) if short else w_int(len(items))) + b''.join(cell(t[1], x) for x in items)
    if name == 'map':
        items = list(val.items()) if isinstance(val, dict) else list(val)
        return (w_short(len(items)) if short else w_int(len(items))) + \
            b''.join(cell(t[1], k) + cell(t[2], x) for k, x in items)
    if name == 'tuple':
        return b''.join(w_bytes(None if x is None else enc_value(tt, x, v)) for tt, x in zip(t[1], val))
    if name == 'udt':
        return b''.join(w_bytes(None if x is None else enc_value(ft, x, v)) for (fn, ft), x in zip(t[3], val))
    raise SpecError('enc_value: type %r not supported by this minimal codec' % (t,))


def enc_type(t, v):
    """[option] for a column type.  t is a name ('int') or a tree:
    ('list', t) ('set', t) ('map', k, v) ('tuple', [t..]) ('udt', ks, name, [(field, t)..])
    ('custom', 'java.class.Name')."""
    name = t if isinstance(t, str) else t[0]
    if name not in TYPE_CODES:
        raise SpecError('unknown type %r' % (name,))
    if not type_allowed(name, v):
        raise SpecError('type %s does not exist in protocol version %d' % (name, v))
    out = w_short(TYPE_CODES[name])
    if name == 'custom':
        return out + w_string(t[1])
    if name in ('list', 'set'):
        return out + enc_type(t[1], v)
    if name == 'map':
        return out + enc_type(t[1], v) + enc_type(t[2], v)
    if name == 'tuple':
        return out + w_short(len(t[1])) + b''.join(enc_type(x, v) for x in t[1])
    if name == 'udt':
        return out + w_string(t[1]) + w_string(t[2]) + w_short(len(t[3])) + \
            b''.join(w_string(fn) + enc_type(ft, v) for fn, ft in t[3])
    return out


# ----------------------------------------------------------------------------- response bodies
def _col_specs(cols, global_spec, v):
    """cols: list of (keyspace, table, name, type).  With global_spec the first column's
    keyspace/table are written once (all columns must agree)."""
    out = b''
    if global_spec:
        if not cols:
            raise SpecError('global table spec needs a keyspace/table; give global_spec=(ks, table) for 0 columns')
        ks, tb = cols[0][0], cols[0][1]
        if any((c[0], c[1]) != (ks, tb) for c in cols):
            raise SpecError('global table spec with columns of different tables')
        out += w_string(ks) + w_string(tb)
    for ks, tb, nm, t in cols:
        if not global_spec:
            out += w_string(ks) + w_string(tb)
        out += w_string(nm) + enc_type(t, v)
    return out


def rows_metadata(v, cols, global_spec=False, paging_state=None, no_metadata=False, new_metadata_id=None,
                  continuous=None, global_names=None, column_count=None):
    """<flags><columns_count>[<paging_state>][<continuous page no> DSE][<new_metadata_id>]
    [<global_table_spec>?<col_spec_1>...<col_spec_n>]

    continuous = (seq_no, is_last) adds the DSE continuous-paging flags (DSE dialects only).
    global_names = (ks, table) lets a global spec be written for zero columns."""
    flags = 0
    if global_spec and not no_metadata:
        flags |= R_GLOBAL_SPEC
    if paging_state is not None:
        if not carries_paging(v):
            raise SpecError('paging does not exist in protocol version 1')
        flags |= R_HAS_MORE_PAGES
    if no_metadata:
        if v == V1:
            raise SpecError('no_metadata does not exist in protocol version 1')
        flags |= R_NO_METADATA
    if new_metadata_id is not None:
        if not has_metadata_id(v):
            raise SpecError('metadata ids do not exist in protocol version %d' % v)
        if no_metadata:
            raise SpecError('metadata_changed requires no_metadata to be unset')
        flags |= R_METADATA_CHANGED
    if continuous is not None:
        if not is_dse(v):
            raise SpecError('continuous paging is DSE only')
        flags |= R_CONTINUOUS
        if continuous[1]:
            flags |= R_CONTINUOUS_LAST
    n = len(cols) if column_count is None else column_count
    out = w_uint(flags) + w_int(n)
    if paging_state is not None:
        out += w_bytes(paging_state)
    if continuous is not None:
        out += w_int(continuous[0])
    if new_metadata_id is not None:
        out += w_short_bytes(new_metadata_id)
    if not no_metadata:
        if global_spec and not cols:
            if not global_names:
                raise SpecError('global spec for zero columns needs global_names')
            out += w_string(global_names[0]) + w_string(global_names[1])
        else:
            out += _col_specs(cols, global_spec, v)
    return out


def body_result_void():
    return w_int(1)


def body_result_rows(v, cols, rows, encoded=False, **meta):
    """rows: list of rows, each a list of python values (None = null) matching cols, or with
    encoded=True a list of already encoded cells (bytes|None)."""
    out = w_int(2) + rows_metadata(v, cols, **meta) + w_int(len(rows))
    for row in rows:
        if len(row) != (len(cols) if meta.get('column_count') is None else meta['column_count']):
            raise SpecError('row width %d != column count' % len(row))
        for (ks, tb, nm, t), x in zip(cols, row):
            if encoded or x is None:
                out += w_bytes(x)
            else:
                out += w_bytes(enc_value(t, x, v))
    return out


def body_result_set_keyspace(ks):
    return w_int(3) + w_string(ks)


def body_result_prepared(v, query_id, bind_cols, bind_global=False, pk_indexes=None, result_metadata_id=None,
                         result_cols=(), result_meta=None, bind_global_names=None):
    """v1: <id><metadata>; v2,v3: <id><metadata><result_metadata>; v4 adds <pk_count><pk_index..>
    inside <metadata>; v5/DSE2: <id><result_metadata_id><metadata><result_metadata>."""
    out = w_int(4) + w_short_bytes(query_id)
    if has_metadata_id(v):
        if result_metadata_id is None:
            raise SpecError('protocol version %d needs a result_metadata_id' % v)
        out += w_short_bytes(result_metadata_id)
    elif result_metadata_id is not None:
        raise SpecError('result_metadata_id does not exist in protocol version %d' % v)
    flags = R_GLOBAL_SPEC if bind_global else 0
    out += w_uint(flags) + w_int(len(bind_cols))
    if v >= V4:
        pk = list(pk_indexes or ())
        out += w_int(len(pk)) + b''.join(w_short(i) for i in pk)
    elif pk_indexes:
        raise SpecError('pk indexes do not exist before protocol version 4')
    if bind_global and not bind_cols:
        out += w_string(bind_global_names[0]) + w_string(bind_global_names[1])
    else:
        out += _col_specs(list(bind_cols), bind_global, v)
    if v >= V2:
        out += rows_metadata(v, list(result_cols), **(result_meta or {}))
    elif result_cols:
        raise SpecError('protocol version 1 PREPARED carries no result metadata')
    return out


def schema_change_body(v, ch):
    """ch: dict(change_type, target, keyspace[, name][, arg_types]).
    v1/v2: <change><keyspace><table> (table '' for a keyspace change; only KEYSPACE/TABLE targets);
    v3+: <change><target><keyspace>[<name>[<arg types>]]."""
    ct, target, ks = ch['change_type'], ch['target'], ch['keyspace']
    if ct not in ('CREATED', 'UPDATED', 'DROPPED'):
        raise SpecError('schema change type %r' % ct)
    if v in (V1, V2):
        if target == 'KEYSPACE':
            return w_string(ct) + w_string(ks) + w_string('')
        if target == 'TABLE':
            return w_string(ct) + w_string(ks) + w_string(ch['name'])
        raise SpecError('schema change target %s not expressible in protocol version %d' % (target, v))
    out = w_string(ct) + w_string(target) + w_string(ks)
    if target == 'KEYSPACE':
        return out
    if target in ('TABLE', 'TYPE'):
        return out + w_string(ch['name'])
    if target in ('FUNCTION', 'AGGREGATE'):
        if v < V4:
            raise SpecError('%s schema changes exist from protocol version 4' % target)
        return out + w_string(ch['name']) + w_string_list(ch['arg_types'])
    raise SpecError('schema change target %r' % target)


def body_result_schema_change(v, ch):
    return w_int(5) + schema_change_body(v, ch)


def body_event(v, ev):
    """ev: dict(event_type=..., ...): TOPOLOGY_CHANGE/STATUS_CHANGE: change_type, address, port;
    SCHEMA_CHANGE: as schema_change_body."""
    et = ev['event_type']
    if et == 'TOPOLOGY_CHANGE':
        if ev['change_type'] not in ('NEW_NODE', 'REMOVED_NODE', 'MOVED_NODE'):
            raise SpecError('topology change %r' % ev['change_type'])
        return w_string(et) + w_string(ev['change_type']) + w_inet(ev['address'], ev['port'])
    if et == 'STATUS_CHANGE':
        if ev['change_type'] not in ('UP', 'DOWN'):
            raise SpecError('status change %r' % ev['change_type'])
        return w_string(et) + w_string(ev['change_type']) + w_inet(ev['address'], ev['port'])
    if et == 'SCHEMA_CHANGE':
        return w_string(et) + schema_change_body(v, ev)
    raise SpecError('event type %r' % et)


def body_error(v, code, message, **f):
    """code: number or name from ERR.  Code-specific fields:
    UNAVAILABLE cl required alive | WRITE_TIMEOUT cl received blockfor write_type [contentions v5 CAS]
    READ_TIMEOUT cl received blockfor data_present | READ_FAILURE cl received blockfor
    (numfailures | reasons={addr: code}) data_present | WRITE_FAILURE ... write_type |
    FUNCTION_FAILURE keyspace function arg_types | ALREADY_EXISTS keyspace table |
    UNPREPARED query_id | CAS_WRITE_UNKNOWN cl received blockfor."""
    if isinstance(code, str):
        code = ERR[code]
    out = w_int(code) + w_string(message)

    def failures():
        if failure_reason_map(v):
            reasons = f['reasons']
            return w_int(len(reasons)) + b''.join(w_inetaddr(a) + w_short(c) for a, c in reasons.items())
        return w_int(f['numfailures'])
    if code == ERR['UNAVAILABLE']:
        out += w_consistency(f['cl']) + w_int(f['required']) + w_int(f['alive'])
    elif code == ERR['WRITE_TIMEOUT']:
        if f['write_type'] not in WRITE_TYPES:
            raise SpecError('write type %r' % f['write_type'])
        out += w_consistency(f['cl']) + w_int(f['received']) + w_int(f['blockfor']) + w_string(f['write_type'])
        if f.get('contentions') is not None:
            if v not in (V5, V6) or f['write_type'] != 'CAS':
                raise SpecError('<contentions> exists only on v5 for write type CAS')
            out += w_short(f['contentions'])
    elif code == ERR['READ_TIMEOUT']:
        out += w_consistency(f['cl']) + w_int(f['received']) + w_int(f['blockfor']) + w_byte(1 if f['data_present'] else 0)
    elif code == ERR['READ_FAILURE']:
        if v < V4:
            raise SpecError('READ_FAILURE exists from protocol version 4')
        out += w_consistency(f['cl']) + w_int(f['received']) + w_int(f['blockfor']) + failures() + \
            w_byte(1 if f['data_present'] else 0)
    elif code == ERR['WRITE_FAILURE']:
        if v < V4:
            raise SpecError('WRITE_FAILURE exists from protocol version 4')
        if f['write_type'] not in WRITE_TYPES:
            raise SpecError('write type %r' % f['write_type'])
        out += w_consistency(f['cl']) + w_int(f['received']) + w_int(f['blockfor']) + failures() + \
            w_string(f['write_type'])
    elif code == ERR['FUNCTION_FAILURE']:
        if v < V4:
            raise SpecError('FUNCTION_FAILURE exists from protocol version 4')
        out += w_string(f['keyspace']) + w_string(f['function']) + w_string_list(f['arg_types'])
    elif code == ERR['CAS_WRITE_UNKNOWN']:
        out += w_consistency(f['cl']) + w_int(f['received']) + w_int(f['blockfor'])
    elif code == ERR['ALREADY_EXISTS']:
        out += w_string(f['keyspace']) + w_string(f['table'])
    elif code == ERR['UNPREPARED']:
        out += w_short_bytes(f['query_id'])
    elif f:
        raise SpecError('error 0x%04x has no extra fields' % code)
    return out


def body_supported(options):
    return w_string_multimap(options)


def body_authenticate(name):
    return w_string(name)


def body_auth_challenge(token):
    return w_bytes(token)


def body_auth_success(token):
    return w_bytes(token)


def build_body(v, desc):
    """Message body for a response description: dict with 'op' in RESP_OPCODES plus
    ERROR: code, message, fields={} | READY | AUTHENTICATE: authenticator | SUPPORTED: options |
    RESULT: kind in void/rows/set_keyspace/prepared/schema_change + that kind's arguments
    (rows: cols, rows, meta={}; set_keyspace: keyspace; prepared: args={}; schema_change: change) |
    EVENT: event | AUTH_CHALLENGE / AUTH_SUCCESS: token."""
    op = desc['op']
    if op == 'ERROR':
        return body_error(v, desc['code'], desc['message'], **desc.get('fields', {}))
    if op == 'READY':
        return b''
    if op == 'AUTHENTICATE':
        return body_authenticate(desc['authenticator'])
    if op == 'SUPPORTED':
        return body_supported(desc['options'])
    if op == 'RESULT':
        k = desc['kind']
        if k == 'void':
            return body_result_void()
        if k == 'rows':
            return body_result_rows(v, desc['cols'], desc['rows'], encoded=desc.get('encoded', False), **desc.get('meta', {}))
        if k == 'set_keyspace':
            return body_result_set_keyspace(desc['keyspace'])
        if k == 'prepared':
            return body_result_prepared(v, **desc['args'])
        if k == 'schema_change':
            return body_result_schema_change(v, desc['change'])
        raise SpecError('result kind %r' % k)
    if op == 'EVENT':
        return body_event(v, desc['event'])
    if op == 'AUTH_CHALLENGE':
        if v == V1:
            raise SpecError('AUTH_CHALLENGE does not exist in protocol version 1')
        return body_auth_challenge(desc['token'])
    if op == 'AUTH_SUCCESS':
        if v == V1:
            raise SpecError('AUTH_SUCCESS does not exist in protocol version 1')
        return body_auth_success(desc['token'])
    raise SpecError('response op %r' % op)


def build_frame(v, stream, opcode, body, response=True, tracing_id=None, warnings=None, payload=None,
                compress=None, beta=False):
    """Assemble a frame.  tracing id, warnings and custom payload are placed, in that order, in
    front of the message body; `compress` (a function) is applied to all of it (v1-v4/DSE)."""
    if v not in VERSIONS:
        raise SpecError('version %r' % (v,))
    flags = 0
    pre = b''
    if tracing_id is not None:
        flags |= F_TRACING
        pre += w_uuid(tracing_id)
    if warnings is not None:
        if v < V4:
            raise SpecError('warnings exist from protocol version 4')
        flags |= F_WARNING
        pre += w_string_list(warnings)
    if payload is not None:
        if not carries_payload(v):
            raise SpecError('custom payloads exist from protocol version 4')
        flags |= F_PAYLOAD
        pre += w_bytes_map(payload)
    if beta:
        flags |= F_BETA
    full = pre + body
    if compress is not None and not segment_layer(v) and full:
        full = compress(full)
        flags |= F_COMPRESS
    if not -max_stream(v) - 1 <= stream <= max_stream(v):
        raise SpecError('stream id %d does not fit protocol version %d' % (stream, v))
    vb = v | (0x80 if response else 0)
    if header_len(v) == 8:
        hdr = struct.pack('>BBbBi', vb, flags, stream, opcode, len(full))
    else:
        hdr = struct.pack('>BBhBi', vb, flags, stream, opcode, len(full))
    return hdr + full


def build_response(v, desc, stream=0, tracing_id=None, warnings=None, payload=None, compress=None, beta=False):
    """Complete response frame for description `desc` (see build_body).  EVENTs go on stream -1
    unless another stream is forced."""
    op = desc['op']
    if op == 'EVENT' and stream == 0:
        stream = -1
    return build_frame(v, stream, RESP_OPCODES[op], build_body(v, desc), response=True, tracing_id=tracing_id,
                       warnings=warnings, payload=payload, compress=compress, beta=beta)


# ----------------------------------------------------------------------------- self test
def _hx(s):
    return bytes.fromhex(s.replace(' ', '').replace('\n', ''))


def selftest():
    """Hand-checked byte vectors (worked out from the specification text, not produced by any
    implementation) for both halves, plus refusal of malformed input."""
    ok = True

    def check(cond, what):
        nonlocal ok
        if not cond:
            ok = False
            print('frames.selftest FAILED:', what)

    def raises(fn, what):
        try:
            fn()
        except SpecError:
            return
        check(False, 'no SpecError: ' + what)

    # --- requests -----------------------------------------------------------------------------
    # OPTIONS, v4, stream 0
    r = parse_request(_hx('04 00 0000 05 00000000'))
    check(r['opcode'] == 'OPTIONS' and r['version'] == 4 and r['stream'] == 0 and not r['tracing'], 'OPTIONS v4')
    # OPTIONS, v2 (8 byte header), stream 127
    r = parse_request(_hx('02 00 7f 05 00000000'))
    check(r['opcode'] == 'OPTIONS' and r['stream'] == 127, 'OPTIONS v2')
    raises(lambda: parse_request(_hx('02 00 007f 05 00000000')), 'v2 frame with 9 byte header')
    # STARTUP v3 {CQL_VERSION: 3.0.0}: body = 0001 000b CQL_VERSION 0005 3.0.0 = 22 bytes
    st = _hx('03 00 0001 01 00000016 0001 000b') + b'CQL_VERSION' + _hx('0005') + b'3.0.0'
    r = parse_request(st)
    check(r['options'] == {'CQL_VERSION': '3.0.0'} and r['stream'] == 1, 'STARTUP v3')
    raises(lambda: parse_request(st + b'\x00'), 'length mismatch')
    raises(lambda: parse_request(st[:4] + b'\x01' + _hx('00000017') + st[9:] + b'\x00'), 'trailing byte inside body')
    # QUERY v1: <long string><consistency>
    q = _hx('01 00 05 07 0000000e 00000008') + b'SELECT 1' + _hx('0001')
    r = parse_request(q)
    check(r['query'] == 'SELECT 1' and r['consistency'] == 1 and r['flags'] is None, 'QUERY v1')
    raises(lambda: parse_request(_hx('01 00 05 07 0000000f 00000008') + b'SELECT 1' + _hx('0001 00')), 'QUERY v1 with a flags byte')
    # QUERY v4, QUORUM, flags = page_size|serial|timestamp (0x34), page 5000, LOCAL_SERIAL, ts=1
    body = _hx('00000008') + b'SELECT 1' + _hx('0004 34 00001388 0009 0000000000000001')
    r = parse_request(_hx('04 02 0080 07') + struct.pack('>i', len(body)) + body)
    check((r['page_size'], r['serial_consistency'], r['timestamp'], r['tracing'], r['stream'], r['values']) ==
          (5000, 9, 1, True, 128, None), 'QUERY v4 flags 0x34')
    # same on v5: flags are 4 bytes, + keyspace 0x80
    body = _hx('00000008') + b'SELECT 1' + _hx('0004 000000b4 00001388 0009 0000000000000001 0002') + b'ks'
    r = parse_request(_hx('05 00 0000 07') + struct.pack('>i', len(body)) + body)
    check((r['page_size'], r['serial_consistency'], r['timestamp'], r['keyspace']) == (5000, 9, 1, 'ks'), 'QUERY v5')
    # one-byte flags on v5 must be refused
    body1 = _hx('00000008') + b'SELECT 1' + _hx('0004 00')
    raises(lambda: parse_request(_hx('05 00 0000 07') + struct.pack('>i', len(body1)) + body1), 'QUERY v5 with 1-byte flags')
    # keyspace flag on v4 refused
    body = _hx('00000008') + b'SELECT 1' + _hx('0001 80 0002') + b'ks'
    raises(lambda: parse_request(_hx('04 00 0000 07') + struct.pack('>i', len(body)) + body), 'keyspace flag on v4')
    # EXECUTE v1: <id><n><values><consistency>
    body = _hx('0002 abcd 0002 00000001 ff ffffffff 0001')
    r = parse_request(_hx('01 00 00 0a') + struct.pack('>i', len(body)) + body)
    check(r['query_id'] == b'\xab\xcd' and r['values'] == [b'\xff', None] and r['consistency'] == 1, 'EXECUTE v1')
    # EXECUTE v4 with an unset value, skip_metadata, paging state
    body = _hx('0002 abcd 0001 0b 0001 fffffffe 00000003 010203')
    r = parse_request(_hx('04 00 0000 0a') + struct.pack('>i', len(body)) + body)
    check(r['values'] == [UNSET] and r['skip_metadata'] and r['paging_state'] == b'\x01\x02\x03', 'EXECUTE v4')
    raises(lambda: parse_request(_hx('03 00 0000 0a') + struct.pack('>i', len(body)) + body), 'unset on v3')
    # EXECUTE v5 carries the result metadata id
    body = _hx('0002 abcd 0001 ee 0001 00000000')
    r = parse_request(_hx('05 00 0000 0a') + struct.pack('>i', len(body)) + body)
    check(r['result_metadata_id'] == b'\xee' and r['flags'] == 0, 'EXECUTE v5')
    # PREPARE v4 / v5 with keyspace
    body = _hx('00000001 51')
    r = parse_request(_hx('04 00 0000 09') + struct.pack('>i', len(body)) + body)
    check(r['query'] == 'Q' and r['keyspace'] is None, 'PREPARE v4')
    body = _hx('00000001 51 00000001 0002') + b'ks'
    r = parse_request(_hx('05 00 0000 09') + struct.pack('>i', len(body)) + body)
    check(r['keyspace'] == 'ks', 'PREPARE v5 keyspace')
    body = _hx('00000001 51 00000001')
    raises(lambda: parse_request(_hx('05 00 0000 09') + struct.pack('>i', len(body)) + body), 'PREPARE keyspace flag without string')
    # BATCH v2 (no flags) and v3 (flags, serial + timestamp)
    b2 = _hx('01 0002 00 00000001 51 0000 01 0001 aa 0001 00000001 00 0004')
    r = parse_request(_hx('02 00 01 0d') + struct.pack('>i', len(b2)) + b2)
    check(r['batch_type'] == 1 and len(r['queries']) == 2 and r['queries'][1] == {'prepared': True, 'query_id': b'\xaa', 'values': [b'\x00']}
          and r['consistency'] == 4 and r['flags'] is None, 'BATCH v2')
    b3 = b2 + _hx('30 0008 7fffffffffffffff')
    r = parse_request(_hx('03 00 0001 0d') + struct.pack('>i', len(b3)) + b3)
    check(r['serial_consistency'] == 8 and r['timestamp'] == 2 ** 63 - 1, 'BATCH v3')
    raises(lambda: parse_request(_hx('03 00 0001 0d') + struct.pack('>i', len(b2)) + b2), 'BATCH v3 without flags byte')
    b5 = b2 + _hx('00000080 0000')
    r = parse_request(_hx('05 00 0001 0d') + struct.pack('>i', len(b5)) + b5)
    check(r['keyspace'] == '', 'BATCH v5 empty keyspace')
    # REGISTER, AUTH_RESPONSE, CREDENTIALS
    body = _hx('0001 000d') + b'STATUS_CHANGE'
    r = parse_request(_hx('04 00 0000 0b') + struct.pack('>i', len(body)) + body)
    check(r['events'] == ['STATUS_CHANGE'], 'REGISTER')
    r = parse_request(_hx('04 00 0000 0f 00000006 00000002 6162'))
    check(r['token'] == b'ab', 'AUTH_RESPONSE')
    raises(lambda: parse_request(_hx('01 00 00 0f 00000006 00000002 6162')), 'AUTH_RESPONSE on v1')
    body = _hx('0001 0001 75 0001 70')
    r = parse_request(_hx('01 00 00 04') + struct.pack('>i', len(body)) + body)
    check(r['credentials'] == {'u': 'p'}, 'CREDENTIALS v1')
    raises(lambda: parse_request(_hx('02 00 00 04') + struct.pack('>i', len(body)) + body), 'CREDENTIALS on v2')
    # custom payload (v4+), beta flag
    body = _hx('0001 0001 6b 00000001 76')
    r = parse_request(_hx('04 14 0000 05') + struct.pack('>i', len(body)) + body)
    check(r['payload'] == {'k': b'v'} and r['beta'], 'payload + beta')
    raises(lambda: parse_request(_hx('03 04 0000 05') + struct.pack('>i', len(body)) + body), 'payload flag on v3')
    # DSE: continuous paging options, REVISE_REQUEST
    body = _hx('00000001 51 0001 80000004 00000064 00000002 00000003')
    r = parse_request(_hx('41 00 0000 07') + struct.pack('>i', len(body)) + body)
    check(r['continuous'] == {'max_pages': 2, 'pages_per_second': 3} and r['page_size'] == 100, 'DSE_V1 continuous')
    body2 = body + _hx('00000004')
    r = parse_request(_hx('42 00 0000 07') + struct.pack('>i', len(body2)) + body2)
    check(r['continuous'] == {'max_pages': 2, 'pages_per_second': 3, 'next_pages': 4}, 'DSE_V2 continuous')
    raises(lambda: parse_request(_hx('42 00 0000 07') + struct.pack('>i', len(body)) + body), 'DSE_V2 continuous without next_pages')
    r = parse_request(_hx('42 00 0000 ff 0000000c 00000002 00000007 00000003'))
    check((r['revision_type'], r['target_stream'], r['next_pages']) == (2, 7, 3), 'REVISE_REQUEST')
    raises(lambda: parse_request(_hx('04 00 0000 ff 00000008 00000001 00000007')), 'REVISE_REQUEST on v4')

    # --- responses ----------------------------------------------------------------------------
    check(build_response(4, {'op': 'READY'}, stream=3) == _hx('84 00 0003 02 00000000'), 'READY v4')
    check(build_response(2, {'op': 'READY'}, stream=3) == _hx('82 00 03 02 00000000'), 'READY v2')
    check(build_response(3, {'op': 'RESULT', 'kind': 'void'}) == _hx('83 00 0000 08 00000004 00000001'), 'void')
    check(build_response(3, {'op': 'RESULT', 'kind': 'set_keyspace', 'keyspace': 'ks'}) ==
          _hx('83 00 0000 08 00000008 00000003 0002 6b73'), 'set_keyspace')
    # ERROR unavailable: code 0x1000, "m", QUORUM, 3, 1
    check(build_body(4, {'op': 'ERROR', 'code': 0x1000, 'message': 'm', 'fields': {'cl': 4, 'required': 3, 'alive': 1}}) ==
          _hx('00001000 0001 6d 0004 00000003 00000001'), 'unavailable')
    # read failure v4 (count) vs v5 (reason map)
    f4 = {'cl': 1, 'received': 0, 'blockfor': 1, 'numfailures': 1, 'data_present': False}
    check(build_body(4, {'op': 'ERROR', 'code': 'READ_FAILURE', 'message': '', 'fields': f4}) ==
          _hx('00001300 0000 0001 00000000 00000001 00000001 00'), 'read failure v4')
    f5 = {'cl': 1, 'received': 0, 'blockfor': 1, 'reasons': {'10.0.0.1': 0x0102}, 'data_present': True}
    check(build_body(5, {'op': 'ERROR', 'code': 'READ_FAILURE', 'message': '', 'fields': f5}) ==
          _hx('00001300 0000 0001 00000000 00000001 00000001 04 0a000001 0102 01'), 'read failure v5')
    # rows: one int column, global spec, one row (7) and paging state
    cols = [('ks', 't', 'c', 'int')]
    b = build_body(4, {'op': 'RESULT', 'kind': 'rows', 'cols': cols, 'rows': [[7], [None]],
                       'meta': {'global_spec': True, 'paging_state': b'\x01'}})
    check(b == _hx('00000002 00000003 00000001 00000001 01 0002 6b73 0001 74 0001 63 0009 '
                   '00000002 00000004 00000007 ffffffff'), 'rows global spec')
    b = build_body(4, {'op': 'RESULT', 'kind': 'rows', 'cols': cols, 'rows': [[7]], 'meta': {'no_metadata': True}})
    check(b == _hx('00000002 00000004 00000001 00000001 00000004 00000007'), 'rows no_metadata')
    b = build_body(5, {'op': 'RESULT', 'kind': 'rows', 'cols': cols, 'rows': [], 'meta': {'new_metadata_id': b'\x09'}})
    check(b == _hx('00000002 00000008 00000001 0001 09 0002 6b73 0001 74 0001 63 0009 00000000'), 'rows new_metadata_id')
    # nested type option: map<varchar, list<int>>
    check(enc_type(('map', 'varchar', ('list', 'int')), 3) == _hx('0021 000d 0020 0009'), 'type option map')
    check(enc_type(('udt', 'ks', 'u', [('a', 'int')]), 3) == _hx('0030 0002 6b73 0001 75 0001 0001 61 0009'), 'type option udt')
    check(enc_type(('tuple', ['int', 'blob']), 3) == _hx('0031 0002 0009 0003'), 'type option tuple')
    raises(lambda: enc_type(('tuple', ['int']), 2), 'tuple on v2')
    check(enc_value(('list', 'int'), [1], 2) == _hx('0001 0004 00000001'), 'list value v2')
    check(enc_value(('list', 'int'), [1], 3) == _hx('00000001 00000004 00000001'), 'list value v3')
    # prepared: v4 with pk index, v1 without result metadata, v5 with metadata id
    b = build_body(4, {'op': 'RESULT', 'kind': 'prepared', 'args': dict(
        query_id=b'\xaa', bind_cols=cols, bind_global=True, pk_indexes=[0], result_cols=[], result_meta={'no_metadata': True})})
    check(b == _hx('00000004 0001 aa 00000001 00000001 00000001 0000 0002 6b73 0001 74 0001 63 0009 00000004 00000000'), 'prepared v4')
    b = build_body(1, {'op': 'RESULT', 'kind': 'prepared', 'args': dict(query_id=b'\xaa', bind_cols=cols)})
    check(b == _hx('00000004 0001 aa 00000000 00000001 0002 6b73 0001 74 0001 63 0009'), 'prepared v1')
    b = build_body(5, {'op': 'RESULT', 'kind': 'prepared', 'args': dict(query_id=b'\xaa', result_metadata_id=b'\xbb', bind_cols=[])})
    check(b == _hx('00000004 0001 aa 0001 bb 00000000 00000000 00000000 00000000 00000000'), 'prepared v5')
    # schema change result / event, v2 vs v3 vs v4 function
    ch = {'change_type': 'CREATED', 'target': 'TABLE', 'keyspace': 'k', 'name': 't'}
    check(schema_change_body(2, ch) == _hx('0007') + b'CREATED' + _hx('0001 6b 0001 74'), 'schema change v2')
    check(schema_change_body(3, ch) == _hx('0007') + b'CREATED' + _hx('0005') + b'TABLE' + _hx('0001 6b 0001 74'), 'schema change v3')
    fn = {'change_type': 'DROPPED', 'target': 'FUNCTION', 'keyspace': 'k', 'name': 'f', 'arg_types': ['int']}
    check(schema_change_body(4, fn) == _hx('0007') + b'DROPPED' + _hx('0008') + b'FUNCTION' + _hx('0001 6b 0001 66 0001 0003') + b'int', 'function change')
    raises(lambda: schema_change_body(3, fn), 'function change on v3')
    ev = build_response(3, {'op': 'EVENT', 'event': {'event_type': 'STATUS_CHANGE', 'change_type': 'UP', 'address': '10.0.0.2', 'port': 9042}})
    check(ev == _hx('83 00 ffff 0c 0000001c 000d') + b'STATUS_CHANGE' + _hx('0002') + b'UP' + _hx('04 0a000002 00002352'), 'status event')
    # frame decorations: tracing id, warnings, payload order
    tid = _uuid.UUID(int=1)
    fr = build_response(4, {'op': 'READY'}, tracing_id=tid, warnings=['w'], payload={'k': b'v'})
    check(fr == _hx('84 0e 0000 02 0000001f') + tid.bytes + _hx('0001 0001 77') + _hx('0001 0001 6b 00000001 76'), 'decorations')
    raises(lambda: build_response(3, {'op': 'READY'}, warnings=['w']), 'warnings on v3')
    check(build_response(4, {'op': 'SUPPORTED', 'options': {'CQL_VERSION': ['3.4.5'], 'COMPRESSION': []}}) ==
          _hx('84 00 0000 06 00000027 0002 000b') + b'CQL_VERSION' + _hx('0001 0005') + b'3.4.5' + _hx('000b') + b'COMPRESSION' + _hx('0000'), 'supported')
    check(build_body(4, {'op': 'AUTH_SUCCESS', 'token': None}) == _hx('ffffffff'), 'null token')
    return ok


if __name__ == '__main__':
    import sys
    sys.exit(0 if selftest() else 1)
