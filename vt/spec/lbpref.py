"""Reference model for load-balancing plans (C21).  Standard library only; shares no code with
the driver.

A host is a small integer.  The model keeps, per policy, the set of hosts the policy has been told
are live (populate -> that set, up/add -> union, down/remove -> difference) and, for the
datacenter-aware policy, which datacenter is local (configured, or inferred from the first contact
point reported up with a datacenter).  `judge()` says what is wrong with an observed plan.

spec (plain tuples):
    ('rr',)                                   every live host, any order
    ('dcaware', local_dc, per_remote_dc)      local_dc '' = infer
    ('whitelist', frozenset(allowed hosts))
    ('filter', child_spec, frozenset(excluded hosts))
    ('filter', child_spec, ('dc', name))      predicate by location: hosts whose datacenter is `name` now are excluded
    ('filter', child_spec, ('rack', name))    hosts whose rack is `name` now are excluded
    ('filter', child_spec, ('onlydc', name))  hosts whose datacenter is not `name` now (also: unknown) are excluded
    ('wrap', child_spec)                      token-aware without routing key / default policy without target
"""


class Ref(object):
    def __init__(self, spec, contacts=()):
        self.spec = spec
        self.kind = spec[0]
        self.contacts = frozenset(contacts)
        self.child = Ref(spec[1], contacts) if self.kind in ('filter', 'wrap') else None
        self.live = set()
        self.local_dc = spec[1] if self.kind == 'dcaware' else None

    # ---- events (dc = the host's datacenter at the time of the event, None if unknown)
    def populate(self, hosts):
        if self.child is not None:
            return self.child.populate(hosts)
        hosts = list(hosts)
        if self.kind == 'whitelist':
            hosts = [h for h in hosts if h in self.spec[1]]
        self.live = set(hosts)

    def up(self, h, dc):
        if self.child is not None:
            return self.child.up(h, dc)
        if self.kind == 'dcaware' and not self.local_dc and dc and h in self.contacts:
            self.local_dc = dc
        if self.kind == 'whitelist' and h not in self.spec[1]:
            return
        self.live.add(h)

    add = up

    def down(self, h, dc):
        if self.child is not None:
            return self.child.down(h, dc)
        self.live.discard(h)

    remove = down

    def leaf(self):
        return self.child.leaf() if self.child is not None else self

    def excluded(self, dcs=None, racks=None):
        """hosts that must not be yielded now.  A predicate by address excludes a fixed set; a predicate by
        location is evaluated on the hosts' location now (dcs / racks: {host: name or None}), whatever
        the location was when the host was reported or yielded earlier."""
        out = set()
        if self.kind == 'filter':
            rule = self.spec[2]
            if isinstance(rule, tuple):
                what, name = rule
                if what == 'dc':
                    out |= set(h for h, dc in (dcs or {}).items() if dc == name)
                elif what == 'rack':
                    out |= set(h for h, rk in (racks or {}).items() if rk == name)
                elif what == 'onlydc':
                    out |= set(h for h, dc in (dcs or {}).items() if dc != name)
                else:
                    raise ValueError(rule)
            else:
                out |= set(rule)
        if self.child is not None:
            out |= self.child.excluded(dcs, racks)
        return out

    def state(self):
        lf = self.leaf()
        return (tuple(sorted(lf.live)), lf.local_dc)

    # ---- oracle
    def judge(self, plan, dist, dcs, universe, racks=None):
        """plan: list of hosts; dist: {host: 'LOCAL'|'REMOTE'|'IGNORED'} as the policy under test
        reports it (for every host of `universe`); dcs / racks: {host: datacenter / rack or None} now.
        -> list of (clause, text)"""
        bad = []
        if len(set(plan)) != len(plan):
            bad.append(('duplicate', 'plan %r yields a host twice' % (plan,)))
        ex = self.excluded(dcs, racks)
        if self.kind == 'whitelist':
            ex = set(universe) - set(self.spec[1])
        hit = [h for h in plan if h in ex]
        if hit:
            bad.append(('excluded-host-yielded', 'plan %r contains excluded host(s) %r' % (plan, hit)))
        for h in ex:
            if dist.get(h) not in (None, 'IGNORED'):
                bad.append(('excluded-host-distance', 'excluded host %r has distance %s' % (h, dist[h])))
        lf = self.leaf()
        live = set(lf.live) - ex
        for h in plan:
            if h not in lf.live:
                bad.append(('not-live-host-yielded', 'plan %r contains %r; hosts reported live to the policy: %r'
                            % (plan, h, sorted(lf.live))))
                break
        if lf.kind in ('rr', 'whitelist'):
            missing = live - set(plan)
            if missing:
                bad.append(('live-host-missing', 'plan %r lacks live host(s) %r' % (plan, sorted(missing))))
            for h in plan:
                if dist.get(h) == 'IGNORED':
                    bad.append(('ignored-host-yielded', 'plan member %r has distance IGNORED' % (h,)))
            return bad
        # datacenter-aware leaf (possibly seen through a filter)
        ldc = lf.local_dc
        n = lf.spec[2]
        eff = lambda h: dcs.get(h) or ldc
        local = set(h for h in live if eff(h) == ldc)
        k = len(local)
        if set(plan[:k]) != local:
            bad.append(('local-hosts-not-first', 'local dc %r: live local hosts %r must open the plan, plan is %r'
                        % (ldc, sorted(local), plan)))
        rest = [h for h in plan if h not in local]
        per = {}
        for h in rest:
            per.setdefault(eff(h), []).append(h)
        for dc, hs in sorted(per.items(), key=repr):
            if len(set(hs)) > n:
                bad.append(('too-many-remote', 'remote dc %r contributes %r, at most %d allowed' % (dc, hs, n)))
        live_per = {}
        for h in live - local:
            live_per.setdefault(eff(h), set()).add(h)
        for dc, hs in sorted(live_per.items(), key=repr):
            got = set(per.get(dc, ()))
            # a filter in front of the policy removes hosts after the per-datacenter cut (documented caveat of
            # HostFilterPolicy), so the count is only demanded when nothing is filtered
            if not ex and len(got) < min(n, len(hs)):
                bad.append(('remote-hosts-missing', 'remote dc %r has live hosts %r, plan %r uses %d of them, %d expected'
                            % (dc, sorted(hs), plan, len(got), min(n, len(hs)))))
        # consistency with the reported distance
        for h in plan:
            want = 'LOCAL' if h in local else 'REMOTE'
            if h in lf.live and dist.get(h) != want:
                bad.append(('distance-inconsistent/plan-member-%s' % dist.get(h),
                            'host %r is yielded as %s but distance() says %s (plan %r, local dc %r)'
                            % (h, want.lower(), dist.get(h), plan, ldc)))
        for h in live - set(plan):
            if dist.get(h) != 'IGNORED':
                bad.append(('distance-inconsistent/live-%s-not-yielded' % dist.get(h),
                            'live host %r has distance %s but is not in plan %r' % (h, dist.get(h), plan)))
        return bad


def selftest():
    r = Ref(('dcaware', '', 1), contacts=[0])
    r.populate([0, 1])
    assert r.state() == ((0, 1), '')
    r.down(0, None); r.up(0, 'a')
    assert r.local_dc == 'a'
    dcs = {0: 'a', 1: 'b', 2: 'b'}
    r.down(1, None); r.up(1, 'b'); r.add(2, 'b')
    ok = r.judge([0, 1], {0: 'LOCAL', 1: 'REMOTE', 2: 'IGNORED'}, dcs, [0, 1, 2])
    assert ok == [], ok
    assert r.judge([1, 0], {0: 'LOCAL', 1: 'REMOTE', 2: 'IGNORED'}, dcs, [0, 1, 2])[0][0] == 'local-hosts-not-first'
    assert any(c == 'too-many-remote' for c, _ in r.judge([0, 1, 2], {0: 'LOCAL', 1: 'REMOTE', 2: 'REMOTE'}, dcs, [0, 1, 2]))
    assert any(c == 'duplicate' for c, _ in r.judge([0, 1, 1], {0: 'LOCAL', 1: 'REMOTE', 2: 'IGNORED'}, dcs, [0, 1, 2]))
    assert any(c == 'remote-hosts-missing' for c, _ in r.judge([0], {0: 'LOCAL', 1: 'IGNORED', 2: 'IGNORED'}, dcs, [0, 1, 2]))
    f = Ref(('filter', ('rr',), frozenset([1])))
    f.populate([0, 1, 2])
    assert f.judge([0, 2], {0: 'LOCAL', 1: 'IGNORED', 2: 'LOCAL'}, {}, [0, 1, 2]) == []
    assert f.judge([0, 1, 2], {0: 'LOCAL', 1: 'IGNORED', 2: 'LOCAL'}, {}, [0, 1, 2])[0][0] == 'excluded-host-yielded'
    g = Ref(('filter', ('rr',), ('dc', 'b')))
    g.populate([0, 1, 2])
    assert g.excluded({0: 'a', 1: None, 2: 'b'}, {}) == {2}
    assert g.judge([0, 1], {0: 'LOCAL', 1: 'LOCAL', 2: 'IGNORED'}, {0: 'a', 1: None, 2: 'b'}, [0, 1, 2]) == []
    assert g.judge([0, 1, 2], {0: 'LOCAL', 1: 'LOCAL', 2: 'IGNORED'}, {0: 'a', 1: None, 2: 'b'}, [0, 1, 2])[0][0] == 'excluded-host-yielded'
    # the same host back in an accepted datacenter is owed again
    assert g.judge([0, 1], {0: 'LOCAL', 1: 'LOCAL', 2: 'LOCAL'}, {0: 'a', 1: None, 2: 'a'}, [0, 1, 2])[0][0] == 'live-host-missing'
    o = Ref(('filter', ('rr',), ('onlydc', 'a')))
    o.populate([0, 1])
    assert o.excluded({0: 'a', 1: None}, {}) == {1}
    k = Ref(('filter', ('rr',), ('rack', 'r2')))
    k.populate([0, 1])
    assert k.excluded({0: 'a', 1: 'a'}, {0: 'r1', 1: 'r2'}) == {1}
    w = Ref(('whitelist', frozenset([0])))
    w.populate([0, 1]); w.up(1, None)
    assert w.state()[0] == (0,)
    return True
