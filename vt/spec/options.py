"""Reference for C46: which value of a request option is in effect.  Standard library only.

UNSET is the marker for "the statement / the call has no setting of its own"."""

UNSET = ('unset',)


def effective(own, default):
    """the statement's (or the call's) own setting when it has one, otherwise the profile / session default"""
    return default if own is UNSET else own


def wire_page_size(fetch_size):
    """what a QUERY/EXECUTE frame must carry for an effective fetch size: a positive size travels as
    <page_size>; None or 0 mean "no paging", for which the frame has no page size (a node treats a
    missing page size and a page size <= 0 alike)"""
    return fetch_size if fetch_size else None


def selftest():
    assert effective(UNSET, 5) == 5 and effective(None, 5) is None and effective(0, 5) == 0 and effective(7, 5) == 7
    assert wire_page_size(0) is None and wire_page_size(None) is None and wire_page_size(7) == 7
    return True
