"""Reference for C46: which value of a request option is in effect.  Standard library only.

UNSET is the marker for "the statement / the call has no setting of its own"."""

UNSET = ('unset',)


def effective(own, default):
    """the statement's (or the call's) own setting when it has one, otherwise the profile / session default"""
    return default if own is UNSET else own


def wire_page_size(fetch_size):
    """what a QUERY/EXECUTE frame must carry for an effective fetch size: a positive size travels as
    <page_size>; None or 0 mean "no paging", for which the frame has no page size (a node treats a
    missing page size and a page size <= 0 alike)"""
    return fetch_size if fetch_size else None


REQUEST_OPTIONS = ('target', 'consistency', 'serial_consistency', 'page_size', 'timeout', 'retry_policy', 'row_factory')


def target(first_of_policy, explicit_host=None):
    """where a request of the execution goes first: the host the caller named, otherwise the first host of
    the plan of the load-balancing policy in effect"""
    return first_of_policy if explicit_host is None else explicit_host


def request_options(page_no, resolved):
    """One execution resolves its options once; every request made for it - the first one and each
    follow-up that fetches a later page - carries exactly those (page_no does not enter)."""
    return dict((k, resolved[k]) for k in REQUEST_OPTIONS if k in resolved)


def selftest():
    assert effective(UNSET, 5) == 5 and effective(None, 5) is None and effective(0, 5) == 0 and effective(7, 5) == 7
    assert wire_page_size(0) is None and wire_page_size(None) is None and wire_page_size(7) == 7
    r = dict(target='b', consistency=0, serial_consistency=None, page_size=7, timeout=0.0, retry_policy='p', row_factory='f', other=1)
    assert request_options(1, r) == request_options(3, r) == dict((k, v) for k, v in r.items() if k != 'other')
    assert target('a') == 'a' and target('a', 'b') == 'b'
    return True
