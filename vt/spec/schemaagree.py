"""Reference for C43: when is the schema agreed?  Standard library only.

A poll is what one round of `system.local` + `system.peers` reads shows:
    local_version, [(peer_version or None, known: bool, state: True | False | None)]
`state` is what the client believes about the peer: True up, False marked down, None unknown.
Agreement = the control node and every known peer that is not marked down and reports a version
report one and the same version.

A poll may also get no answer at all (None) or fail (FAULT: the connection it was made on was lost, or the
node answered it with an error).  A failed poll ends the wait and nothing was learnt from it: the wait may
raise the error or report "not agreed" (also before the budget is spent); it may not report agreement.
"""

FAULT = 'fault'


def agreed(local_version, peers):
    versions = set()
    if local_version is not None:
        versions.add(local_version)
    for version, known, state in peers:
        if version is None or not known or state is False:
            continue
        versions.add(version)
    return len(versions) == 1


def judge(result, polls, budget, elapsed):
    """result: what the wait returned (None when it raised out of a failed poll); polls: [None (poll got no answer) |
    True/False (answered: agreed?) | FAULT (the poll failed)] in the order the client issued them; -> list of (clause, text)"""
    bad = []
    if polls and polls[-1] == FAULT:
        # the wait ended in a failed poll: it is over (no demand on the time spent), and it did not see agreement
        before = [i for i, p in enumerate(polls[:-1]) if p is True]
        if result is True:
            bad.append(('agreement-reported-after-failed-poll',
                        'reports agreement although the last poll it made failed and %s (polls: %r)'
                        % ('no poll before it showed agreement' if not before else 'it polled on after an agreeing poll', polls)))
        if before:
            bad.append(('polled-on-after-agreement', 'poll %d already showed agreement, %d polls made' % (before[0], len(polls))))
        return bad
    if result is not True and result is not False:
        return [('verdict-not-bool', 'returned %r' % (result,))]
    hits = [i for i, p in enumerate(polls) if p is True]
    if result is True:
        if not polls or polls[-1] is not True:
            bad.append(('agreement-reported-without-agreement',
                        'returned True but the last poll it made shows %s (polls: %r)'
                        % ('no agreement' if polls and polls[-1] is False else 'nothing', polls)))
        elif hits[0] != len(polls) - 1:
            bad.append(('polled-on-after-agreement', 'poll %d already showed agreement, %d polls made' % (hits[0], len(polls))))
    else:
        if hits:
            bad.append(('agreement-not-reported', 'poll %d showed agreement but False was returned (polls: %r)' % (hits[0], polls)))
        elif elapsed + 1e-9 < budget:
            bad.append(('gave-up-early', 'returned False after %.3f s of a %.3f s budget (polls: %r)' % (elapsed, budget, polls)))
        if not polls:
            bad.append(('never-polled', 'returned False without reading the schema versions'))
    return bad


def selftest():
    assert agreed('a', [('a', True, True), ('a', True, None)])
    assert not agreed('a', [('b', True, None)])
    assert agreed('a', [('b', True, False), (None, True, True), ('b', False, True)])
    assert not agreed('a', [('a', True, True), ('b', True, True)])
    assert judge(True, [False, True], 1, 0.2) == []
    assert judge(False, [False, False], 0.3, 0.4) == []
    assert judge(False, [False], 1.0, 0.2)[0][0] == 'gave-up-early'
    assert judge(True, [False, False], 0.3, 0.4)[0][0] == 'agreement-reported-without-agreement'
    assert judge(False, [False, True], 0.3, 0.4)[0][0] == 'agreement-not-reported'
    assert judge(None, [], 1, 0)[0][0] == 'verdict-not-bool'
    assert judge(None, [False, FAULT], 1, 0.2) == []          # raised out of the failed poll
    assert judge(False, [False, None, FAULT], 1, 0.4) == []    # or "not agreed", before the budget is spent
    assert judge(True, [False, FAULT], 1, 0.2)[0][0] == 'agreement-reported-after-failed-poll'
    assert judge(True, [FAULT], 1, 0.0)[0][0] == 'agreement-reported-after-failed-poll'
    assert judge(False, [True, FAULT], 1, 0.2)[0][0] == 'polled-on-after-agreement'
    return True
