"""Finite generators for CQL type trees and boundary values (reference domain of vt.spec.values).

Everything here is a deterministic enumerator (no randomness); python stdlib only.
"""
import datetime
import decimal
import uuid

from vt.spec import values as V

D = decimal.Decimal
PROTOCOL_VERSIONS = (1, 2, 3, 4, 5, 6, 65, 66)       # v1..v6 and DSE v1/v2 (0x41, 0x42)

_EPOCH = datetime.date(1970, 1, 1)


def ms_of(y, mo, d, h=0, mi=0, s=0, ms=0):
    days = (datetime.date(y, mo, d) - _EPOCH).days
    return ((days * 24 + h) * 60 + mi) * 60000 + s * 1000 + ms


def days_of(y, mo, d):
    return (datetime.date(y, mo, d) - _EPOCH).days


def _dedup(seq):
    out, seen = [], set()
    for x in seq:
        k = repr(x)
        if k not in seen:
            seen.add(k)
            out.append(x)
    return out


def _int_edges(bits):
    lo, hi = -2 ** (bits - 1), 2 ** (bits - 1) - 1
    vals = [0, 1, -1, lo, hi, lo + 1, hi - 1]
    for n in range(8, bits, 8):
        vals += [2 ** (n - 1) - 1, 2 ** (n - 1), -2 ** (n - 1), -2 ** (n - 1) - 1, 2 ** n - 1, 2 ** n]
    return [v for v in _dedup(vals) if lo <= v <= hi]


def _varints(maxbytes):
    vals = [0, 1, -1]
    for n in list(range(1, maxbytes + 1)):
        for base in (2 ** (8 * n - 1), 2 ** (8 * n)):
            for delta in (-1, 0, 1):
                vals += [base + delta, -base + delta]
    vals += [10 ** 40, -10 ** 40, 123456789123456789123456789]
    return _dedup(vals)


def _timestamps(thorough):
    vals = [0, 1, -1, 999, 1000, -999, -1000, -1001, 1320692149881,
            ms_of(1, 1, 1), ms_of(1, 1, 1, ms=1), ms_of(9999, 12, 31, 23, 59, 59, 999), ms_of(9999, 12, 31, 23, 59, 59, 998)]
    years = [1, 2, 100, 1000, 1582, 1600, 1699, 1700, 1800, 1900, 1969, 1970, 1971, 2000, 2038, 2100, 2242, 2243,
             3000, 5000, 9999]
    mss = [0, 1, 4, 999]
    if thorough:
        years = sorted(set(years + list(range(100, 10000, 100)) + [1677, 1678, 2261, 2262, 2263]))
        mss = [0, 1, 2, 3, 4, 5, 7, 123, 499, 500, 501, 998, 999]
    for y in years:
        for ms in mss:
            vals.append(ms_of(y, 6, 15, 12, 34, 56, ms))
    return _dedup(vals)


def _durations():
    i31, i63 = 2 ** 31, 2 ** 63
    vals = [(0, 0, 0), (1, 2, 3), (-1, -2, -3), (i31 - 1, i31 - 1, i63 - 1), (-i31, -i31, -i63),
            (i31 - 1, 0, 0), (0, i31 - 1, 0), (0, 0, i63 - 1), (-i31, 0, 0), (0, -i31, 0), (0, 0, -i63),
            (0, 0, i31), (0, 0, 2 ** 32), (0, 0, -i31 - 1), (12, 0, 100), (0, 0, 86400 * 10 ** 9)]
    for k in range(1, 10):               # zig-zag doubles the magnitude: sizes change at 2^(7k-1)
        b = 2 ** (7 * k - 1)
        vals += [(0, 0, b - 1), (0, 0, b), (0, 0, -b), (0, 0, -b - 1)]
        if b < i31:
            vals += [(b - 1, b, 0), (-b, -b - 1, 0)]
    return _dedup([v for v in vals if -i63 <= v[2] < i63 and -i31 <= v[0] < i31 and -i31 <= v[1] < i31])


def _decimals(thorough):
    unscaled = [0, 1, -1, 127, 128, -128, -129, 255, 256, 32767, 32768, -32769, 10 ** 20, -10 ** 20 - 1, 64206]
    scales = [0, 1, -1, 2, 20, -100, 2 ** 31 - 1, -2 ** 31]
    if thorough:
        unscaled += [2 ** 63, -2 ** 63 - 1, 2 ** 64, 10 ** 40 + 1]
        scales += [7, -7, 255, 256, 65536]
    vals = [D('1243878957943.1234124191998'), D('-112233.441191'), D('0.00000000000000064206'), D('64206e100'),
            D('0'), D('0.0'), D('0E+2'), D('-0'), D('1.0'), D('1.00'), D('100'), D('1E+2')]
    for u in unscaled:
        for s in scales:
            digits = tuple(int(c) for c in str(abs(u)))
            vals.append(D((1 if u < 0 else 0, digits, -s)))
    out, seen = [], set()
    for v in vals:
        k = v.as_tuple()
        if k not in seen:
            seen.add(k)
            out.append(v)
    return out


_FLT_MAX = (2 - 2 ** -23) * 2.0 ** 127
_NAN, _INF = float('nan'), float('inf')

U = uuid.UUID
_UUIDS = [U(int=0), U(int=2 ** 128 - 1), U('49157efc-ef3c-4de3-9698-af801fb40b2a'),
          U('00000000-0000-4000-8000-000000000001'), U('00000000-0000-4000-8000-000000000002'),
          U('af5943a3-ea3c-11e1-ab63-c42c032279f0')]
_TIMEUUIDS = [U('00000000-0000-1000-8080-808080808080'), U('ffffffff-ffff-1fff-bf7f-7f7f7f7f7f7f'),
              U('af5943a3-ea3c-11e1-ab63-c42c032279f0'), U('af5943a4-ea3c-11e1-ab63-c42c032279f0')]


def scalar_values(k, thorough=False):
    """Boundary values of scalar type k (reference domain), most ordinary first, no repeats."""
    return _dedup(_scalar_values(k, thorough))


def _scalar_values(k, thorough):
    if k == 'ascii':
        return ['abc', '', 'a', '\x00', '\x7f', ' ~', 'x' * 127, 'x' * 128, 'lorem ipsum dolor sit amet']
    if k in ('text', 'varchar'):
        v = [u'abc', u'', u'a', u'\xe9', u'€', u'\U0001f600', u'\x00', u'á', u'￿', u'\U0010ffff',
             u'x' * 127, u'x' * 128, u'まして', u'a\U0001f600b\xe9', u'퟿']
        return v if k == 'text' else v[:8]
    if k == 'blob':
        return [b'abc', b'', b'\x00', b'\xff', b'\x80\x00', bytes(range(256)), b'x' * 127, b'x' * 128]
    if k == 'boolean':
        return [True, False]
    if k == 'tinyint':
        return _int_edges(8)
    if k == 'smallint':
        return _int_edges(16)
    if k == 'int':
        return _int_edges(32)
    if k in ('bigint', 'counter'):
        return _int_edges(64)
    if k == 'varint':
        return _varints(20 if thorough else 9) + [2 ** 127, -2 ** 127 - 1]
    if k == 'decimal':
        return _decimals(thorough)
    if k == 'float':
        return [1.5, 0.0, -0.0, 1.0, -1.0, 19432.125, _FLT_MAX, -_FLT_MAX, 2.0 ** -126, 2.0 ** -149, -2.0 ** -149,
                _INF, -_INF, _NAN, 16777216.0, 16777215.0, 0.5]
    if k == 'double':
        return [1.5, 0.0, -0.0, 1.0, -1.0, 0.1, 19432.125, 1.7976931348623157e308, -1.7976931348623157e308,
                2.2250738585072014e-308, 5e-324, -5e-324, _INF, -_INF, _NAN, 9007199254740993.0, 1e16, 1.7415152243978685e+308]
    if k == 'uuid':
        return list(_UUIDS)
    if k == 'timeuuid':
        return list(_TIMEUUIDS)
    if k == 'inet':
        return ['1.2.3.4', '0.0.0.0', '127.0.0.1', '255.255.255.255', '65.52.54.169', '::', '::1', '2001:db8::1',
                'ffff:ffff:ffff:ffff:ffff:ffff:ffff:ffff', 'fe80::1:2:3:4', '::ffff:1.2.3.4', '1:0:0:2::3',
                '2a00:1328:e102:ccc0::122']
    if k == 'timestamp':
        return _timestamps(thorough)
    if k == 'date':
        return [0, 1, -1, -2 ** 31, 2 ** 31 - 1, -2 ** 31 + 1, 2 ** 31 - 2, days_of(1, 1, 1), days_of(9999, 12, 31),
                days_of(1, 1, 1) - 1, days_of(9999, 12, 31) + 1, 365, -365, days_of(2015, 11, 2), days_of(1969, 12, 31)]
    if k == 'time':
        n = V.NANOS_PER_DAY
        return [3661000000001, 0, 1, 999, 1000, 10 ** 9, n - 1, n - 2, n // 2, 1000000, 86399 * 10 ** 9]
    if k == 'duration':
        return _durations()
    raise ValueError(k)


# two ordinary, distinct values per scalar, a < b both in Cassandra's comparator and in python
_PAIR = {
    'ascii': ('a', 'b'), 'text': (u'a', u'\xe9'), 'varchar': (u'a', u'b'), 'blob': (b'\x00', b'\xff'),
    'boolean': (False, True), 'tinyint': (-128, 127), 'smallint': (-32768, 32767), 'int': (-2 ** 31, 2 ** 31 - 1),
    'bigint': (-2 ** 63, 2 ** 63 - 1), 'counter': (-1, 1), 'varint': (-2 ** 64, 2 ** 64),
    'decimal': (D('-1.5'), D('1E+3')), 'float': (-1.5, 2.0), 'double': (-0.1, 1e300),
    'uuid': (_UUIDS[3], _UUIDS[4]), 'timeuuid': (_TIMEUUIDS[2], _TIMEUUIDS[3]), 'inet': ('1.2.3.4', '1.2.3.5'),
    'timestamp': (-1, 1320692149881), 'date': (-1, 2 ** 31 - 1), 'time': (0, V.NANOS_PER_DAY - 1),
    'duration': ((1, 2, 3), (2, 0, 0)),
}


def pair(t):
    """Two distinct non-null reference values (a, b) of type t."""
    k = t[0]
    if k in V.SCALARS:
        return _PAIR[k]
    if k in V.WRAPPERS:
        return pair(t[1])
    if k in ('list', 'set'):
        a, b = pair(t[1])
        return [a], [a, b]
    if k == 'map':
        ka, kb = pair(t[1])
        va, vb = pair(t[2])
        return [(ka, va)], [(ka, vb), (kb, va)]
    if k in ('tuple', 'udt'):
        subs = V.subtypes(t)
        ps = [pair(s) for s in subs]
        return tuple(p[0] for p in ps), tuple(p[1] for p in ps)
    if k == 'vector':
        a, b = pair(t[1])
        n = t[2]
        return [a] * n, [b] + [a] * (n - 1)
    raise ValueError(t)


def third(t):
    """A third value of a container type, after both values of pair(t) in Cassandra's order and
    not comparable with them as python sets ([y] next to [x] and [x, y]); None for scalars."""
    k = t[0]
    if k in V.WRAPPERS:
        return third(t[1])
    if k in V.SCALARS:
        return None
    if k in ('list', 'set'):
        return [pair(t[1])[1]]
    if k == 'map':
        return [(pair(t[1])[1], pair(t[2])[1])]
    if k in ('tuple', 'udt'):
        ps = [pair(s) for s in V.subtypes(t)]
        return (ps[0][1],) + tuple(p[0] for p in ps[1:])
    if k == 'vector':
        return [pair(t[1])[1]] * t[2]
    raise ValueError(t)


def distinct_elements(k, vals):
    """Members of a set / keys of a map must differ under Cassandra's comparator: decimals that
    are numerically equal (1.0, 1.00) are one element there; every other listed boundary value
    is distinct (floats compare like Float.compare: -0.0 < 0.0, NaN is one value)."""
    if k != 'decimal':
        return list(vals)
    out = []
    for v in vals:
        if not any(v == w for w in out):
            out.append(v)
    return out


def has_null_element(t, v):
    """True if a list/set/map somewhere in v holds a null element (tuple/UDT fields do not count)."""
    k = t[0]
    if v is None or k in V.SCALARS:
        return False
    if k in V.WRAPPERS:
        return has_null_element(t[1], v)
    if k in ('list', 'set'):
        return any(x is None or has_null_element(t[1], x) for x in v)
    if k == 'vector':
        return any(has_null_element(t[1], x) for x in v)
    if k == 'map':
        return any(a is None or b is None or has_null_element(t[1], a) or has_null_element(t[2], b) for a, b in v)
    if k in ('tuple', 'udt'):
        return any(has_null_element(s, x) for s, x in zip(V.subtypes(t), v))
    raise ValueError(t)


def values(t, thorough=False, top=True):
    """Finite list of non-null reference values of type t: every boundary value for scalars;
    for containers the shapes empty / singleton / two elements / both orders / a null in each
    position, built from pair() of the element type, plus (one level above scalars) one
    collection holding every boundary value of the element type."""
    k = t[0]
    if k in V.SCALARS:
        return scalar_values(k, thorough)
    if k in V.WRAPPERS:
        return values(t[1], thorough, top)
    if k in ('list', 'set'):
        e = t[1]
        a, b = pair(e)
        out = [[a, b], [], [a], [None], [None, a]]
        if k == 'list':
            out += [[b, a], [a, a], [a, None], [a, None, b]]
        if e[0] in V.SCALARS:
            allv = scalar_values(e[0], thorough)
            out.append(distinct_elements(e[0], allv) if k == 'set' else list(allv))
        else:
            out += [[x] for x in values(e, thorough, False)[:6]]
            c = third(e)
            if repr(c) not in (repr(a), repr(b)):
                out.append([a, b, c])
                if k == 'list':
                    out.append([c, b, a])
        return out
    if k == 'map':
        kt, vt = t[1], t[2]
        ka, kb = pair(kt)
        va, vb = pair(vt)
        out = [[(ka, va), (kb, vb)], [], [(ka, va)], [(ka, vb), (kb, va)], [(ka, None)], [(None, va)],
               [(ka, None), (kb, vb)], [(None, None)]]
        if kt[0] in V.SCALARS:
            out.append([(x, va) for x in distinct_elements(kt[0], scalar_values(kt[0], thorough))])
        if vt[0] in V.SCALARS:
            out.append([(ka, x) for x in scalar_values(vt[0], thorough)][:1] + [(kb, x) for x in scalar_values(vt[0], thorough)][-1:])
        if vt[0] not in V.SCALARS:
            out += [[(ka, x)] for x in values(vt, thorough, False)[:4]]
        if kt[0] not in V.SCALARS:
            out += [[(x, va)] for x in values(kt, thorough, False)[:4]]
        return out
    if k in ('tuple', 'udt'):
        subs = V.subtypes(t)
        ps = [pair(s) for s in subs]
        full = tuple(p[0] for p in ps)
        out = [full, tuple(p[1] for p in ps)]
        for i in range(len(subs)):                      # a null in each position
            out.append(full[:i] + (None,) + full[i + 1:])
        out.append((None,) * len(subs))
        if k == 'tuple' and len(subs) > 1:
            out.append(full[:-1])                       # shorter than the type: trailing fields null
        for i, s in enumerate(subs):                    # every value of each field once
            sv = values(s, thorough, False)
            if s[0] not in V.SCALARS:
                sv = sv[:6]
            for x in sv:
                out.append(full[:i] + (x,) + full[i + 1:])
        return _dedup_values(t, out)
    if k == 'vector':
        e, n = t[1], t[2]
        a, b = pair(e)
        out = [[a] * n, [b] + [a] * (n - 1), [a] * (n - 1) + [b]]
        ev = values(e, thorough, False)
        if e[0] not in V.SCALARS:
            ev = ev[:6]
        ev = [x for x in ev if x is not None]
        for i in range(0, len(ev), n):
            chunk = ev[i:i + n]
            out.append(chunk + [a] * (n - len(chunk)))
        return _dedup_values(t, out)
    raise ValueError(t)


def _dedup_values(t, vals):
    out, seen = [], set()
    for v in vals:
        key = repr(v)
        if key not in seen:
            seen.add(key)
            out.append(v)
    return out


# ------------------------------------------------------------------------------- type trees
SCALAR_TYPES = tuple((k,) for k in V.SCALARS)
_NESTABLE = tuple((k,) for k in V.SCALARS if k != 'counter')          # counters live only at top level
_KEYABLE = tuple(t for t in _NESTABLE if t[0] != 'duration')            # durations have no order


def partner(t):
    i = _NESTABLE.index(t)
    return _NESTABLE[(i + 1) % len(_NESTABLE)]


def udt(name, fields, keyspace='ks'):
    return ('udt', keyspace, name, tuple(fields))


def containers_over(y, partners, vector_dims=(1, 2), keyable=True):
    """Every container shape with y as an element (fan-out <= 2)."""
    out = [('list', y)]
    if keyable:
        out.append(('set', y))
    for p in partners:
        out.append(('map', p, y))
        if keyable:
            out.append(('map', y, p))
    out.append(('tuple', y))
    out.append(('tuple', y, partners[0]))
    out.append(udt('tz', (('a', y), ('b', partners[-1]))))
    for n in vector_dims:
        out.append(('vector', y, n))
    return out


def value_type_trees(depth, base_deeper=(('int',), ('text',)), thorough=False):
    """Type trees for C01/C02: all scalars; depth 2 = every container shape over every scalar
    (plus frozen<> / reversed<> wrappers, which do not count as a level); deeper levels =
    every container shape over the previous level built on `base_deeper` scalars only."""
    levels = [list(SCALAR_TYPES)]
    if depth >= 2:
        lvl = []
        for y in _NESTABLE:
            p = partner(y) if partner(y) in _KEYABLE else ('int',)
            keyable = y in _KEYABLE
            lvl += containers_over(y, (p,), vector_dims=(1, 2, 3) if thorough else (1, 2), keyable=keyable)
            lvl.append(('frozen', ('list', y)))
            lvl.append(('reversed', y))
        lvl.append(udt('MyType', ((u'\xe9', ('int',)), ('x y', ('text',)), ('from', ('double',)))))
        levels.append(lvl)
    seeds = [x for x in (levels[1] if depth >= 2 else []) if _base_of(x) <= set(base_deeper)]
    for _ in range(3, depth + 1):
        lvl = []
        for y in seeds:
            if y[0] == 'reversed':
                continue
            lvl += containers_over(y, (('int',),), vector_dims=(2,), keyable=_keyable_tree(y))
        levels.append(lvl)
        seeds = lvl
    return levels


def _base_of(t):
    return set((x[0],) for x in V.walk(t) if x[0] in V.SCALARS)


def _keyable_tree(t):
    return all(x[0] != 'duration' for x in V.walk(t))


UDT_NAMES = ('tz', 'city', 'MyType', u'\xe9', 'Int32Type')
UDT_FIELDS = (('a', 'b'), (u'\xe9', 'x y'), ('city', 'from'))


def descriptor_type_trees(depth, thorough=False):
    """Type trees for C28 (wrappers count as levels, fan-out <= 2): level 1 = scalars; level n+1 =
    for every y of level n: list, set, map<y,P>, map<P,y>, tuple<y>, tuple<y,P>, tuple<P,y>,
    UDTs, vector, frozen (over collections), reversed; P from {int, text}."""
    P = (('int',), ('text',))
    levels = [list(SCALAR_TYPES)]
    for d in range(2, depth + 1):
        prev = levels[-1]
        lvl = []
        for idx, y in enumerate(prev):
            if y[0] in ('counter', 'reversed'):       # reversed<> only ever wraps a whole (clustering) column type
                continue
            lvl.append(('list', y))
            lvl.append(('set', y))
            for p in P:
                lvl.append(('map', y, p))
                lvl.append(('map', p, y))
            lvl.append(('tuple', y))
            lvl.append(('tuple', y, P[idx % 2]))
            lvl.append(('tuple', P[(idx + 1) % 2], y))
            if d == 2:
                for name in UDT_NAMES:
                    lvl.append(udt(name, (('a', y),)))
                for fn in UDT_FIELDS:
                    lvl.append(udt('tz', ((fn[0], y), (fn[1], P[idx % 2]))))
            else:
                lvl.append(udt(UDT_NAMES[idx % 3], ((UDT_FIELDS[idx % 3][0], y), (UDT_FIELDS[idx % 3][1], P[idx % 2]))))
            lvl.append(('vector', y, 1 + idx % 3))
            if y[0] in V.COLLECTIONS:
                lvl.append(('frozen', y))
            lvl.append(('reversed', y))
        levels.append(lvl)
    return levels


# ------------------------------------------------------------------------------- vint boundaries (C02)
def vint_edges(max_bits=64, min_k=1, max_k=9):
    """Unsigned values around every place where the length of a VIntCoding vint changes or where an
    encoder's bit/byte arithmetic can slip: 2^(7k) and 2^(7k-1) (k = min_k..max_k) each -1, +0, +1,
    whole-byte edges 2^(8j)-1 and 2^(8j), 0, 1 and the largest value of `max_bits` bits."""
    vals = [0, 1, (1 << max_bits) - 1]
    for k in range(min_k, max_k + 1):
        for base in (1 << (7 * k - 1), 1 << (7 * k)):
            vals += [base - 1, base, base + 1]
    for j in range(1, 9):
        vals += [(1 << (8 * j)) - 1, 1 << (8 * j)]
    return sorted(set(v for v in vals if 0 <= v < (1 << max_bits)))


def vint_durations():
    """Durations whose zig-zag components sit on vint_edges: every edge alone in each of the three
    positions, every same-sign pair of edges in adjacent positions (months+days, days+nanoseconds)
    and the same edge in all three."""
    e64 = vint_edges(64)
    e32 = [u for u in e64 if u < (1 << 32)]
    s = V.unzigzag
    vals = []
    for u in e32:
        vals += [(s(u), 0, 0), (0, s(u), 0), (s(u), s(u), s(u))]
    for u in e64:
        vals.append((0, 0, s(u)))
    for a in e32:
        for b in e64:
            if a == 0 or b == 0 or a % 2 != b % 2:           # zig-zag: odd = negative; one sign per duration
                continue
            vals.append((0, s(a), s(b)))
            if b < (1 << 32):
                vals.append((s(a), s(b), 0))
    return _dedup(vals)


_sized_memo = {}


def sized_element(t, size, variant=0):
    """A reference value of type t whose serialized form (v3+ layout) is exactly `size` bytes long, or
    None when the type has no such value (variant 1 of text: two-byte characters)."""
    key = (t, size, variant)
    if key not in _sized_memo:
        x = _sized_element(t, size, variant)
        if x is not None and len(V.encode(t, x, 4)) != size:
            raise AssertionError('sized_element(%r, %d) is %d bytes' % (t, size, len(V.encode(t, x, 4))))
        _sized_memo[key] = x
    return _sized_memo[key]


def _sized_element(t, size, variant):
    k = t[0]
    blob = lambda n: None if n < 0 else b'\xab' * n
    if k in ('text', 'varchar'):
        if variant:
            return u'\xe9' * (size // 2) + u'x' * (size % 2)
        return u'x' * size
    if k == 'ascii':
        return 'x' * size
    if k == 'blob':
        return blob(size)
    if k == 'varint':
        return None if size < 1 else 1 << (8 * (size - 1))
    if k == 'decimal':
        if size < 5 or size > 1500:          # str(int) beyond 4300 digits is refused by python
            return None
        unscaled = 1 << (8 * (size - 5))
        return D((0, tuple(int(c) for c in str(unscaled)), -3))
    if k == 'tuple' and t[1:] == (('blob',),):
        b = blob(size - 4)
        return None if b is None else (b,)
    if k == 'udt' and tuple(ft for _, ft in t[3]) == (('blob',), ('int',)):
        b = blob(size - 12)
        return None if b is None else (b, 7)
    if k == 'list' and t[1] == ('blob',):
        b = blob(size - 8)
        return None if b is None else [b]
    if k == 'map' and t[1:] == (('int',), ('blob',)):
        b = blob(size - 16)
        return None if b is None else [(1, b)]
    if k == 'vector' and t[1:] == (('blob',), 1):
        for c in range(max(0, size - 9), size):
            if len(V.uvint_encode(c)) + c == size:
                return [blob(c)]
        return None
    raise ValueError(t)


# (element type, largest size generated, sizes above this use the reduced shape/version set in the quick tier)
VINT_ELEMENT_KINDS = (
    (('text',), 1 << 22, 1 << 15), (('ascii',), 1 << 22, 1 << 15), (('varchar',), 1 << 15, 1 << 15),
    (('blob',), 1 << 22, 1 << 15),
    (('varint',), 1 << 15, 300),           # the driver's varint packer is quadratic in the length
    (('decimal',), 300, 300),
    (('tuple', ('blob',)), 1 << 22, 1 << 15), (('list', ('blob',)), 1 << 22, 1 << 15),
    (('map', ('int',), ('blob',)), 1 << 15, 1 << 15), (udt('tz', (('a', ('blob',)), ('b', ('int',)))), 1 << 15, 1 << 15),
    (('vector', ('blob',), 1), 1 << 22, 1 << 15),
)
VINT_LARGE_VERSIONS = (4, 5)
VINT_MAX_K = 3             # 2^21 + 1 bytes is the largest element that is materialised


def vint_vector_types():
    """vector<E, n> for every variable-width element kind E and n = 1, 2, 3."""
    return [('vector', e, n) for e, _, _ in VINT_ELEMENT_KINDS for n in (1, 2, 3)]


def vint_vector_values(t, thorough=False):
    """[(value, protocol versions)] for t = vector<E, n>: one element of every size of
    vint_edges(k <= VINT_MAX_K) that E can have, in every position of the vector next to ordinary
    elements, and two boundary-sized elements next to each other.  Sizes above the kind's threshold
    are generated (quick tier) alone and in the last position of dimension 2 only, for versions 4 and 5."""
    e, n = t[1], t[2]
    cap, cheap = [(c, ch) for k, c, ch in VINT_ELEMENT_KINDS if k == e][0]
    a = pair(e)[0]
    sizes = [s for s in vint_edges(32, 1, VINT_MAX_K) if s <= cap + 1]
    variants = (0, 1) if e == ('text',) else (0,)
    elems = [(s, var, sized_element(e, s, var)) for s in sizes for var in variants if not (var and s > (1 << 15))]
    elems = [x for x in elems if x[2] is not None]
    out = []
    for i, (s, var, x) in enumerate(elems):
        nxt = elems[(i + 1) % len(elems)][2]
        full = thorough or s <= cheap
        pvs = PROTOCOL_VERSIONS if full else VINT_LARGE_VERSIONS
        if n == 1:
            shapes = [[x]]
        elif n == 2:
            shapes = [[a, x]] + ([[x, nxt], [x, a]] if full else [])
        else:
            shapes = [[a, x, a], [x, a, nxt], [a, a, x]] if full else []
        for v in shapes:
            out.append((v, pvs))
    return out


# ------------------------------------------------------------------------------- width-field layer (C01)
# Boundary sizes of the 16-bit width fields of the protocol v1/v2 collection layout (element count,
# element length, map key length, map value length): the largest size whose width has bit 15 clear,
# the first with bit 15 set, the largest that fits and the first that does not fit.  The 32-bit width
# fields of v3+ have their sign boundary at 2 GiB, which is out of reach.
WIDTH16_EDGES = (32767, 32768, 65535, 65536)
WIDTH16_MAX = 65535

# element kinds with a value of every serialized size (see sized_element); the composite ones are
# encoded with the v3 layout wherever they stand, so their size is the same at every version
WIDTH_SCALAR_KINDS = ((('text',), 0), (('text',), 1), (('ascii',), 0), (('varchar',), 0), (('blob',), 0))
WIDTH_COMPOSITE_KINDS = (('tuple', ('blob',)), ('list', ('blob',)), ('map', ('int',), ('blob',)),
                         udt('tz', (('a', ('blob',)), ('b', ('int',)))), ('vector', ('blob',), 1))


def width_length_cases():
    """[(type, value, what, size, largest width field of the v1/v2 layout)]: top-level lists, sets and
    maps with one element / key / value whose serialized form is exactly `size` bytes (size over WIDTH16_EDGES), alone and between ordinary
    elements; maps also with a boundary-sized key and a boundary-sized value in one entry."""
    out = []
    for i, size in enumerate(WIDTH16_EDGES):
        other = WIDTH16_EDGES[(i + 1) % len(WIDTH16_EDGES)]
        for e, var in WIDTH_SCALAR_KINDS:
            x, y = sized_element(e, size, var), sized_element(e, other, var)
            a, b = pair(e)
            tag = '%s%s' % (e[0], '/2-byte-chars' if var else '')
            out.append((('list', e), [x], 'list element length, ' + tag, size, size))
            out.append((('list', e), [a, x, b], 'list element length, ' + tag, size, size))
            out.append((('list', e), [x, x], 'list element length, ' + tag, size, size))
            out.append((('set', e), [x], 'set element length, ' + tag, size, size))
            out.append((('set', e), [a, x], 'set element length, ' + tag, size, size))
            out.append((('map', e, ('int',)), [(x, 1)], 'map key length, ' + tag, size, size))
            out.append((('map', e, ('int',)), [(a, 1), (x, 2)], 'map key length, ' + tag, size, size))
            out.append((('map', ('int',), e), [(1, x)], 'map value length, ' + tag, size, size))
            out.append((('map', ('int',), e), [(1, a), (2, x), (3, b)], 'map value length, ' + tag, size, size))
            out.append((('map', e, e), [(x, y)], 'map key and value length, ' + tag, size, max(size, other)))
        for e in WIDTH_COMPOSITE_KINDS:
            x = sized_element(e, size)
            a = pair(e)[0]
            out.append((('list', e), [x], 'list element length, ' + e[0], size, size))
            out.append((('list', e), [a, x, a], 'list element length, ' + e[0], size, size))
            out.append((('map', ('int',), e), [(1, x)], 'map value length, ' + e[0], size, size))
            out.append((('map', ('int',), e), [(1, a), (2, x)], 'map value length, ' + e[0], size, size))
    return out


def width_count_cases(thorough=False):
    """[(type, value, what, size, largest width field of the v1/v2 layout)]: top-level lists, sets and
    maps with `size` elements (size over WIDTH16_EDGES) of a 1-byte type (lists, map values), of a
    0..1-byte text, or of distinct 2-byte integers (set members, map keys); thorough: also booleans
    and 4-byte members / keys."""
    out = []
    for n in WIDTH16_EDGES:
        out.append((('list', ('tinyint',)), [(i % 256) - 128 for i in range(n)], 'list element count', n, n))
        out.append((('list', ('text',)), [u'x' if i % 2 else u'' for i in range(n)], 'list element count', n, n))
        out.append((('set', ('smallint',)), [i - 32768 for i in range(n)], 'set element count', n, n))
        out.append((('map', ('smallint',), ('tinyint',)), [(i - 32768, (i % 256) - 128) for i in range(n)], 'map entry count', n, n))
        if thorough:
            out.append((('list', ('boolean',)), [i % 3 == 0 for i in range(n)], 'list element count', n, n))
            out.append((('set', ('int',)), [i * 65537 - 2 ** 31 for i in range(n)], 'set element count', n, n))
            out.append((('map', ('int',), ('boolean',)), [(i * 65537 - 2 ** 31, i % 3 == 0) for i in range(n)], 'map entry count', n, n))
    return out


_width_memo = {}


def width_cases(thorough=False):
    """Length cases, then count cases (memoised: the count cases are large)."""
    if thorough not in _width_memo:
        _width_memo[thorough] = width_length_cases() + width_count_cases(thorough)
    return _width_memo[thorough]


# ------------------------------------------------------------------------------- input-kind layer (C02)
# Reference-domain grids for the values that are handed to the driver as each python input kind a
# serializer accepts (datetime / date / str / int / float / wrapper objects ...).
_DATE_MIN, _DATE_MAX = days_of(1, 1, 1), days_of(9999, 12, 31)


def kind_days(thorough=False):
    """Day numbers python's date can hold: the `date` grid values inside 0001-01-01..9999-12-31, both ends
    and their neighbours, the days around the epoch, the days on which 2^31 seconds before/after the epoch
    fall, leap days, century non-leap years, the Gregorian switch, the int64-nanosecond days."""
    ymd = [(1969, 12, 30), (1969, 12, 31), (1970, 1, 1), (1970, 1, 2), (1, 1, 1), (1, 1, 2), (9999, 12, 30), (9999, 12, 31),
           (1901, 12, 13), (1901, 12, 14), (2038, 1, 19), (2038, 1, 20), (1900, 1, 1), (1900, 2, 28), (1900, 3, 1),
           (2000, 2, 29), (1600, 2, 29), (1582, 10, 4), (1582, 10, 15), (1950, 3, 7), (1815, 6, 18), (1677, 9, 21),
           (2262, 4, 11), (2015, 11, 2), (1968, 2, 29), (1972, 2, 29), (100, 3, 1), (999, 12, 31), (1000, 1, 1)]
    if thorough:
        for y in (2, 4, 99, 400, 1000, 1500, 1699, 1700, 1800, 1899, 1960, 1969, 1970, 1971, 1999, 2001, 2100, 2242, 2400,
                  3000, 5000, 9998):
            ymd += [(y, 1, 1), (y, 2, 28), (y, 6, 15), (y, 12, 31)]
    vals = [d for d in scalar_values('date', thorough) if _DATE_MIN <= d <= _DATE_MAX]
    return _dedup(vals + [days_of(*x) for x in ymd])


def kind_times_of_day(thorough=False):
    """(hour, minute, second, microsecond): midnight, the first/last microsecond, millisecond and second of
    the day, the quarters, the times of day of +-2^31 s from the epoch."""
    tods = [(0, 0, 0, 0), (0, 0, 0, 1), (0, 0, 0, 1000), (0, 0, 1, 0), (3, 14, 7, 0), (3, 14, 8, 0), (6, 0, 0, 0),
            (12, 0, 0, 0), (12, 34, 56, 789000), (18, 0, 0, 0), (20, 45, 51, 0), (20, 45, 52, 0), (23, 59, 59, 0),
            (23, 59, 59, 999000), (23, 59, 59, 999999)]
    if thorough:
        tods += [(0, 0, 0, 999), (0, 0, 0, 999999), (0, 1, 0, 0), (1, 0, 0, 0), (11, 59, 59, 999000), (12, 0, 0, 1000),
                 (23, 0, 0, 0), (23, 59, 0, 0), (23, 59, 59, 1000), (23, 59, 59, 500000)]
    return tods


def tod_us(tod):
    h, mi, s, us = tod
    return ((h * 60 + mi) * 60 + s) * 10 ** 6 + us


def kind_instants(thorough=False):
    """Milliseconds since the epoch inside python's datetime range: the `timestamp` grid plus every
    kind_days day at every whole-millisecond time of day."""
    vals = list(_timestamps(thorough))
    for d in kind_days(thorough):
        for tod in kind_times_of_day(thorough):
            us = tod_us(tod)
            if us % 1000 == 0:
                vals.append(d * 86400000 + us // 1000)
    for s in (2 ** 31, -2 ** 31):
        vals += [s * 1000 - 1, s * 1000, s * 1000 + 1]
    vals += [-86400000 - 1, -86400000 + 1, 86400000 - 1, 86400000 + 1]
    lo, hi = ms_of(1, 1, 1), ms_of(9999, 12, 31, 23, 59, 59, 999)
    return _dedup([v for v in vals if lo <= v <= hi])


def kind_wide_instants():
    """Milliseconds beyond datetime's range (given as numbers only): int64 and float-mantissa edges."""
    return [-2 ** 63, 2 ** 63 - 1, -2 ** 63 + 1, 2 ** 63 - 2, 2 ** 53, 2 ** 53 + 1, -2 ** 53, -2 ** 53 - 1, 2 ** 62, -2 ** 62,
            ms_of(1, 1, 1) - 1, ms_of(9999, 12, 31, 23, 59, 59, 999) + 1]


def kind_time_nanos(thorough=False):
    """Nanoseconds since midnight: the `time` grid plus unit edges (us, ms, s, min, h) -1/+0/+1 ns."""
    n = V.NANOS_PER_DAY
    vals = list(scalar_values('time', thorough))
    for unit in (10 ** 3, 10 ** 6, 10 ** 9, 60 * 10 ** 9, 3600 * 10 ** 9, n // 2):
        vals += [unit - 1, unit, unit + 1]
    vals += [((12 * 60 + 34) * 60 + 56) * 10 ** 9 + 789012345, n - 1000, n - 10 ** 6, n - 10 ** 9, 100, 120000000, 5 * 10 ** 8,
             ((23 * 60 + 59) * 60 + 59) * 10 ** 9 + 999999000]
    return _dedup([v for v in vals if 0 <= v < n])


def kind_dyadic_floats():
    """Non-integral floats whose shortest repr is their exact value (so the decimal they stand for has one
    scale whichever way a float is turned into a decimal)."""
    import fractions
    cands = [1.5, -1.5, 0.5, -0.25, 0.75, 19432.125, 2.0 ** -10, -2.0 ** -20, 1234.0625, -0.125, 255.5, 65535.5,
             -32768.5, 4294967295.5, 0.0009765625, 123456789.25]
    return _dedup([f for f in cands if f != int(f) and 'e' not in repr(f) and fractions.Fraction(repr(f)) == fractions.Fraction(f)])
